"""Driver: ./check <Cxx> quick|thorough [--replay file]

Runs the shards of one property check in subprocesses (one `subprocess.run(timeout=)`
per shard), merges what the monitors observed, writes evidence/<id>.json and decides
the three-valued verdict:

  exit 0  held on everything observed (KNOWN-FINDING lines possible)
  exit 1  VIOLATION property=<id> replay=<path>   (one line per distinct mechanism)
  exit 2  INCONCLUSIVE (monitor never reached / watchdog / shard crashed)
"""

import argparse
import importlib
import json
import os
import subprocess
import sys
import time
from concurrent.futures import ThreadPoolExecutor

from vlib import env


def load_known():
    """known_findings.txt -> ({(prop, mech): desc} for known, same for fixed)."""
    known, fixed = {}, {}
    p = os.path.join(env.VERIF, "known_findings.txt")
    if not os.path.exists(p):
        return known, fixed
    for line in open(p):
        line = line.strip()
        if not line or line.startswith("#"):
            continue
        kind, _, rest = line.partition(":")
        kind = kind.strip()
        toks = rest.split("::")[0].split()
        desc = rest.split("::", 1)[1].strip() if "::" in rest else rest.strip()
        prop = mech = None
        for t in toks:
            if t.startswith("property="):
                prop = t.split("=", 1)[1]
            if t.startswith("mechanism="):
                mech = t.split("=", 1)[1]
        if prop is None or mech is None:
            continue
        (known if kind == "known" else fixed)[(prop, mech)] = desc
    return known, fixed


def shard_env(mode):
    e = dict(os.environ)
    th = env.tree_hash()
    tag = th + ("-bc" if mode.get("boundscheck") else "")
    cdir = os.path.join(env.CACHE_ROOT, "numba", tag)
    os.makedirs(cdir, exist_ok=True)
    e["NUMBA_CACHE_DIR"] = cdir
    e.pop("NUMBA_BOUNDSCHECK", None)
    e.pop("NUMBA_DISABLE_JIT", None)
    if mode.get("boundscheck"):
        e["NUMBA_BOUNDSCHECK"] = "1"
    if mode.get("disable_jit"):
        e["NUMBA_DISABLE_JIT"] = "1"
    e["NUMBA_NUM_THREADS"] = "1"
    e["OMP_NUM_THREADS"] = "1"
    e["OPENBLAS_NUM_THREADS"] = "1"
    e["MKL_NUM_THREADS"] = "1"
    e["PYTHONHASHSEED"] = "0"
    e["PYTHONDONTWRITEBYTECODE"] = "1"
    pp = [p for p in e.get("PYTHONPATH", "").split(os.pathsep) if p]
    for p in (env.REPO, env.VERIF):
        if p in pp:
            pp.remove(p)
        pp.insert(0, p)
    e["PYTHONPATH"] = os.pathsep.join(pp)
    e["VERIF_TREE_HASH"] = th
    for k, v in mode.get("env", {}).items():
        e[k] = str(v)
    return e, cdir


def run_one(pid, tier, seed, spec, outdir):
    out = os.path.join(outdir, "shard-%s.json" % spec["name"])
    if os.path.exists(out):
        os.remove(out)
    e, _ = shard_env(spec.get("mode", {}))
    cmd = [env.PYTHON, "-B", "-X", "faulthandler", "-m", "vlib.shard", pid, tier, str(seed), json.dumps(spec), out]
    t0 = time.time()
    try:
        r = subprocess.run(
            cmd, cwd=env.VERIF, env=e, timeout=spec.get("timeout", 1800), capture_output=True, text=True
        )
        rc, so, se = r.returncode, r.stdout, r.stderr
    except subprocess.TimeoutExpired as ex:
        rc = "timeout"
        so = ex.stdout.decode() if isinstance(ex.stdout, bytes) else (ex.stdout or "")
        se = ex.stderr.decode() if isinstance(ex.stderr, bytes) else (ex.stderr or "")
    dt = time.time() - t0
    res = None
    if os.path.exists(out):
        try:
            res = json.load(open(out))
        except Exception:
            res = None
    return {"spec": spec, "rc": rc, "stdout": so[-4000:], "stderr": se[-6000:], "res": res, "wall": dt}


def main(argv=None):
    os.environ["VERIF_RUN_ID"] = "%d-%d" % (os.getpid(), int(time.time()))
    try:
        return _main(argv)
    finally:
        env.clean_run_root()


def _main(argv=None):
    ap = argparse.ArgumentParser()
    ap.add_argument("pid")
    ap.add_argument("tier", nargs="?", default=os.environ.get("VERIF_TIER", "quick"))
    ap.add_argument("--replay", default=None)
    ap.add_argument("--only", default=None, help="run only the shard with this name (debug)")
    ap.add_argument("--jobs", type=int, default=int(os.environ.get("VERIF_JOBS", "16")))
    ap.add_argument("--inproc", action="store_true", help="run shards in-process (debug)")
    ap.add_argument("--warm", action="store_true", help="compile-only pass: one shard per kind, no evidence, always exit 0")
    a = ap.parse_args(argv)
    pid = a.pid.upper()
    tier = a.tier
    if tier not in ("quick", "thorough"):
        print("tier must be quick|thorough", file=sys.stderr)
        return 2
    seed = env.seed()
    th, cdir = env.configure()
    mod = importlib.import_module("checks.%s" % pid.lower())
    t0 = time.time()

    from vlib.report import Collector
    from vlib import evidence

    if a.replay:
        col = Collector()
        obj = json.load(open(a.replay))
        mod.replay(obj, col)
        known, _ = load_known()
        rc = 0
        if col.violations:
            for v in col.violations:
                if (pid, v["mechanism"]) in known:
                    print("KNOWN-FINDING: property=%s %s [%s]" % (pid, known[(pid, v["mechanism"])], v["mechanism"]))
                else:
                    print("VIOLATION property=%s replay=%s" % (pid, a.replay))
                    print("  mechanism=%s %s" % (v["mechanism"], v["message"]))
                    rc = 1
        else:
            print("replay: no violation reproduced")
        return rc

    specs = mod.plan(tier, seed)
    if a.only:
        specs = [s for s in specs if s["name"] == a.only]
    outdir = env.workdir("%s-%s" % (pid, tier))
    if a.warm:
        firsts = {}
        for s in specs:
            firsts.setdefault((s.get("kind", "default"), json.dumps(s.get("mode", {}), sort_keys=True)), s)
        wdir = env.workdir("%s-warm" % pid)
        with ThreadPoolExecutor(max_workers=max(1, len(firsts))) as ex:
            rs = list(ex.map(lambda sp: run_one(pid, tier, seed, sp, wdir), firsts.values()))
        for r in rs:
            print("warm %s %s rc=%s %.0fs" % (pid, r["spec"]["name"], r["rc"], r["wall"]))
        return 0

    # warm-up: the first shard of each execution mode runs alone first when the numba
    # cache for this tree has not been filled by this check before.
    results = []
    marker_dir = os.path.join(cdir, "..")
    pending = list(specs)

    def mode_key(s):
        m = s.get("mode", {})
        return ("bc" if m.get("boundscheck") else "") + ("nojit" if m.get("disable_jit") else "")

    first = {}
    for s in specs:
        first.setdefault(mode_key(s), s)
    warm = []
    for mk, s in first.items():
        if "nojit" in mk:
            continue
        _, cd = shard_env(s.get("mode", {}))
        marker = os.path.join(cd, "warm-%s-%s" % (pid, tier))
        # a thorough run right after a quick run finds the kernels compiled already: do not serialise a long shard
        if not os.path.exists(marker) and not (tier == "thorough" and os.path.exists(os.path.join(cd, "warm-%s-quick" % pid))):
            warm.append((s, marker))
    if warm and not a.inproc:
        with ThreadPoolExecutor(max_workers=len(warm)) as ex:
            futs = [ex.submit(run_one, pid, tier, seed, s, outdir) for s, _ in warm]
            for (s, marker), f in zip(warm, futs):
                r = f.result()
                results.append(r)
                pending.remove(s)
                if r["rc"] == 0:
                    open(marker, "w").write(str(time.time()))
    if a.inproc:
        from vlib import shard as shardmod

        for s in pending:
            out = os.path.join(outdir, "shard-%s.json" % s["name"])
            t1 = time.time()
            shardmod.run(pid, tier, seed, s, out)
            results.append({"spec": s, "rc": 0, "stdout": "", "stderr": "", "res": json.load(open(out)), "wall": time.time() - t1})
    else:
        with ThreadPoolExecutor(max_workers=max(1, a.jobs)) as ex:
            futs = [ex.submit(run_one, pid, tier, seed, s, outdir) for s in pending]
            for f in futs:
                results.append(f.result())

    col = Collector()
    incon = []
    shard_walls = {}
    for r in results:
        nm = r["spec"]["name"]
        shard_walls[nm] = round(r["wall"], 1)
        if r["res"] is None:
            incon.append("shard %s produced no result (rc=%s): %s" % (nm, r["rc"], (r["stderr"] or r["stdout"])[-1500:]))
            continue
        col.merge(r["res"])
        if r["rc"] != 0:
            incon.append("shard %s rc=%s: %s" % (nm, r["rc"], (r["stderr"] or "")[-1500:]))
    incon.extend(col.inconclusive)

    # minimum counters: refuse to say "held" when a deciding monitor was never reached
    req = mod.required(tier) if hasattr(mod, "required") else {}
    for k, v in req.items():
        have = col.counters.get(k, 0)
        if have < v:
            incon.append("monitor counter %s=%d below required %d" % (k, have, v))

    if not col.samples and not incon:
        incon.append("no sample case was recorded by any shard")
    known, fixed = load_known()
    by_mech = {}
    for v in col.violations:
        by_mech.setdefault(v["mechanism"], []).append(v)
    rc = 0
    lines = []
    n_new = 0
    rdir = os.path.join(env.OUT, "replays", pid)
    os.makedirs(rdir, exist_ok=True)
    for mech, vs in sorted(by_mech.items()):
        if (pid, mech) in known:
            lines.append("KNOWN-FINDING: property=%s %s [%s; %d witnesses this run, e.g. %s]" % (
                pid, known[(pid, mech)], mech, col.viol_counts.get(mech, len(vs)), vs[0]["message"][:300]))
            continue
        n_new += 1
        rp = os.path.join(rdir, "%s-%s-s%d.json" % (mech.replace("/", "_").replace(":", "_"), tier, seed))
        json.dump({"property": pid, "mechanism": mech, "message": vs[0]["message"], "case": vs[0]["replay"],
                   "tier": tier, "seed": seed}, open(rp, "w"), indent=1)
        lines.append("VIOLATION property=%s replay=%s" % (pid, os.path.relpath(rp, env.OUT)))
        lines.append("  mechanism=%s witnesses=%d first: %s" % (mech, col.viol_counts.get(mech, len(vs)), vs[0]["message"][:1500]))
        rc = 1
    wall = time.time() - t0
    verdict = "violated" if rc == 1 else ("inconclusive" if incon else "held")
    if rc == 0 and incon:
        rc = 2
    evidence.write(mod, pid, tier, seed, col, wall, verdict, n_new, th, shard_walls, incon, sorted(by_mech))
    for ln in lines:
        print(ln)
    if incon:
        for m in incon[:20]:
            print("INCONCLUSIVE property=%s %s" % (pid, m.replace("\n", " | ")[:1500]))
    print("%s %s tier=%s seed=%d evaluations=%d distinct_nontrivial=%d wall=%.1fs tree=%s" % (
        pid, verdict.upper(), tier, seed, col.evaluations, len(col.hashes), wall, th))
    keys = sorted(col.counters)
    if keys:
        print("  monitors: " + ", ".join("%s=%d" % (k, col.counters[k]) for k in keys))
    if col.maxima:
        print("  maxima: " + ", ".join("%s=%.3g" % (k, v) for k, v in sorted(col.maxima.items())))
    env.touch_cache()
    if env.OUT == env.VERIF:
        env.prune_caches()
    return rc


if __name__ == "__main__":
    sys.exit(main())
