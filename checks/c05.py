"""C05 - genotype priors are proper distributions and mutually consistent.

Monitor: return values of the compiled prior kernels over exhaustively enumerated genotype spaces.
Oracle: independent multinomial / Dirichlet-multinomial pmf (lgamma form and exact Fractions),
sum-to-one, exact conditional identity for the single-allele prior, assemble == call with flat frequencies.
"""

import itertools
import math
from fractions import Fraction

import numpy as np

from vlib import gen
from vlib.oracles import model as M

ID = "C05"
TECHNIQUE = "runtime monitoring: compiled prior kernels observed over exhaustively enumerated genotype spaces; independent (Dirichlet-)multinomial oracle in lgamma and exact-Fraction form"
LEVEL = "exploration"
LEVEL_TEXT = (
    "Exploration with exhaustive cells: for every (ploidy 1-12, 16, 20; alleles 1-8) space with <=1716 (thorough 6435) genotypes, and for pooled-sample ploidies 32-300 (incl. 127-130, 255-257) with 1-3 alleles, "
    "and a fixed grid of inbreeding values and frequency vectors (flat, random, zero-containing, extreme skew) every "
    "genotype's prior returned by the real kernels is observed: sums to one, equals the independent pmf (float and "
    "exact rational), the single-allele conditional equals the exact conditional of the genotype prior for every "
    "(genotype, position, allele), and the assemble prior equals the call prior with flat frequencies. Parameters "
    "outside the grid are sampled (random F and frequencies), not exhausted."
)
LEVEL_TEXT += " Session 3: a program-level kind - call-exact on samples without reads prints GP = the prior of THAT sample (own ploidy, own inbreeding coefficient from a per-sample file, the record's normalised / masked frequencies) - and a designed rare-allele frequency vector whose product over a large pool leaves the double range."
LEVEL_TEXT += ' Session 4: the assemble prior on long loci (20-300 SNVs, per-haplotype dispersion down to 1e-180): every copy-number pattern vs the log-space oracle, and total mass over all patterns with exact integer genotype counts.'
LEVEL_NOTE = "Trusts math.lgamma, fractions.Fraction and the oracle pmf in vlib/oracles/model.py; tolerance 1e-9 relative on probabilities."
RULE = (
    "cell = (ploidy, n_alleles, inbreeding, frequency vector); every unordered genotype of the cell is evaluated; "
    "a case = one (cell, genotype) evaluation; non-trivial = ploidy>=2 and n_alleles>=2; distinct by hash of (cell, genotype)"
)
ASSUMPTIONS = ["Dirichlet-multinomial with alpha_i = f_i (1-F)/F is the documented prior", "zero-frequency alleles have probability exactly 0"]
TOL = 1e-9

F_GRID = [0.0, 1e-3, 0.1, 0.5, 0.9, 0.999]
HIGH_PLOIDIES = [32, 64, 100, 127, 128, 129, 130, 160, 200, 255, 256, 257, 300]


def cells(tier):
    lim = 1716 if tier == "quick" else 6435
    out = []
    for ploidy in list(range(1, 13)) + [16, 20]:
        for na in range(1, 9):
            n = math.comb(na + ploidy - 1, ploidy)
            if n <= lim:
                out.append((ploidy, na, n))
    # ploidies of pooled samples (a pool of 32 tetraploids has ploidy 128): few alleles, every genotype; dose counters of
    # one allele pass 127 / 255 here
    for ploidy in HIGH_PLOIDIES:
        for na in (1, 2, 3):
            n = math.comb(na + ploidy - 1, ploidy)
            if n <= (9000 if tier == "quick" else 50000) and (na < 3 or tier != "quick" or ploidy in (127, 128, 130)):
                out.append((ploidy, na, n))
    return out


def plan(tier, seed):
    cs = cells(tier)
    cs.sort(key=lambda c: -c[2] * c[0])
    n = 16
    shards = [[] for _ in range(n)]
    loads = [0] * n
    for c in cs:
        i = loads.index(min(loads))
        shards[i].append(c)
        loads[i] += c[2] * c[0] * c[1]
    specs = [{"name": "s%02d" % i, "shard": i, "cells": s, "timeout": 3000} for i, s in enumerate(shards)]
    specs += [{"name": "prog%d" % i, "kind": "prog", "shard": i, "datasets": 10 if tier == "quick" else 40, "timeout": 3000} for i in range(4)]
    return specs


def required(tier):
    return {"assemble_long_locus_patterns": 500, "assemble_long_locus_patterns_with_three_copies": 200, "assemble_long_locus_sum_cells": 60,
            "sum_to_one_cells": 300, "pmf_checked": 50000, "conditional_checked": 50000, "assemble_vs_call": 2000,
            "exact_fraction_checked": 2000, "zero_freq_cells": 20, "high_ploidy_cells": 20, "prior_order_independence_checked": 50000,
            "prog_datasets": 12, "prog_gp_vectors_checked": 80, "prog_datasets_equal_ploidy_unequal_inbreeding": 6}


def coverage_extra(tier, col):
    return {"exhaustive": True, "exhaustive_note": "every genotype of every (ploidy, n_alleles) cell for the listed F grid and frequency vectors"}


def freq_vectors(rng, na, extra=0):
    out = [("none", None), ("flat", np.full(na, 1.0 / na))]
    if na >= 2:
        f = rng.dirichlet(np.ones(na))
        out.append(("rand", f / f.sum()))
        f = rng.dirichlet(np.ones(na))
        k = int(rng.integers(1, na))
        f[rng.permutation(na)[:k]] = 0.0
        out.append(("zeros", f / f.sum()))
        f = np.full(na, 1e-6)
        f[int(rng.integers(na))] = 1.0
        out.append(("skew", f / f.sum()))
        # rational frequencies for the exact check
        ints = rng.integers(1, 9, size=na)
        out.append(("rational", ints / ints.sum()))
        for e in range(extra):
            f = rng.dirichlet(np.ones(na) * float(rng.choice([0.2, 1.0, 5.0])))
            f = np.maximum(f, 1e-9)
            out.append(("rand%d" % e, f / f.sum()))
    return out


def relclose(a, b, tol=TOL):
    return abs(a - b) <= tol * max(abs(a), abs(b)) + 1e-300


def run_cell(ploidy, na, rng, col, K, spec_name, tier="quick"):
    gs = M.genotypes_vcf_order(na, ploidy)
    arr = np.array(gs, dtype=np.int64).reshape(len(gs), ploidy)
    n_extra = 0 if tier == "quick" else (4 if len(gs) <= 1000 else 1)
    Fs = list(F_GRID) + [float(rng.uniform(0.001, 0.99)) for _ in range(1 + n_extra)]
    fvs = freq_vectors(rng, na, extra=n_extra)
    high = ploidy > 20
    if high:
        col.count("high_ploidy_cells")
        Fs = [0.0, 0.1, float(rng.uniform(0.001, 0.99))] + ([0.9] if len(gs) <= 1000 else [])
        fvs = [fv for fv in fvs if fv[0] in ("none", "rand", "zeros", "rational")]
        if na >= 2:
            # a rare allele in a large pool: f ** ploidy is far below the double range (0.003 ** 128 = 1e-323) although the
            # log prior is an ordinary number
            f = np.full(na, 0.003)
            f[-1] = 1.0 - 0.003 * (na - 1)
            fvs.append(("rare", f))
    for fname, f in fvs:
        for F in Fs:
            cell = {"ploidy": ploidy, "n_alleles": na, "F": F, "freq": None if f is None else f.tolist()}
            lps = np.empty(len(gs))
            for i in range(len(gs)):
                lps[i] = K["call_prior"](arr[i], na, F, f)
            col.count("pmf_checked", len(gs))
            # the prior is a function of the genotype as a MULTISET: the samplers hand it arrays in arbitrary order (an MH
            # proposal substitutes one allele in place), the enumerations hand it sorted ones
            if ploidy >= 2:
                sel = range(len(gs)) if len(gs) <= 200 else [int(x) for x in rng.integers(0, len(gs), size=120)]
                nbo = 0
                for i in sel:
                    perm = rng.permutation(ploidy)
                    if ploidy >= 3 and rng.random() < 0.5:
                        perm = perm[::-1] if list(perm) == sorted(perm) else perm
                    got_p = float(K["call_prior"](np.ascontiguousarray(arr[i][perm]), na, F, f))
                    col.count("prior_order_independence_checked")
                    same = (got_p == lps[i]) if (math.isinf(got_p) or math.isinf(lps[i])) else abs(got_p - lps[i]) <= 1e-9 * max(1.0, abs(lps[i]))
                    if not same and nbo < 2:
                        nbo += 1
                        col.violation("prior-depends-on-allele-order", "call prior of %s = %r but of the same genotype stored as %s = %r (ploidy %d alleles %d F %g freq %s)"
                                      % (gs[i] if ploidy <= 12 else "genotype #%d" % i, float(lps[i]), arr[i][perm].tolist() if ploidy <= 12 else "a permutation", got_p, ploidy, na, F, fname),
                                      {"kind": "cell", **cell})
            tot = math.fsum(math.exp(x) for x in lps if x != -math.inf)
            col.count("sum_to_one_cells")
            col.maxv("max_sum_error", abs(tot - 1))
            if fname == "zeros":
                col.count("zero_freq_cells")
            if abs(tot - 1) > TOL:
                col.violation("prior-does-not-sum-to-one", "call prior sums to %.12g (ploidy %d alleles %d F %g freq %s)" % (tot, ploidy, na, F, fname), {"kind": "cell", **cell})
            nbad = 0
            for i, g in enumerate(gs):
                col.case("%d|%d|%r|%s|%s" % (ploidy, na, F, fname if fname in ("none", "flat") else repr(cell["freq"]), g), nontrivial=(ploidy >= 2 and na >= 2))
                want = M.log_prior(g, na, F, f)
                got = float(lps[i])
                ok = (got == want) if (math.isinf(want) or math.isinf(got)) else relclose(math.exp(got), math.exp(want)) and abs(got - want) <= 1e-8 * max(1, abs(want))
                if not ok and nbad < 3:
                    nbad += 1
                    mech = "zero-frequency-allele-has-mass" if (want == -math.inf) else "prior-differs-from-dirichlet-multinomial"
                    if got == -math.inf and want > -math.inf and F == 0.0 and f is not None:
                        mech = "multinomial-prior-underflows-for-large-pools"
                    col.violation(mech, "call prior of %s = %r want %r (ploidy %d alleles %d F %g freq %s)" % (g, got, want, ploidy, na, F, fname),
                                  {"kind": "genotype", "genotype": list(g), **cell})
            # exact rational cross-check on a subset of genotypes
            if fname in ("none", "flat", "rational") and F in (0.0, 0.1, 0.5, 0.9):
                Fq = Fraction(F).limit_denominator(1000)
                sel = np.unique(np.linspace(0, len(gs) - 1, min(len(gs), 25)).astype(int))
                for i in sel:
                    if fname == "rational":
                        fq = [Fraction(float(x)).limit_denominator(10**4) for x in f]
                        tq = sum(fq)
                        fq = [x / tq for x in fq]
                    else:
                        fq = None
                    ex = M.prior_exact(gs[i], na, Fq, fq)
                    col.count("exact_fraction_checked")
                    got = math.exp(lps[i])
                    if not relclose(got, float(ex), 1e-8):
                        col.violation("prior-differs-from-dirichlet-multinomial", "exact rational prior of %s = %s (%.12g) but kernel gives %.12g" % (gs[i], ex, float(ex), got),
                                      {"kind": "genotype", "genotype": list(gs[i]), **cell})
            # single-allele conditional == exact conditional of the genotype prior
            if (ploidy <= 6 and na <= 6) or len(gs) <= 500 or high:
                lookup = {g: lps[i] for i, g in enumerate(gs)}
                rests = M.genotypes_vcf_order(na, ploidy - 1) if ploidy > 1 else [()]
                if len(rests) > 500:
                    # high-ploidy cells: the extreme rests (one allele carrying nearly every copy) plus a random sample
                    pick = sorted(set([0, 1, len(rests) - 1, len(rests) - 2] + [int(x) for x in rng.integers(0, len(rests), size=40)]))
                    rests = [rests[i] for i in pick]
                nb = 0
                for rest in rests:
                    # unnormalised conditional weights: P(G'_b) * count_b(G'_b)
                    lpb = [lookup[tuple(sorted(rest + (b,)))] for b in range(na)]
                    top = max(lpb)   # weights relative to the largest: the genotype priors themselves may be far below 1e-308
                    w = []
                    for b in range(na):
                        gb = tuple(sorted(rest + (b,)))
                        lp = lpb[b]
                        w.append(0.0 if (lp == -math.inf or top == -math.inf) else math.exp(lp - top) * gb.count(b))
                    z = math.fsum(w)
                    if z <= 0:
                        col.count("conditional_undefined_skipped")
                        continue
                    for b in range(na):
                        geno = np.array(rest + (b,), dtype=np.int64)
                        k = ploidy - 1
                        # put the variable allele at a random position
                        pos = int(rng.integers(ploidy))
                        geno[[pos, k]] = geno[[k, pos]]
                        got = math.exp(K["allele_prior"](geno, pos, na, F, f))
                        want = w[b] / z
                        col.count("conditional_checked")
                        col.maxv("max_conditional_error", abs(got - want))
                        if abs(got - want) > TOL and nb < 3:
                            nb += 1
                            col.violation("allele-conditional-not-exact", "conditional prior of allele %d given %s = %.12g want %.12g (ploidy %d alleles %d F %g freq %s)" % (b, rest, got, want, ploidy, na, F, fname),
                                          {"kind": "conditional", "rest": list(rest), "allele": b, **cell})
            if len(col.samples) < 1 and F == 0.1 and fname in ("rand", "none") and len(gs) <= 40:
                col.sample({"cell": cell, "genotypes": [list(g) for g in gs], "log_prior_observed": lps.tolist()})


def run_assemble(rng, col, K, n_cases):
    """assemble prior of a dosage == call prior with flat frequencies over all haplotypes."""
    for c in range(n_cases):
        ploidy = int(rng.integers(1, 9)) if rng.random() < 0.7 else int(rng.integers(9, 21))
        n_pos = int(rng.integers(1, 5))
        n_alleles = rng.integers(2, 5, size=n_pos)
        u = int(np.prod(n_alleles))
        F = float(rng.choice(F_GRID)) if rng.random() < 0.7 else float(rng.uniform(0.001, 0.99))
        g = gen.gen_genotype(rng, ploidy, n_alleles, dup_rate=0.5)
        allh = gen.all_haplotypes(n_alleles)
        alleles = np.array(sorted(allh.index(tuple(r)) for r in g.tolist()), dtype=np.int64)
        dosage = np.zeros(ploidy, dtype=np.int8)
        K["get_dosage"](dosage, g)
        got = float(K["asm_prior"](dosage, float(np.log(n_alleles).sum()), F))
        call = float(K["call_prior"](alleles, u, F, None))
        want = M.assemble_log_prior(g.tolist(), u, F)
        col.count("assemble_vs_call")
        col.case("A%s|%r|%s" % (n_alleles.tolist(), F, g.tolist()), nontrivial=ploidy >= 2)
        col.maxv("max_assemble_call_diff", abs(got - call))
        if abs(got - call) > 1e-9 * max(1, abs(call)) or abs(got - want) > 1e-9 * max(1, abs(want)):
            col.violation("assemble-prior-differs-from-flat-call-prior", "assemble prior %.12g, call prior(flat over %d haplotypes) %.12g, oracle %.12g for %s F=%g" % (got, u, call, want, g.tolist(), F),
                          {"kind": "assemble", "genotype": g.tolist(), "n_alleles": n_alleles.tolist(), "F": F})
    # session 4: long loci - astronomically many possible haplotypes, per-haplotype dispersion tiny.  The space cannot be
    # enumerated, but the prior depends on a genotype only through its copy-number pattern: every pattern (integer partition of
    # the ploidy) is compared with the log-space oracle, and sum over patterns of (#genotypes with the pattern) x prior == 1
    # with the count U (U-1) ... (U-k+1) / prod m_i! taken in exact integer arithmetic.
    def partitions(n, largest=None):
        largest = n if largest is None else largest
        if n == 0:
            yield []
            return
        for first in range(min(n, largest), 0, -1):
            for rest in partitions(n - first, first):
                yield [first] + rest

    for c in range(max(4, n_cases // 25)):
        ploidy = int(rng.choice([2, 3, 4, 5, 6, 8, 10, 12]))
        n_pos = int(rng.choice([20, 24, 27, 30, 34, 40, 64, 100, 200, 300]))
        n_alleles = rng.choice([2, 2, 2, 3, 4], size=n_pos)
        U = math.prod(int(a) for a in n_alleles)
        log_u = float(np.log(n_alleles.astype(np.int64)).sum())
        F = float(rng.choice([0.0, 0.05, 0.1, 0.5, 0.9, 0.999])) if rng.random() < 0.8 else float(rng.uniform(0.001, 0.99))
        terms = []
        for lam in partitions(ploidy):
            dosage = np.zeros(ploidy, dtype=np.int8)
            dosage[: len(lam)] = lam
            if rng.random() < 0.5:
                dosage = dosage[rng.permutation(ploidy)]   # get_haplotype_dosage leaves the counts at first-occurrence rows
            got = float(K["asm_prior"](dosage, log_u, F))
            g = [(i,) for i, c_ in enumerate(lam) for _ in range(c_)]
            want = M.assemble_log_prior(g, U, F)
            col.count("assemble_long_locus_patterns")
            if max(lam) >= 3:
                col.count("assemble_long_locus_patterns_with_three_copies")
            col.case("AL%d|%d|%r|%s" % (n_pos, U % 1000003, F, lam), nontrivial=ploidy >= 2)
            if abs(got - want) > 1e-9 * max(1, abs(want)):
                col.violation("assemble-prior-differs-from-dirichlet-multinomial-on-long-locus", "assemble prior %.12g, Dirichlet-multinomial with flat frequencies over the %d-digit number of possible haplotypes %.12g; copy numbers %s, ploidy %d, %d SNVs, F=%g"
                              % (got, len(str(U)), want, lam, ploidy, n_pos, F), {"kind": "assemble_long", "lam": lam, "n_alleles": n_alleles.tolist(), "F": F})
            mult = {}
            for v in lam:
                mult[v] = mult.get(v, 0) + 1
            log_count = sum(math.log(U - i) for i in range(len(lam))) - sum(math.lgamma(m + 1) for m in mult.values())
            terms.append(log_count + got)
        mx = max(terms)
        tot = mx + math.log(math.fsum(math.exp(t - mx) for t in terms))
        col.count("assemble_long_locus_sum_cells")
        if abs(tot) > 1e-8:
            col.violation("prior-does-not-sum-to-one", "assemble prior on a long locus (%d SNVs, ploidy %d, F %g): log of the total mass over all copy-number patterns is %.12g, not 0" % (n_pos, ploidy, F, tot),
                          {"kind": "assemble_long_sum", "n_alleles": n_alleles.tolist(), "ploidy": ploidy, "F": F})
    # assemble prior sums to one over all multisets of haplotypes for small loci
    for n_alleles in ([2], [3], [2, 2], [2, 3], [2, 2, 2]):
        allh = gen.all_haplotypes(n_alleles)
        u = len(allh)
        for ploidy in (1, 2, 3, 4, 9, 12):
            if math.comb(u + ploidy - 1, ploidy) > 3000:
                continue
            for F in (0.0, 0.1, 0.9):
                tot = []
                for ms in itertools.combinations_with_replacement(range(u), ploidy):
                    g = np.array([allh[i] for i in ms], dtype=np.int8).reshape(ploidy, len(n_alleles))
                    dosage = np.zeros(ploidy, dtype=np.int8)
                    K["get_dosage"](dosage, g)
                    tot.append(math.exp(K["asm_prior"](dosage, float(np.log(np.array(n_alleles)).sum()), F)))
                    col.count("pmf_checked")
                s = math.fsum(tot)
                col.count("sum_to_one_cells")
                col.count("assemble_sum_cells")
                if abs(s - 1) > TOL:
                    col.violation("prior-does-not-sum-to-one", "assemble prior sums to %.12g (n_alleles %s ploidy %d F %g)" % (s, n_alleles, ploidy, F),
                                  {"kind": "assemble_sum", "n_alleles": n_alleles, "ploidy": ploidy, "F": F})


def kernels():
    from mchap.assemble.prior import log_genotype_prior as asm_prior
    from mchap.calling.prior import log_genotype_allele_prior, log_genotype_prior
    from mchap.jitutils import get_haplotype_dosage

    return {"call_prior": log_genotype_prior, "allele_prior": log_genotype_allele_prior, "asm_prior": asm_prior,
            "get_dosage": get_haplotype_dosage}



def run_prog(tier, seed, spec, col):
    """The prior the PROGRAM uses: call-exact on samples WITHOUT a single read prints GP = the genotype prior of that sample.
    Samples of equal ploidy get different inbreeding coefficients from a per-sample file, records carry prior frequencies with
    zeros and masked references; every printed GP vector must be the (Dirichlet-)multinomial of that sample's own ploidy,
    inbreeding coefficient and the record's (normalised, masked) frequencies, in VCF genotype order."""
    import os
    import shutil

    from vlib import cli, datasets, env, hapvcf, vcfparse

    for dI in range(spec["datasets"]):
        rng = gen.rng_for(seed, ID, 2000 + spec["shard"], dI)
        root = env.workdir("c05-prog-%d-%d" % (spec["shard"], dI))
        shutil.rmtree(root, ignore_errors=True)
        n_s = int(rng.integers(2, 5))
        ds = datasets.make_dataset(rng, root, n_samples=n_s, n_loci=int(rng.integers(2, 5)), ploidy=[2, 4] if rng.random() < 0.7 else [3, 6], depth=(0, 0),
                                   contig_len=600, snv_range=(1, 4))
        # equal ploidies on purpose in half of the datasets
        if rng.random() < 0.5:
            for s_ in ds.samples:
                ds.ploidy[s_] = ds.ploidy[ds.samples[0]]
        Fs = {s_: float(v) for s_, v in zip(ds.samples, rng.choice([0.0, 0.05, 0.2, 0.5, 0.8], size=n_s))}
        if len(set(Fs.values())) == 1:
            Fs[ds.samples[-1]] = 0.35
        pf, ff = os.path.join(root, "ploidy.txt"), os.path.join(root, "inbreeding.txt")
        with open(pf, "w") as fh:
            for s_ in ds.samples:
                fh.write("%s\t%d\n" % (s_, ds.ploidy[s_]))
        with open(ff, "w") as fh:
            for s_ in ds.samples:
                fh.write("%s\t%r\n" % (s_, Fs[s_]))
        recs = []
        for L in ds.loci:
            ref = ds.contigs[L["contig"]][L["start"]:L["stop"]]
            alts = []
            for _ in range(12):
                hap = tuple(([v["ref"]] + v["alts"])[int(rng.integers(0, 1 + len(v["alts"])))] for v in L["snvs"])
                sq = datasets.hap_sequence(ds.contigs, L, hap, L["start"], L["stop"])
                if sq != ref and sq not in alts:
                    alts.append(sq)
            alts = alts[: int(rng.integers(1, 5))]
            w = np.round(rng.dirichlet(np.ones(1 + len(alts))), 3)
            if len(alts) >= 2 and rng.random() < 0.3:
                w[int(rng.integers(1, len(w)))] = 0.0
            if w.sum() <= 0:
                w[0] = 1.0
            info = {"AFP": ",".join(repr(float(x)) for x in w)}
            masked = bool(alts and rng.random() < 0.25)
            if masked:
                info["REFMASKED"] = True
            recs.append({"contig": L["contig"], "pos0": L["start"], "id": L["name"], "ref": ref, "alts": alts, "info": info, "w": w, "masked": masked})
        hv = hapvcf.write(os.path.join(root, "haps.vcf"), hapvcf.render(ds.contigs, recs, info_defs=[
            {"ID": "AFP", "Number": "R", "Type": "Float"}, {"ID": "REFMASKED", "Number": "0", "Type": "Flag"}]))
        use_prior = bool(rng.random() < 0.6)
        args = ["call-exact", "--haplotypes", hv, "--reference", ds.fasta, "--bam"] + ds.bams + ["--ploidy", pf, "--inbreeding", ff, "--report", "GP"]
        if use_prior:
            args += ["--prior-frequencies", "AFP"]
        out, exc = cli.run_inproc(args)
        case = {"kind": "prog", "seed": seed, "shard": spec["shard"], "dataset": dI, "inbreeding": Fs, "ploidy": {s_: int(ds.ploidy[s_]) for s_ in ds.samples}, "prior_frequencies": use_prior}
        col.case("PROG|%d|%d" % (spec["shard"], dI), nontrivial=True)
        if exc is not None:
            col.violation("program-fails-on-valid-input", "call-exact on read-less samples raised %r" % (exc,), case)
            shutil.rmtree(root, ignore_errors=True)
            continue
        col.count("prog_datasets")
        if len({(ds.ploidy[a], Fs[a]) for a in ds.samples}) > len({ds.ploidy[a] for a in ds.samples}):
            col.count("prog_datasets_equal_ploidy_unequal_inbreeding")
        h, orecs = vcfparse.parse(out)
        by_pos = {(r["contig"], r["pos0"] + 1): r for r in recs}
        for r in orecs:
            src = by_pos[(r.chrom, r.pos)]
            n = 1 + len(src["alts"])
            f = np.array(src["w"], dtype=float) if use_prior else np.full(n, 1.0 / n)
            if src["masked"]:
                f[0] = 0.0
            if f.sum() <= 0:
                col.count("prog_records_without_usable_allele")
                continue
            f = f / f.sum()
            for s_ in h.samples:
                gp = r.sample_list(s_, "GP")
                pl = int(ds.ploidy[s_])
                gs = M.genotypes_vcf_order(n, pl)
                if gp is None or None in gp or len(gp) != len(gs):
                    col.violation("program-prior-wrong", "call-exact %s:%d sample %s: GP has %s entries for %d genotypes" % (r.chrom, r.pos, s_, None if gp is None else len(gp), len(gs)), case)
                    continue
                want = [0.0 if (lp := M.log_prior(g, n, Fs[s_], f)) == -math.inf else math.exp(lp) for g in gs]
                col.count("prog_gp_vectors_checked")
                err = max(abs(a - b) for a, b in zip(gp, want))
                col.maxv("max_prog_prior_error", err)
                if err > 0.0011:
                    k = int(np.argmax([abs(a - b) for a, b in zip(gp, want)]))
                    col.violation("program-prior-wrong", "call-exact %s:%d sample %s (ploidy %d, inbreeding %g, no reads): GP[%d] (genotype %s) = %g, the prior of that sample is %.6g (frequencies %s)"
                                  % (r.chrom, r.pos, s_, pl, Fs[s_], k, gs[k], gp[k], want[k], np.round(f, 4).tolist()), case)
        shutil.rmtree(root, ignore_errors=True)

def run_shard(tier, seed, spec, col):
    if spec.get("kind") == "prog":
        return run_prog(tier, seed, spec, col)
    K = kernels()
    for ploidy, na, n in spec["cells"]:
        rng = gen.rng_for(seed, ID, ploidy * 100 + na, 0)
        run_cell(ploidy, na, rng, col, K, spec["name"], tier)
    rng = gen.rng_for(seed, ID, 1000 + spec["shard"], 0)
    run_assemble(rng, col, K, 200 if tier == "quick" else 2000) if spec["shard"] < 16 else None


def replay(obj, col):
    K = kernels()
    c = obj["case"]
    k = c["kind"]
    if k in ("cell", "genotype", "conditional"):
        rng = gen.rng_for(obj.get("seed", 0), ID, c["ploidy"] * 100 + c["n_alleles"], 0)
        f = None if c["freq"] is None else np.array(c["freq"], dtype=float)
        ploidy, na, F = c["ploidy"], c["n_alleles"], c["F"]
        gs = M.genotypes_vcf_order(na, ploidy)
        lps = [float(K["call_prior"](np.array(g, dtype=np.int64), na, F, f)) for g in gs]
        tot = math.fsum(math.exp(x) for x in lps if x != -math.inf)
        if abs(tot - 1) > TOL:
            col.violation("prior-does-not-sum-to-one", "sum %.12g" % tot, c)
        for g, lp in zip(gs, lps):
            want = M.log_prior(g, na, F, f)
            if (math.isinf(want) or math.isinf(lp)) and lp != want or (not math.isinf(want) and abs(lp - want) > 1e-8 * max(1, abs(want))):
                col.violation(obj["mechanism"], "prior of %s = %r want %r" % (g, lp, want), c)
                break
        if k == "conditional":
            rest = tuple(c["rest"])
            lookup = dict(zip(gs, lps))
            w = []
            for b in range(na):
                gb = tuple(sorted(rest + (b,)))
                w.append(0.0 if lookup[gb] == -math.inf else math.exp(lookup[gb]) * gb.count(b))
            z = math.fsum(w)
            b = c["allele"]
            geno = np.array(rest + (b,), dtype=np.int64)
            got = math.exp(K["allele_prior"](geno, ploidy - 1, na, F, f))
            if abs(got - w[b] / z) > TOL:
                col.violation("allele-conditional-not-exact", "conditional %.12g want %.12g" % (got, w[b] / z), c)
    else:
        run_assemble(gen.rng_for(obj.get("seed", 0), ID, 1000, 0), col, K, 50)
