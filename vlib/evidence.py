"""evidence/<id>.json writer (keys per /root/.vp/EVIDENCE.schema.json)."""

import json
import os

from vlib import env


def write(mod, pid, tier, seed, col, wall, verdict, n_new, tree, shard_walls, incon, mechanisms):
    cov = {
        "evaluations": int(col.evaluations),
        "distinct_nontrivial": int(len(col.hashes)),
        "rule": getattr(mod, "RULE", ""),
        "samples": col.samples[:5] if col.samples else [],
        "monitors": dict(sorted(col.counters.items())),
        "maxima": dict(sorted(col.maxima.items())),
        "distinct_observed": {k: len(v) for k, v in sorted(col.sets.items())},
        "distinct_observed_examples": {k: sorted(v)[:8] for k, v in sorted(col.sets.items())},
        "tree_hash": tree,
        "shard_wall_s": shard_walls,
        "verdict": verdict,
        "inconclusive_reasons": incon[:10],
        "violation_mechanisms_seen": mechanisms,
    }
    if hasattr(mod, "coverage_extra"):
        cov.update(mod.coverage_extra(tier, col))
    ev = {
        "property_id": pid,
        "tier": tier,
        "seed": int(seed),
        "level": getattr(mod, "LEVEL", "exploration"),
        "coverage": cov,
        "assumptions": list(getattr(mod, "ASSUMPTIONS", [])),
        "wall_s": round(float(wall), 2),
        "violations": int(n_new),
    }
    d = os.path.join(env.OUT, "evidence")
    os.makedirs(d, exist_ok=True)
    p = os.path.join(d, "%s.json" % pid)
    tmp = p + ".tmp"
    with open(tmp, "w") as fh:
        json.dump(ev, fh, indent=1, sort_keys=True)
    os.replace(tmp, p)
    return p
