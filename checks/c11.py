"""C11 - genotype <-> G-field index mapping is the VCF order and a bijection; exact coefficients.

Monitor: return values of the compiled jitutils kernels and of
combinatorics.count_unique_genotypes / calling.utils.posterior_as_array.
Oracle: math.comb and an explicit enumeration sorted as the VCF spec prescribes.
"""

import itertools
import math

import numpy as np

from vlib import gen

ID = "C11"
TECHNIQUE = "runtime monitoring: compiled index/enumerator/coefficient kernels observed exhaustively on small spaces and sampled on large ones; math.comb + explicit VCF-order enumeration oracle"
LEVEL = "exploration"
LEVEL_TEXT = (
    "Exploration with an exhaustive core: for every (ploidy<=8, alleles<=12) space with <=60k genotypes the real "
    "index function, its inverse and the enumerator are observed on every genotype (bijection onto 0..N-1, VCF order, "
    "walk order); coefficients are compared with math.comb on the full (n<=130,k<=14) rectangle spanning the table "
    "boundary and on sampled large arguments with N<2^53, including count_unique_genotypes. Beyond the grid the "
    "claim is sampled, not complete."
)
LEVEL_TEXT += ' Session 3: ploidies 21-320 (pooled samples): coefficient strips with k up to 320, every genotype of 81 small high-ploidy spaces, and sampled spaces biased to the edge of the 2^53 domain; a kernel that raises on a valid genotype / index is a violation.'
LEVEL_TEXT += ' Session 4: posterior_as_array on spaces of 40 000 - 3 000 000 genotypes with every integer type the samplers store (int8, int16, int32, int64), sparse probabilities placed by a math.comb oracle.'
LEVEL_NOTE = "Trusts math.comb, itertools and the reversed-tuple sort as the VCF G-order; ploidy bounded at 20 for sampled large spaces; (n,k)=(0,0) excluded (disputed corner documented by a pre-existing failing repository test)."
RULE = (
    "exhaustive enumeration of all genotypes of every (ploidy<=8, n_alleles<=12) space with N<=60000 (quick: N<=8000) "
    "plus sampled (ploidy<=20, n_alleles<=9.5e7, N<2^53) round trips; a case = one genotype/index or one coefficient; "
    "non-trivial = ploidy>=2 and n_alleles>=2 (or k>=1 for coefficients); distinct by (ploidy, genotype) / (n,k)"
)
ASSUMPTIONS = ["VCF order = combinations_with_replacement sorted by reversed tuple", "math.comb is exact"]


def grid(tier):
    lim = 8000 if tier == "quick" else 60000
    cells = []
    for ploidy in range(1, 9):
        for na in range(1, 13):
            n = math.comb(na + ploidy - 1, ploidy)
            if n <= lim:
                cells.append((ploidy, na, n))
    return cells


def plan(tier, seed):
    cells = grid(tier)
    # balance cells over shards by size
    cells.sort(key=lambda c: -c[2])
    n = 12
    shards = [[] for _ in range(n)]
    loads = [0] * n
    for c in cells:
        i = loads.index(min(loads))
        shards[i].append(c)
        loads[i] += c[2]
    specs = [{"name": "grid%02d" % i, "kind": "grid", "cells": s, "timeout": 3000} for i, s in enumerate(shards)]
    specs.append({"name": "coef", "kind": "coef", "timeout": 3000})
    specs.append({"name": "large0", "kind": "large", "shard": 0, "cases": 3000 if tier == "quick" else 300000, "timeout": 5000})
    specs.append({"name": "large1", "kind": "large", "shard": 1, "cases": 3000 if tier == "quick" else 300000, "timeout": 5000})
    specs.append({"name": "count", "kind": "count", "timeout": 3000})
    for i in range(4):
        specs.append({"name": "high%d" % i, "kind": "high", "shard": i, "cases": 4000 if tier == "quick" else 200000, "timeout": 5000})
    for i in range(2):
        specs.append({"name": "gfields%d" % i, "kind": "gfields", "shard": i, "cases": 1500 if tier == "quick" else 100000, "timeout": 5000})
    for i in range(2):
        specs.append({"name": "paaw%d" % i, "kind": "paaw", "shard": i, "cases": 60 if tier == "quick" else 1500, "timeout": 5000})
    if tier == "thorough":
        specs.append({"name": "gridbc", "kind": "grid", "cells": [c for c in cells if c[2] <= 3000], "timeout": 3000,
                      "mode": {"boundscheck": True}})
    return specs


def required(tier):
    return {"index_checked": 20000, "inverse_checked": 20000, "walk_steps": 20000, "coef_checked": 3000,
            "coef_beyond_table": 500, "large_roundtrips": 2000, "count_unique_checked": 1000, "spaces_exhausted": 60,
            "high_ploidy_spaces_exhausted": 40, "high_ploidy_coef_checked": 3000, "high_ploidy_roundtrips": 8000, "gfields_posterior_arrays_checked": 2000, "gfields_arrays_with_some_impossible_genotypes": 800, "gfields_likelihood_arrays_checked": 500,
            "posterior_as_array_wide_checked": 80, "posterior_as_array_wide_index_ge_2^15": 60, "posterior_as_array_wide_int16": 15}


def coverage_extra(tier, col):
    return {"exhaustive": True, "exhaustive_note": "grid part only: every genotype of every listed (ploidy, n_alleles) space"}


def vcf_order(na, ploidy):
    gs = list(itertools.combinations_with_replacement(range(na), ploidy))
    gs.sort(key=lambda g: tuple(reversed(g)))
    return gs


def run_grid(spec, col):
    from mchap import jitutils as J
    from mchap.calling.utils import posterior_as_array

    for ploidy, na, n in spec["cells"]:
        gs = vcf_order(na, ploidy)
        assert len(gs) == n == math.comb(na + ploidy - 1, ploidy)
        col.count("spaces_exhausted")
        seen = set()
        walker = np.zeros(ploidy, dtype=np.int64)
        arr = np.array(gs, dtype=np.int64).reshape(n, ploidy)
        for i, g in enumerate(gs):
            col.case("g%d:%s" % (ploidy, ",".join(map(str, g))), nontrivial=(ploidy >= 2 and na >= 2))
            idx = int(J.genotype_alleles_as_index(arr[i]))
            col.count("index_checked")
            if idx != i:
                col.violation("index-not-vcf-order", "genotype %s (ploidy %d) index %d want %d" % (g, ploidy, idx, i),
                              {"kind": "index", "genotype": list(g)})
            seen.add(idx)
            inv = J.index_as_genotype_alleles(i, ploidy)
            col.count("inverse_checked")
            if inv is None or tuple(int(x) for x in inv) != g:
                col.violation("inverse-index-wrong", "index %d ploidy %d gave %s want %s" % (i, ploidy, None if inv is None else inv.tolist(), g),
                              {"kind": "inverse", "index": i, "ploidy": ploidy})
            col.count("walk_steps")
            if tuple(int(x) for x in walker) != g:
                col.violation("enumerator-order-wrong", "increment_genotype walk at step %d ploidy %d: %s want %s" % (i, ploidy, walker.tolist(), g),
                              {"kind": "walk", "ploidy": ploidy, "n_alleles": na, "step": i})
                walker[:] = g
            J.increment_genotype(walker)
        if seen != set(range(n)):
            col.violation("index-not-bijection", "ploidy %d alleles %d: image is not 0..N-1" % (ploidy, na),
                          {"kind": "bijection", "ploidy": ploidy, "n_alleles": na})
        # int8 / int32 dtypes as used by callers
        for dt in (np.int8, np.int32):
            k = min(n, 50)
            sel = np.linspace(0, n - 1, k).astype(int)
            for i in sel:
                idx = int(J.genotype_alleles_as_index(arr[i].astype(dt)))
                col.count("index_checked_small_dtype")
                if idx != i:
                    col.violation("index-not-vcf-order", "dtype %s genotype %s index %d want %d" % (dt.__name__, gs[i], idx, i),
                                  {"kind": "index", "genotype": list(gs[i]), "dtype": dt.__name__})
        # posterior_as_array places probabilities at the VCF index
        if n <= 3000:
            k = min(n, 40)
            sel = np.unique(np.linspace(0, n - 1, k).astype(int))
            probs = np.arange(1, len(sel) + 1, dtype=float)
            out = posterior_as_array(arr[sel], probs, n)
            want = np.zeros(n)
            want[sel] = probs
            col.count("posterior_as_array_checked")
            if not np.array_equal(out, want):
                col.violation("posterior-array-misplaced", "posterior_as_array misplaces probabilities ploidy %d alleles %d" % (ploidy, na),
                              {"kind": "paa", "ploidy": ploidy, "n_alleles": na})
        if spec["name"] == "grid00" and ploidy == 2 and na <= 4:
            col.sample({"ploidy": ploidy, "n_alleles": na, "vcf_order": [list(g) for g in gs]})


def run_coef(spec, col):
    from mchap import jitutils as J

    for n in range(0, 131):
        for k in range(0, 15):
            want = math.comb(n, k)
            if want >= 2**53:
                col.count("coef_skipped_ge_2^53")
                continue
            for name, f in (("comb", J.comb), ("_comb", J._comb)):
                got = int(f(n, k))
                col.count("coef_checked")
                col.case("c%s:%d,%d" % (name, n, k), nontrivial=k >= 1)
                if n >= 100 or k >= 12:
                    col.count("coef_beyond_table")
                if got != want:
                    col.violation("binomial-inexact", "%s(%d,%d)=%d want %d" % (name, n, k, got, want), {"kind": "comb", "f": name, "n": n, "k": k})
            if n == 0 and k == 0:
                continue  # disputed corner
            wantr = math.comb(n + k - 1, k) if (n + k - 1) >= 0 else 0
            if wantr >= 2**53:
                col.count("coef_skipped_ge_2^53")
                continue
            for name, f in (("comb_with_replacement", J.comb_with_replacement), ("_comb_with_replacement", J._comb_with_replacement)):
                got = int(f(n, k))
                col.count("coef_checked")
                col.case("c%s:%d,%d" % (name, n, k), nontrivial=k >= 1)
                if got != wantr:
                    col.violation("multiset-coefficient-inexact", "%s(%d,%d)=%d want %d" % (name, n, k, got, wantr), {"kind": "comb", "f": name, "n": n, "k": k})
    col.sample({"coefficient_rectangle": "n in 0..130, k in 0..14", "functions": ["comb", "_comb", "comb_with_replacement", "_comb_with_replacement"]})


def big_space(rng):
    """(n_alleles, ploidy) with 2^20 < N < 2^53."""
    while True:
        ploidy = int(rng.integers(2, 21))
        lo, hi = 2, 95_000_000
        # largest na with N < 2^53
        while lo < hi:
            mid = (lo + hi + 1) // 2
            if math.comb(mid + ploidy - 1, ploidy) < 2**53:
                lo = mid
            else:
                hi = mid - 1
        na_max = lo
        if na_max < 3:
            continue
        if rng.random() < 0.4:
            na = int(na_max - rng.integers(0, min(50, na_max - 2)))
        else:
            na = int(np.exp(rng.uniform(np.log(3), np.log(na_max))))
        na = max(2, min(na, na_max))
        n = math.comb(na + ploidy - 1, ploidy)
        if n < 2**53:
            return na, ploidy, n


def unrank(i, ploidy):
    """Oracle inverse: combinatorial number system with math.comb."""
    out = [0] * ploidy
    rem = i
    for pos in range(ploidy, 0, -1):
        # largest a with C(a+pos-1, pos) <= rem
        lo, hi = 0, 1
        while math.comb(hi + pos - 1, pos) <= rem:
            hi *= 2
        while lo < hi:
            mid = (lo + hi + 1) // 2
            if math.comb(mid + pos - 1, pos) <= rem:
                lo = mid
            else:
                hi = mid - 1
        out[pos - 1] = lo
        rem -= math.comb(lo + pos - 1, pos)
    return out


def run_large(spec, col):
    from mchap import jitutils as J

    for c in range(spec["cases"]):
        rng = gen.rng_for(int(spec.get("seed", 0)), ID, spec["shard"], c)
        na, ploidy, n = big_space(rng)
        kind = rng.choice(["first", "last", "rand", "rand", "rand"])
        if kind == "first":
            i = min(n - 1, int(rng.integers(0, 10)))
        elif kind == "last":
            i = max(0, n - 1 - int(rng.integers(0, 10)))
        else:
            i = int(rng.integers(0, n))
        g = unrank(i, ploidy)
        col.case("L%d:%d:%d" % (ploidy, na, i), nontrivial=True)
        col.count("large_roundtrips")
        col.maxv("max_log2_N", math.log2(n))
        idx = int(J.genotype_alleles_as_index(np.array(g, dtype=np.int64)))
        if idx != i:
            col.violation("index-not-vcf-order", "large: genotype %s index %d want %d (alleles %d)" % (g, idx, i, na),
                          {"kind": "index", "genotype": g})
        if i < 2**40:
            # inverse walks alleles linearly: only feasible where the top allele is moderate
            if max(g) < 200000:
                try:
                    inv = J.index_as_genotype_alleles(i, ploidy)
                except Exception:  # noqa: BLE001 - raising on a valid index is a violation
                    inv = None
                col.count("large_inverse")
                if inv is None or [int(x) for x in inv] != g:
                    col.violation("inverse-index-wrong", "large: index %d ploidy %d gave %s want %s" % (i, ploidy, None if inv is None else list(inv), g),
                                  {"kind": "inverse", "index": i, "ploidy": ploidy})
        got = int(J.comb_with_replacement(na, ploidy))
        col.count("coef_checked")
        col.count("coef_beyond_table")
        if got != n:
            col.violation("multiset-coefficient-inexact", "comb_with_replacement(%d,%d)=%d want %d" % (na, ploidy, got, n),
                          {"kind": "comb", "f": "comb_with_replacement", "n": na, "k": ploidy})
        # enumerator step at a random genotype == successor in VCF order
        if i + 1 < n:
            w = np.array(g, dtype=np.int64)
            J.increment_genotype(w)
            nxt = unrank(i + 1, ploidy)
            col.count("walk_steps")
            if w.tolist() != nxt:
                col.violation("enumerator-order-wrong", "large: successor of %s is %s want %s" % (g, w.tolist(), nxt),
                              {"kind": "succ", "genotype": g})
        if c < 2:
            col.sample({"n_alleles": na, "ploidy": ploidy, "N": n, "index": i, "genotype": g})


def run_count(spec, col):
    from mchap.combinatorics import count_unique_genotypes

    rng = gen.rng_for(0, ID, 99, 0)
    cases = []
    for ploidy in range(1, 21):
        for na in list(range(1, 40)) + [50, 99, 100, 101, 1000, 4096, 10**5, 10**6]:
            cases.append((na, ploidy))
    for _ in range(1500):
        na, ploidy, n = big_space(rng)
        cases.append((na, ploidy))
    for na, ploidy in cases:
        n = math.comb(na + ploidy - 1, ploidy)
        if n >= 2**53:
            continue
        got = count_unique_genotypes(na, ploidy)
        col.count("count_unique_checked")
        col.case("U%d:%d" % (na, ploidy), nontrivial=True)
        if n >= 2**44:
            col.count("count_unique_large")
        if int(got) != n:
            col.violation("count-unique-genotypes-inexact", "count_unique_genotypes(%d,%d)=%r want %d" % (na, ploidy, got, n),
                          {"kind": "count", "n_alleles": na, "ploidy": ploidy})


HIGH_PLOIDIES = [21, 24, 27, 28, 29, 32, 40, 48, 56, 59, 60, 61, 62, 63, 64, 65, 66, 67, 72, 96, 100, 127, 128, 129, 160, 200, 255, 256, 257, 300]


def high_cells(tier):
    """(ploidy > 20, n_alleles) spaces small enough to exhaust: pooled samples have ploidies of this size with few alleles."""
    lim = 3000 if tier == "quick" else 40000
    out = []
    for ploidy in HIGH_PLOIDIES:
        for na in range(1, 7):
            n = math.comb(na + ploidy - 1, ploidy)
            if n <= lim:
                out.append((ploidy, na, n))
    return out


def big_space_high(rng):
    """(n_alleles, ploidy > 20) with N < 2^53."""
    while True:
        ploidy = int(rng.choice(HIGH_PLOIDIES)) if rng.random() < 0.7 else int(rng.integers(21, 321))
        na_max = 2
        while math.comb(na_max + ploidy, ploidy) < 2**53:
            na_max += 1
        # half of the spaces sit at the edge of the 2^53 domain (largest allele numbers the ploidy admits), where probes of the
        # decoder that overshoot the true allele leave the int64 range first
        na = int(rng.integers(max(2, na_max - 8), na_max + 1)) if rng.random() < 0.5 else int(rng.integers(2, na_max + 1))
        n = math.comb(na + ploidy - 1, ploidy)
        if n < 2**53:
            return na, ploidy, n


def run_high(spec, col, tier):
    """Ploidy 21-320 (the property quantifies over ALL ploidies with N < 2^53; a pool of 32 tetraploids has ploidy 128)."""
    from mchap import jitutils as J
    from mchap.combinatorics import count_unique_genotypes

    sh = spec["shard"]
    # coefficients: k up to 320 with n - k small enough that the value stays below 2^53
    ks = [k for i, k in enumerate(list(range(15, 70)) + HIGH_PLOIDIES[15:] + [320]) if i % 4 == sh]
    for k in ks:
        for m in range(0, 40):
            n = k + m
            want = math.comb(n, k)
            if want >= 2**53:
                break
            for name, f in (("comb", J.comb), ("_comb", J._comb)):
                got = int(f(n, k))
                col.count("high_ploidy_coef_checked")
                col.case("c%s:%d,%d" % (name, n, k), nontrivial=True)
                if got != want:
                    col.violation("coefficient-inexact-at-high-ploidy", "%s(%d,%d)=%d want %d" % (name, n, k, got, want), {"kind": "comb", "f": name, "n": n, "k": k})
            na = m + 1
            for name, f in (("comb_with_replacement", J.comb_with_replacement), ("_comb_with_replacement", J._comb_with_replacement)):
                got = int(f(na, k))
                col.count("high_ploidy_coef_checked")
                col.case("c%s:%d,%d" % (name, na, k), nontrivial=True)
                if got != want:
                    col.violation("coefficient-inexact-at-high-ploidy", "%s(%d,%d)=%d want %d" % (name, na, k, got, want), {"kind": "comb", "f": name, "n": na, "k": k})
            got = count_unique_genotypes(na, k)
            col.count("count_unique_checked")
            if int(got) != want:
                col.violation("count-unique-genotypes-inexact", "count_unique_genotypes(%d,%d)=%r want %d" % (na, k, got, want), {"kind": "count", "n_alleles": na, "ploidy": k})
    # exhaustive small spaces of high ploidy: bijection, order, inverse, enumerator
    for ci, (ploidy, na, n) in enumerate(high_cells(tier)):
        if ci % 4 != sh:
            continue
        gs = vcf_order(na, ploidy)
        col.count("high_ploidy_spaces_exhausted")
        walker = np.zeros(ploidy, dtype=np.int64)
        arr = np.array(gs, dtype=np.int64).reshape(n, ploidy)
        seen = set()
        nb = 0
        for i, g in enumerate(gs):
            col.case("g%d:%d:%d" % (ploidy, na, i), nontrivial=na >= 2)
            idx = int(J.genotype_alleles_as_index(arr[i]))
            col.count("index_checked")
            seen.add(idx)
            if idx != i and nb < 3:
                nb += 1
                col.violation("index-wrong-at-high-ploidy", "ploidy %d alleles %d: genotype #%d (allele counts %s) has index %d" % (ploidy, na, i, [g.count(a) for a in range(na)], idx),
                              {"kind": "index", "genotype": list(g)})
            inv = J.index_as_genotype_alleles(i, ploidy)
            col.count("inverse_checked")
            if (inv is None or tuple(int(x) for x in inv) != g) and nb < 3:
                nb += 1
                col.violation("index-wrong-at-high-ploidy", "ploidy %d alleles %d: index %d decodes to allele counts %s want %s"
                              % (ploidy, na, i, None if inv is None else [inv.tolist().count(a) for a in range(na)], [g.count(a) for a in range(na)]),
                              {"kind": "inverse", "index": i, "ploidy": ploidy})
            col.count("walk_steps")
            if tuple(int(x) for x in walker) != g:
                if nb < 3:
                    nb += 1
                    col.violation("enumerator-order-wrong", "increment_genotype walk at step %d ploidy %d alleles %d" % (i, ploidy, na), {"kind": "walk", "ploidy": ploidy, "n_alleles": na, "step": i})
                walker[:] = g
            J.increment_genotype(walker)
        if seen != set(range(n)):
            col.violation("index-wrong-at-high-ploidy", "ploidy %d alleles %d: image of the index function is not 0..N-1 (%d distinct values for %d genotypes)" % (ploidy, na, len(seen), n),
                          {"kind": "bijection", "ploidy": ploidy, "n_alleles": na})
    # sampled large spaces of high ploidy
    for c in range(spec["cases"]):
        rng = gen.rng_for(int(spec.get("seed", 0)), ID, 50 + sh, c)
        na, ploidy, n = big_space_high(rng)
        kind = rng.choice(["first", "last", "rand", "rand"])
        i = min(n - 1, int(rng.integers(0, 10))) if kind == "first" else max(0, n - 1 - int(rng.integers(0, 10))) if kind == "last" else int(rng.integers(0, n))
        g = unrank(i, ploidy)
        col.case("H%d:%d:%d" % (ploidy, na, i), nontrivial=True)
        col.count("high_ploidy_roundtrips")
        try:
            idx = int(J.genotype_alleles_as_index(np.array(g, dtype=np.int64)))
        except Exception as ex:  # noqa: BLE001 - a kernel that raises on a valid genotype is a violation, not a harness failure
            idx = repr(ex)
        if idx != i:
            col.violation("index-wrong-at-high-ploidy", "ploidy %d alleles %d: genotype with allele counts %s has index %s want %d" % (ploidy, na, [g.count(a) for a in range(na)], idx, i),
                          {"kind": "index", "genotype": g})
        try:
            inv = J.index_as_genotype_alleles(i, ploidy)
            inv = None if inv is None else [int(x) for x in inv]
        except Exception as ex:  # noqa: BLE001
            inv = repr(ex)
        if inv != g:
            col.violation("index-wrong-at-high-ploidy", "ploidy %d alleles %d: index %d decodes to %s" % (ploidy, na, i, "a wrong genotype" if isinstance(inv, list) else inv), {"kind": "inverse", "index": i, "ploidy": ploidy})
        if i + 1 < n:
            w = np.array(g, dtype=np.int64)
            J.increment_genotype(w)
            col.count("walk_steps")
            if w.tolist() != unrank(i + 1, ploidy):
                col.violation("enumerator-order-wrong", "ploidy %d: successor of genotype #%d wrong" % (ploidy, i), {"kind": "succ", "genotype": g})
        if c < 1 and sh == 0:
            col.sample({"n_alleles": na, "ploidy": ploidy, "N": n, "index": i, "allele_counts": [g.count(a) for a in range(na)]})



def run_paa_wide(spec, col):
    """posterior_as_array on LARGE genotype spaces (40 000 - 3 000 000 genotypes: hexaploids over 15-25 haplotypes, tetraploids
    over 30-90, diploids over 300-2000) with the integer types the samplers store their traces in (int8 where the alleles fit,
    int16 = call-pedigree, int32 = call, int64): every probability must sit at the VCF index of its genotype (math.comb oracle)
    and every other position must be zero."""
    from mchap.calling.utils import posterior_as_array

    for c in range(spec["cases"]):
        rng = gen.rng_for(int(spec.get("seed", 0)), ID, 90 + spec["shard"], c)
        ploidy, na = [(6, int(rng.integers(15, 26))), (4, int(rng.integers(30, 91))), (2, int(rng.integers(300, 2001))), (8, int(rng.integers(8, 13))),
                      (3, int(rng.integers(60, 200)))][c % 5]
        n = math.comb(na + ploidy - 1, ploidy)
        if n > 3_000_000:
            continue
        k = int(rng.integers(1, 30))
        gset = set()
        while len(gset) < k:
            r_ = rng.random()
            if r_ < 0.4:
                g = tuple(sorted(int(a) for a in rng.integers(0, na, size=ploidy)))
            elif r_ < 0.7:
                g = tuple(sorted(int(a) for a in rng.integers(max(0, na - 3), na, size=ploidy)))   # the far end of the array
            else:
                g = tuple(sorted([na - 1] + [int(a) for a in rng.integers(0, na, size=ploidy - 1)]))
            gset.add(g)
        gl = sorted(gset)
        probs = rng.dirichlet(np.ones(len(gl)))
        want_idx = [sum(math.comb(a + i, i + 1) for i, a in enumerate(g)) for g in gl]
        dts = [np.int16, np.int32, np.int64] + ([np.int8] if na <= 127 else [])
        dt = dts[int(rng.integers(len(dts)))]
        col.case("PAAW|%d|%d" % (spec["shard"], c), nontrivial=True)
        try:
            out = np.asarray(posterior_as_array(np.array(gl, dtype=dt), probs.copy(), n), dtype=float)
        except Exception as ex:  # noqa: BLE001
            col.violation("posterior-array-misplaced", "posterior_as_array raised %r (ploidy %d, %d alleles, %s genotypes, %d genotypes)" % (ex, ploidy, na, dt.__name__, n),
                          {"kind": "paaw", "ploidy": ploidy, "n_alleles": na, "dtype": dt.__name__})
            continue
        col.count("posterior_as_array_wide_checked")
        col.count("posterior_as_array_wide_%s" % dt.__name__)
        if max(want_idx) >= 32768:
            col.count("posterior_as_array_wide_index_ge_2^15")
        want = np.zeros(n)
        want[want_idx] = probs
        if out.shape != (n,) or not np.array_equal(out, want):
            bad = int(np.nonzero(out != want)[0][0]) if out.shape == (n,) else -1
            col.violation("posterior-array-misplaced", "posterior_as_array(%s genotypes, ploidy %d, %d alleles, %d genotypes): position %d holds %r, expected %r; the genotypes %s belong at %s"
                          % (dt.__name__, ploidy, na, n, bad, float(out[bad]) if bad >= 0 else None, float(want[bad]) if bad >= 0 else None, [list(g) for g in gl[:3]], want_idx[:3]),
                          {"kind": "paaw", "ploidy": ploidy, "n_alleles": na, "dtype": dt.__name__})


def run_gfields(spec, col):
    """The producers of G-length arrays in the exact caller: position i of genotype_posteriors / genotype_likelihoods must
    belong to the i-th genotype of the VCF order, whatever the values are - including likelihoods of exactly -inf (hard 0/1
    reads) for some genotypes, zero prior frequencies and inbreeding."""
    from mchap.calling.exact import genotype_likelihoods, genotype_posteriors

    from vlib.oracles import model as M

    for c in range(spec["cases"]):
        rng = gen.rng_for(int(spec.get("seed", 0)), ID, 70 + spec["shard"], c)
        ploidy = int(rng.integers(1, 7))
        na = int(rng.integers(1, 7))
        gs = vcf_order(na, ploidy)
        n = len(gs)
        F = float(rng.choice([0.0, 0.0, 0.1, 0.5]))
        f = None if rng.random() < 0.4 else rng.dirichlet(np.ones(na))
        if f is not None and na >= 2 and rng.random() < 0.3:
            f[int(rng.integers(na))] = 0.0
            f = f / f.sum()
        llk = rng.normal(-20, 8, size=n)
        k_inf = int(rng.integers(0, n)) if rng.random() < 0.6 else 0
        llk[rng.permutation(n)[:k_inf]] = -math.inf
        lpr = [M.log_prior(g, na, F, f) for g in gs]
        tot = [a + b for a, b in zip(llk.tolist(), lpr)]
        top = max(tot)
        col.case("GF|%d|%d" % (spec["shard"], c), nontrivial=n > 1)
        if top == -math.inf:
            col.count("gfields_undefined_posterior_skipped")
            continue
        w = [0.0 if t == -math.inf else math.exp(t - top) for t in tot]
        z = math.fsum(w)
        want = np.array([x / z for x in w])
        try:
            got = np.asarray(genotype_posteriors(llk.copy(), ploidy, na, F, f), dtype=float)
        except Exception as ex:  # noqa: BLE001
            col.violation("g-field-position-wrong", "genotype_posteriors raised %r (ploidy %d alleles %d, %d likelihoods of -inf)" % (ex, ploidy, na, k_inf), {"kind": "gfield", "ploidy": ploidy, "n_alleles": na})
            continue
        col.count("gfields_posterior_arrays_checked")
        if k_inf and k_inf < n:
            col.count("gfields_arrays_with_some_impossible_genotypes")
        if got.shape != (n,) or not np.all(np.abs(got - want) <= 1e-9):
            i = int(np.argmax(np.abs(got - want))) if got.shape == (n,) else -1
            col.violation("g-field-position-wrong", "genotype_posteriors: position %d (genotype %s in VCF order) holds %.10g, likelihood x prior of that genotype normalised is %.10g (ploidy %d alleles %d F %g, %d of %d likelihoods are -inf)"
                          % (i, gs[i] if i >= 0 else None, got[i] if i >= 0 else float("nan"), want[i] if i >= 0 else float("nan"), ploidy, na, F, k_inf, n),
                          {"kind": "gfield", "ploidy": ploidy, "n_alleles": na})
        # likelihood array: one distinguishable haplotype per allele, a single read
        if na >= 2 and ploidy <= 4:
            haps = np.arange(na, dtype=np.int8).reshape(na, 1)
            reads = rng.dirichlet(np.ones(na), size=1).reshape(1, 1, na)
            if rng.random() < 0.5:
                reads[0, 0, int(rng.integers(na))] = 0.0   # an impossible base call: genotypes made only of that allele get -inf
                reads = reads / reads.sum()
            gl = np.asarray(genotype_likelihoods(reads, ploidy, haps), dtype=float)
            col.count("gfields_likelihood_arrays_checked")
            for i, g in enumerate(gs):
                p_ = sum(reads[0, 0, a] for a in g) / ploidy
                w_ = math.log(p_) if p_ > 0 else -math.inf
                if gl.shape != (n,) or not ((gl[i] == w_) if math.isinf(w_) or math.isinf(gl[i]) else abs(gl[i] - w_) <= 1e-5 * max(1.0, abs(w_))):
                    col.violation("g-field-position-wrong", "genotype_likelihoods: position %d (genotype %s) holds %r, the likelihood of that genotype is %r" % (i, g, float(gl[i]) if gl.shape == (n,) else None, w_),
                                  {"kind": "gfield", "ploidy": ploidy, "n_alleles": na})
                    break

def run_shard(tier, seed, spec, col):
    spec = dict(spec)
    spec["seed"] = seed
    if spec["kind"] == "gfields":
        return run_gfields(spec, col)
    if spec["kind"] == "paaw":
        return run_paa_wide(spec, col)
    if spec["kind"] == "high":
        return run_high(spec, col, tier)
    {"grid": run_grid, "coef": run_coef, "large": run_large, "count": run_count}[spec["kind"]](spec, col)


def replay(obj, col):
    from mchap import jitutils as J
    from mchap.combinatorics import count_unique_genotypes

    c = obj["case"]
    k = c["kind"]
    if k == "index":
        g = c["genotype"]
        want = sum(math.comb(a + i, i + 1) for i, a in enumerate(g))
        got = int(J.genotype_alleles_as_index(np.array(g, dtype=np.int64)))
        if got != want:
            col.violation(obj["mechanism"], "index %d want %d" % (got, want), c)
    elif k == "inverse":
        inv = J.index_as_genotype_alleles(c["index"], c["ploidy"])
        want = unrank(c["index"], c["ploidy"])
        if inv is None or [int(x) for x in inv] != want:
            col.violation(obj["mechanism"], "inverse %s want %s" % (inv, want), c)
    elif k == "comb":
        f = getattr(J, c["f"])
        got = int(f(c["n"], c["k"]))
        want = math.comb(c["n"], c["k"]) if c["f"] in ("comb", "_comb") else math.comb(c["n"] + c["k"] - 1, c["k"])
        if got != want:
            col.violation(obj["mechanism"], "%s(%d,%d)=%d want %d" % (c["f"], c["n"], c["k"], got, want), c)
    elif k == "count":
        got = count_unique_genotypes(c["n_alleles"], c["ploidy"])
        want = math.comb(c["n_alleles"] + c["ploidy"] - 1, c["ploidy"])
        if int(got) != want:
            col.violation(obj["mechanism"], "count_unique_genotypes=%r want %d" % (got, want), c)
    elif k in ("walk", "bijection", "paa", "succ"):
        if k == "succ":
            g = c["genotype"]
            w = np.array(g, dtype=np.int64)
            J.increment_genotype(w)
            i = sum(math.comb(a + j, j + 1) for j, a in enumerate(g))
            if w.tolist() != unrank(i + 1, len(g)):
                col.violation(obj["mechanism"], "successor wrong", c)
        else:
            run_grid({"cells": [(c["ploidy"], c["n_alleles"], math.comb(c["n_alleles"] + c["ploidy"] - 1, c["ploidy"]))], "name": "replay"}, col)
