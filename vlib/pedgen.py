"""Generated pedigree instances + a thin driver around the compiled pedigree kernels, and the joint oracle."""

import math

import numpy as np

from vlib import gen
from vlib.oracles import model as M
from vlib.oracles import pedigree as P

# name -> (ploidies, parents, tau)   parents/tau per sample; -1 = unknown parent
SCENARIOS = {
    "founders": ([2, 4], [(-1, -1), (-1, -1)], [(1, 1), (2, 2)]),
    "duo": ([2, 2], [(-1, -1), (0, -1)], [(1, 1), (1, 1)]),
    "duo4": ([4, 4], [(-1, -1), (-1, 0)], [(2, 2), (2, 2)]),
    "trio2": ([2, 2, 2], [(-1, -1), (-1, -1), (0, 1)], [(1, 1), (1, 1), (1, 1)]),
    "trio4": ([4, 4, 4], [(-1, -1), (-1, -1), (0, 1)], [(2, 2), (2, 2), (2, 2)]),
    "halfsibs": ([2, 2, 2, 2, 2], [(-1, -1), (-1, -1), (-1, -1), (0, 1), (0, 2)], [(1, 1)] * 5),
    "fullsibs": ([2, 2, 2, 2], [(-1, -1), (-1, -1), (0, 1), (0, 1)], [(1, 1)] * 4),
    "selfing": ([2, 2], [(-1, -1), (0, 0)], [(1, 1), (1, 1)]),
    "selfing4": ([4, 4], [(-1, -1), (0, 0)], [(2, 2), (2, 2)]),
    "threegen": ([2, 2, 2, 2, 2], [(-1, -1), (-1, -1), (0, 1), (-1, -1), (2, 3)], [(1, 1)] * 5),
    "mixed_4x2_3": ([4, 2, 3], [(-1, -1), (-1, -1), (0, 1)], [(2, 2), (1, 1), (2, 1)]),
    "mixed_2x4_3": ([2, 4, 3], [(-1, -1), (-1, -1), (0, 1)], [(1, 1), (2, 2), (1, 2)]),
    "unbalanced31": ([4, 4, 4], [(-1, -1), (-1, -1), (0, 1)], [(2, 2), (2, 2), (3, 1)]),
    "unbalanced13": ([4, 4, 4], [(-1, -1), (-1, -1), (0, 1)], [(2, 2), (2, 2), (1, 3)]),
    "unreduced": ([2, 2, 3], [(-1, -1), (-1, -1), (0, 1)], [(1, 1), (1, 1), (2, 1)]),
    "clone": ([4, 4, 4], [(-1, -1), (-1, -1), (0, 1)], [(2, 2), (2, 2), (0, 4)]),
    "trio4_child_parent": ([4, 4, 4, 4, 4], [(-1, -1), (-1, -1), (0, 1), (-1, -1), (2, 3)], [(2, 2)] * 5),
    "trio6": ([6, 6, 6], [(-1, -1), (-1, -1), (0, 1)], [(3, 3)] * 3),
    "duo6": ([6, 6], [(-1, -1), (0, -1)], [(3, 3)] * 2),
    "mixed_6x4_5": ([6, 4, 5], [(-1, -1), (-1, -1), (0, 1)], [(3, 3), (2, 2), (3, 2)]),
    # backcross: sample 0 is the progeny of samples 1 x 2 and is itself mated with its parent 2 (progeny listed BEFORE its parent)
    "backcross_child_first": ([2, 2, 2, 2], [(1, 2), (-1, -1), (-1, -1), (0, 2)], [(1, 1)] * 4),
    "backcross4": ([4, 4, 4, 4], [(-1, -1), (-1, -1), (0, 1), (2, 0)], [(2, 2)] * 4),
    "mixed_then_child": ([4, 2, 3, 2, 2], [(-1, -1), (-1, -1), (0, 1), (-1, -1), (3, 1)], [(2, 2), (1, 1), (2, 1), (1, 1), (1, 1)]),
}
UNBALANCED = {"mixed_4x2_3", "mixed_2x4_3", "unbalanced31", "unbalanced13", "unreduced", "mixed_then_child", "mixed_6x4_5"}


def random_shape(rng):
    """Random pedigree DAG: 3-6 samples, parents drawn among earlier samples (selfing and unknown parents allowed),
    ploidy 2/4 (occasionally 6), gamete ploidies summing to the progeny ploidy (balanced, unbalanced or clonal)."""
    n = int(rng.integers(3, 7))
    ploidies, parents, tau = [], [], []
    for i in range(n):
        if i < 2 or rng.random() < 0.25:
            pl = int(rng.choice([2, 2, 4, 4, 6]))
            ploidies.append(pl)
            parents.append((-1, -1))
            tau.append((pl // 2, pl - pl // 2))
            continue
        p = int(rng.integers(-1, i))
        q = int(rng.integers(-1, i)) if rng.random() > 0.15 else p
        opts = []
        for tp in range(0, 4):
            for tq in range(0, 4):
                if tp + tq < 2 or tp + tq > 6 or tp + tq == 5 and rng.random() < 0.7:
                    continue
                if p >= 0 and tp > ploidies[p]:
                    continue
                if q >= 0 and tq > ploidies[q]:
                    continue
                if tp == 0 and tq == 0:
                    continue
                opts.append((tp, tq))
        bal = [o for o in opts if o[0] == o[1]]
        cand = bal if (bal and rng.random() < 0.5) else opts
        tp, tq = cand[int(rng.integers(len(cand)))]
        ploidies.append(tp + tq)
        parents.append((p, q))
        tau.append((tp, tq))
    return ploidies, parents, tau


def make_pedigree(rng, name=None, shuffle_order=None):
    if name is None:
        name = str(rng.choice(sorted(SCENARIOS)))
    if name == "random":
        ploidies, parents, tau = random_shape(rng)
    else:
        ploidies, parents, tau = SCENARIOS[name]
    if shuffle_order is None:
        shuffle_order = rng.random() < 0.35
    if name == "backcross_child_first":
        shuffle_order = False
    if shuffle_order and len(ploidies) > 1:
        # the order in which samples are listed carries no meaning: progeny may be listed before their parents
        perm = rng.permutation(len(ploidies))          # new position k holds old sample perm[k]
        inv = {int(o): k for k, o in enumerate(perm)}
        ploidies = [ploidies[int(o)] for o in perm]
        parents = [tuple(inv[p] if p >= 0 else -1 for p in parents[int(o)]) for o in perm]
        tau = [tau[int(o)] for o in perm]
        name = name + "+shuffled"
    n = len(ploidies)
    n_haps = int(rng.choice([2, 3, 3, 4])) if max(ploidies) <= 4 else int(rng.choice([2, 3, 4]))
    if name == "random" and sum(ploidies) > 16:
        n_haps = min(n_haps, 3)
    n_pos = int(rng.integers(1, 4))
    haps, n_alleles = gen.gen_haplotype_set(rng, n_haps, n_pos)
    n_haps = len(haps)
    n_nucl = int(max(2, n_alleles.max()))
    lam = np.zeros((n, 2))
    err = np.zeros((n, 2))
    e = float(rng.choice([0.0, 0.05, 0.5])) if rng.random() < 0.8 else float(rng.uniform(0, 1))
    for i in range(n):
        for j in range(2):
            if parents[i][j] >= 0:
                err[i, j] = e if rng.random() < 0.8 else float(rng.choice([0.0, 0.05, 0.5]))
                if tau[i][j] == 2 and ploidies[parents[i][j]] >= 4 and rng.random() < 0.5:
                    lam[i, j] = float(rng.choice([0.1, 0.3, 0.9]))
            else:
                # ignored for unknown parents (the user's --gamete-error applies to every edge of the file, 0 included)
                err[i, j] = [1.0, float(rng.uniform(0, 1)), 0.0, e][int(rng.integers(4))]
    freqs = np.full(n_haps, 1.0 / n_haps) if rng.random() < 0.4 else np.maximum(rng.dirichlet(np.ones(n_haps)), 0.02)
    freqs = freqs / freqs.sum()
    # reads: unequal numbers of distinct reads per sample, padded with NaN reads of count 0
    n_reads = [int(rng.integers(0, 7)) for _ in range(n)]
    if rng.random() < 0.5 and n >= 2:
        # make an earlier sample have fewer reads than a later one (pair masks differ)
        n_reads[0] = int(rng.integers(0, 3))
        n_reads[1] = int(rng.integers(3, 8))
    max_reads = max(max(n_reads), 1)
    reads = np.full((n, max_reads, n_pos, n_nucl), np.nan)
    counts = np.zeros((n, max_reads), dtype=np.int64)
    for i in range(n):
        if n_reads[i]:
            truth = haps[rng.integers(0, n_haps, size=ploidies[i])]
            reads[i, : n_reads[i]] = gen.gen_reads_from_haps(rng, truth, n_reads[i], n_alleles, n_nucl=n_nucl,
                                                            gap_rate=float(rng.choice([0, 0.2])), err=float(rng.choice([0.0024, 0.05])))
            counts[i, : n_reads[i]] = rng.integers(1, 4, size=n_reads[i])
    return dict(name=name, ploidy=np.array(ploidies, dtype=np.int64), parents=np.array(parents, dtype=np.int64),
                tau=np.array(tau, dtype=np.int64), lam=lam, err=err, haps=haps, freqs=freqs, reads=reads, counts=counts)


def pack(I):
    return {k: (v.tolist() if isinstance(v, np.ndarray) else v) for k, v in I.items()} | {"reads_shape": list(I["reads"].shape)}


def unpack(d):
    from vlib.report import unjson_array

    I = dict(d)
    for k in ("ploidy", "parents", "tau", "counts"):
        I[k] = np.array(d[k], dtype=np.int64)
    I["lam"] = np.array(d["lam"], dtype=float)
    I["err"] = np.array(d["err"], dtype=float)
    I["haps"] = np.array(d["haps"], dtype=np.int8).reshape(len(d["haps"]), -1)
    I["freqs"] = np.array(d["freqs"], dtype=float)
    I["reads"] = unjson_array(d["reads"], float).reshape(d["reads_shape"])
    return I


def random_state(rng, I):
    n = len(I["ploidy"])
    mp = int(I["ploidy"].max())
    st = np.full((n, mp), -1, dtype=np.int16)
    for i in range(n):
        st[i, : I["ploidy"][i]] = rng.integers(0, len(I["haps"]), size=I["ploidy"][i])
    return st


class Joint:
    """Oracle joint on ordered states: nu(x) = prod_i L_i(G_i) T(G_i | parents) / perms(G_i)."""

    def __init__(self, I):
        self.I = I
        self.tc = P.TrioCache(I["freqs"])
        self.Ms = []
        for i in range(len(I["ploidy"])):
            keep = I["counts"][i] > 0
            r = I["reads"][i][keep]
            self.Ms.append((M.hap_read_matrix(r, I["haps"]) if len(r) else np.ones((0, len(I["haps"]))), I["counts"][i][keep]))
        self.lmemo = {}

    def geno(self, state, i):
        return tuple(sorted(int(a) for a in state[i][: self.I["ploidy"][i]]))

    def llk(self, i, g):
        k = (i, g)
        if k not in self.lmemo:
            Mx, c = self.Ms[i]
            self.lmemo[k] = M.log_likelihood_alleles_fast(Mx, g, c)
        return self.lmemo[k]

    def log_T(self, state, i):
        I = self.I
        p, q = int(I["parents"][i, 0]), int(I["parents"][i, 1])
        gp = self.geno(state, p) if p >= 0 else None
        gq = self.geno(state, q) if q >= 0 else None
        pr = self.tc.prob(self.geno(state, i), gp, gq, int(I["tau"][i, 0]), int(I["tau"][i, 1]), float(I["lam"][i, 0]), float(I["lam"][i, 1]),
                          float(I["err"][i, 0]) if p >= 0 else 1.0, float(I["err"][i, 1]) if q >= 0 else 1.0)
        return math.log(pr) if pr > 0 else -math.inf

    def log_nu(self, state):
        tot = 0.0
        for i in range(len(self.I["ploidy"])):
            g = self.geno(state, i)
            t = self.log_T(state, i)
            if t == -math.inf:
                return -math.inf
            tot += self.llk(i, g) + t - M.log_perms(g)
        return tot


class Kernels:
    """Calls the compiled pedigree kernels with the long argument lists."""

    def __init__(self, I):
        from mchap.pedigree import mcmc as PM

        self.PM = PM
        self.I = I
        self.children = PM.sample_children_matrix(I["parents"])
        self.pairs, self.blankets = PM.parental_pair_markov_blankets(I["parents"], self.children)
        mp = int(I["ploidy"].max())
        self.scratch = [np.zeros(mp, dtype=np.int64) for _ in range(7)] + [np.zeros(mp, dtype=np.float64)]
        self.logf = np.log(I["freqs"])

    def new_cache(self):
        from numba import types
        from numba.typed import Dict

        d = Dict.empty(key_type=types.UniTuple(types.int64, 2), value_type=types.float64)
        d[(-1, -1)] = np.nan
        return d

    def _common(self, state, cache):
        I = self.I
        return dict(sample_genotypes=state, sample_ploidy=I["ploidy"], sample_parents=I["parents"], gamete_tau=I["tau"],
                    gamete_lambda=I["lam"], gamete_error=I["err"], sample_read_dists=I["reads"], sample_read_counts=I["counts"],
                    haplotypes=I["haps"], log_frequencies=self.logf, llk_cache=cache,
                    dosage=self.scratch[0], dosage_p=self.scratch[1], dosage_q=self.scratch[2], gamete_p=self.scratch[3],
                    gamete_q=self.scratch[4], constraint_p=self.scratch[5], constraint_q=self.scratch[6],
                    dosage_log_frequencies=self.scratch[7])

    def gibbs(self, state, t, k, cache=None):
        kw = self._common(state, cache)
        return np.array(self.PM.gibbs_probabilities(target_index=t, allele_index=k, sample_children=self.children, **kw))

    def mh(self, state, t, k, cache=None):
        kw = self._common(state, cache)
        return np.array(self.PM.metropolis_hastings_probabilities(target_index=t, allele_index=k, sample_children=self.children, **kw))

    def swap_args(self, state, pair_idx, cache):
        kw = self._common(state, cache)
        return dict(p=int(self.pairs[pair_idx, 0]), q=int(self.pairs[pair_idx, 1]), markov_blanket=self.blankets[pair_idx], **kw)
