#!/bin/bash
# tools/verify_seeded.sh <dir with patch.diff + demo_test.py|demo.py> <test-path-for-repo-suite|-> <Cxx> [Cxx...]
# Confirms a seeded change independently in scratch copies (never in /repo):
#   1. demo passes on the unchanged tree, 2. demo fails with the patch, 3. the given repository tests pass with the patch,
#   4. runs the named checks against the patched copy (CAUGHT / MISSED / INCONCLUSIVE).
D="$(realpath "$1")"; T="$2"; shift 2
S="/tmp/mchap-seedverify-$$"; mkdir -p "$S/orig" "$S/patched"
trap 'rm -rf "$S"' EXIT
for k in orig patched; do rsync -a --exclude .git --exclude __pycache__ --exclude '*.nbi' --exclude '*.nbc' /repo/ "$S/$k/"; done
( cd "$S/patched" && patch -s -p1 < "$D/patch.diff" ) || { echo "PATCH-FAILED"; exit 3; }
run_demo() { # tree
  if [ -f "$D/demo_test.py" ]; then ( cd "$D" && NUMBA_CACHE_DIR="$1/.nbcache" PYTHONPATH="$1" timeout 1800 /venv/bin/python -m pytest -q -p no:cacheprovider demo_test.py > "$S/demo.log" 2>&1 ); echo $?
  else ( cd "$D" && NUMBA_CACHE_DIR="$1/.nbcache" PYTHONPATH="$1" timeout 1800 /venv/bin/python demo.py > "$S/demo.log" 2>&1 ); echo $?; fi; }
r0=$(run_demo "$S/orig"); tail -3 "$S/demo.log" | sed 's/^/   orig: /'
r1=$(run_demo "$S/patched"); tail -3 "$S/demo.log" | sed 's/^/   patched: /'
echo "DEMO original_exit=$r0 patched_exit=$r1"
if [ "$T" != "-" ]; then
  ( cd "$S/patched" && NUMBA_CACHE_DIR="$S/patched/.nbcache" PYTHONPATH="$S/patched" timeout 7000 /venv/bin/python -m pytest -q -p no:cacheprovider --timeout=3000 -n 4 $T 2>&1 | tail -4 | sed 's/^/   suite: /' )
fi
for id in "$@"; do VERIF_TIER="${VERIF_TIER:-quick}" /verif/tools/run_mutant.sh "$D/patch.diff" "$id"; done
