"""C10 - samples are called independently; a pool equals the union of its reads.

Monitors: sample columns of in-process CLI output (assemble, call, call-exact) for all samples together, each sample alone,
random subsets / permutations of --bam, pool files (including a sample in two pools) versus physically merged BAMs; plus the
read matrices produced by the real encode_sample_reads for a pool versus its members (multiset union).
Oracle: byte equality of a sample's column (call, call-exact) and of the record's CHROM/POS/REF/ALT; for assemble equality of
the per-sample call statistics and containment of named called haplotype sequences; for pools multiset equality of
(read row, count) and call-exact agreement within rounding.
"""

import os
import shutil
from collections import Counter

import numpy as np

from vlib import cli, datasets, env, gen, hapvcf, vcfparse

ID = "C10"
TECHNIQUE = "runtime monitoring: in-process CLI runs over sample subsets, BAM orders and pool assignments compared column-by-column (independent VCF parser); read matrices of pools observed at encode_sample_reads and compared as multisets with their members' union; merged-BAM cross-check"
LEVEL = "exploration"
LEVEL_TEXT = (
    "Exploration: on generated 3-4 sample datasets each program was run jointly, per sample, on random subsets and permutations "
    "of the BAM list and with pool files (incl. a sample in two pools); the sample columns observed in the outputs were compared: "
    "identical bytes for call and call-exact, identical call statistics and contained called-haplotype sequences for assemble "
    "('.' alleles of the lone run become named alleles in the joint run, never the reverse), columns merely permuted by BAM order. "
    "The read matrix a pool feeds to inference was observed at encode_sample_reads and equals the multiset union of its members' "
    "matrices; call-exact on a pool agrees with call-exact on a physically merged BAM within output rounding."
)
LEVEL_TEXT += " Session 3: datasets whose samples are read-group IDs (--read-group-field ID, two read groups per SM), the three spellings of --bam (paths, one-column list, sample<TAB>path list), and every program's columns from shared files compared with runs on physically separate per-sample files."
LEVEL_TEXT += ' Session 4: a wide kind - 150-190 samples in one BAM listing more than 127 ALT alleles at one locus; samples using the highest allele numbers are assembled alone and compared.'
LEVEL_NOTE = "Pool-vs-merged comparison for the MCMC programs is limited to the read matrix (the order of de-duplicated reads differs between a pool and a merged BAM, so sampler floating point sums may differ in the last ulp); call-exact is compared numerically with tolerance 0.0015."
RULE = (
    "case = one (dataset, program, sample selection / order / pool assignment) comparison; non-trivial = involves >=2 samples; "
    "distinct by hash of (dataset seed, program, selection)"
)
ASSUMPTIONS = ["read names are unique across samples (mate merging across samples is not in play)", "fixed --mcmc-seed"]
MCMC = ["--mcmc-steps", "150", "--mcmc-burn", "75"]
ASM_STAT_KEYS = ["GQ", "SQ", "DP", "RCOUNT", "RCALLS", "MEC", "MECP", "GPM", "SPM", "MCI"]


def plan(tier, seed):
    q = tier == "quick"
    specs = [{"name": "s%02d" % i, "shard": i, "datasets": 2 if q else 40, "timeout": 7000} for i in range(16)]
    # session 4: populations listing more than 127 ALT alleles at one locus (allele numbers beyond int8)
    specs += [{"name": "wide%d" % i, "kind": "wide", "shard": 40 + i, "datasets": 1 if q else 4, "timeout": 7000} for i in range(2)]
    return specs


def required(tier):
    return {"alone_vs_joint_columns": 100, "subset_permutation_columns": 60, "assemble_haplotype_containment_checked": 30,
            "pool_read_matrix_checked": 30, "pool_vs_merged_records": 30, "bam_order_runs": 16, "sample_in_two_pools_runs": 8, "datasets_with_shared_bam": 4, "pool_files_with_interleaved_pools": 4, "datasets_with_per_sample_inbreeding": 4, "datasets_with_report_fields": 6,
            "datasets_with_per_sample_temperatures": 4, "datasets_with_sampler_options": 6, "datasets_with_input_filter_or_prior": 6,
            "datasets_samples_by_read_group_id": 4, "shared_vs_split_file_runs": 10, "shared_vs_split_file_columns": 100,
            "wide_joint_records_with_more_than_127_alts": 2, "wide_alone_vs_joint_columns": 12, "wide_columns_with_allele_number_above_127": 4}


def argv(ds, prog, bams, hap=None, ploidy_file=None, extra=(), sel=None):
    a = [prog]
    if sel is not None:
        # per-program extras of this dataset; the per-sample temperature file may only name samples of the run
        if prog == "assemble":
            extra = list(extra) + list(getattr(ds, "asm_extra", ()))
            lad = [(s, getattr(ds, "temps", {}).get(s)) for s in sel]
            if any(t for _, t in lad):
                path = os.path.join(ds.root, "temps_%s.txt" % "_".join(sel))
                with open(path, "w") as fh:
                    for s, t in lad:
                        if t:
                            fh.write("\t".join([s] + [repr(x) for x in t]) + "\n")
                extra += ["--mcmc-temperatures", path]
        elif prog == "call":
            extra = list(extra) + list(getattr(ds, "call_extra", ()))
        if prog in ("call", "call-exact"):
            extra = list(extra) + list(getattr(ds, "hap_extra", ()))
    if prog == "assemble":
        a += ["--targets", ds.bed, "--variants", ds.vcf, "--reference", ds.fasta, "--report", "AFP"]
    else:
        a += ["--haplotypes", hap, "--reference", ds.fasta]
    a += ["--bam"] + list(bams) + ["--ploidy", ploidy_file or ds.ploidy_file]
    if prog != "call-exact":
        a += MCMC + ["--mcmc-seed", str(getattr(ds, "mcmc_seed", 11))]
    if "--inbreeding" not in extra:
        if getattr(ds, "inbreeding_file", None):
            a += ["--inbreeding", ds.inbreeding_file]
        elif getattr(ds, "inbreeding", 0.0):
            a += ["--inbreeding", repr(ds.inbreeding)]
    if prog in ("call", "call-exact") and getattr(ds, "report", None):
        a += ["--report"] + list(ds.report)
    if getattr(ds, "rg_field", None):
        a += ["--read-group-field", ds.rg_field]
    return a + list(extra)


def bam_arg(ds, root, sel, bam_of):
    """--bam value selecting exactly the samples `sel` in that order: plain paths when every BAM holds one sample,
    otherwise a 'sample<TAB>path' list file (the documented way to pick samples out of multi-sample BAMs)."""
    if len(set(bam_of.values())) == len(bam_of):
        # three equivalent spellings of the same BAM list: paths on the command line, a one-column list file, a
        # 'sample<TAB>path' list file (the choice depends on the selection only, so reruns of one selection agree)
        import zlib

        form = zlib.crc32(("|".join(sel) + os.path.basename(root)).encode()) % 3
        if form == 0:
            return [bam_of[s] for s in sel]
        if form == 1:
            p = os.path.join(root, "bampaths_%s.txt" % "_".join(sel))
            with open(p, "w") as fh:
                for s in sel:
                    fh.write("%s\n" % bam_of[s])
            return [p]
    p = os.path.join(root, "bams_%s.txt" % "_".join(sel))
    with open(p, "w") as fh:
        for s in sel:
            fh.write("%s\t%s\n" % (s, bam_of[s]))
    return [p]


def by_locus(text):
    h, recs = vcfparse.parse(text)
    return h, {(r.chrom, r.pos): r for r in recs}


def col_text(rec, header, sample):
    return rec.fields[9 + header.samples.index(sample)]


def named_haps(rec, sample):
    gt, _ = rec.gt(sample)
    seqs = [rec.ref] + rec.alts
    return Counter(seqs[a] for a in gt if a is not None), sum(1 for a in gt if a is None)


def run_wide(tier, seed, spec, col):
    """One locus, 150-190 samples in one BAM, each carrying its own haplotypes: the joint assemble record lists more than 127
    ALT alleles.  Samples whose joint GT uses the highest allele numbers (and a few others) are assembled alone and compared."""
    for dI in range(spec["datasets"]):
        rng = gen.rng_for(seed, ID, spec["shard"], dI)
        root = env.workdir("c10-%s-%d" % (spec["name"], dI))
        shutil.rmtree(root, ignore_errors=True)
        n_s = int(rng.integers(150, 190))
        ds = datasets.make_dataset(rng, root, n_samples=n_s, n_loci=1, ploidy=[2], depth=(10, 14), contig_len=300, snv_range=(9, 10),
                                   multi_allelic=0.0, hostile=0.0, samples_per_bam=n_s, locus_len=(40, 60), read_len=(40, 60))
        base = ["assemble", "--targets", ds.bed, "--variants", ds.vcf, "--reference", ds.fasta, "--ploidy", "2", "--mcmc-steps", "120", "--mcmc-burn", "60",
                "--mcmc-seed", str(int(rng.choice([0, 5, 11]))), "--report", "AFP"]
        lst = os.path.join(root, "bams.txt")
        def bam_list(sel):
            with open(lst, "w") as fh:
                for s_ in sel:
                    fh.write("%s\t%s\n" % (s_, ds.sample_bam[s_]))
            return ["--bam", lst]
        rep = {"dataset_seed": [seed, spec["shard"], dI], "kind": "wide", "n_samples": n_s}
        out, exc = cli.run_inproc(base + bam_list(ds.samples))
        if exc is not None:
            col.violation("program-fails-on-valid-input", "assemble (wide population, %d samples) raised %r" % (n_s, exc), rep)
            continue
        hJ, joint = by_locus(out)
        (key, rJ), = list(joint.items())[:1]
        col.add_to_set("wide_alt_counts", len(rJ.alts))
        if len(rJ.alts) > 127:
            col.count("wide_joint_records_with_more_than_127_alts")
        # samples using the highest allele numbers, a '.' allele, and a few random ones
        top = sorted(ds.samples, key=lambda s_: -max([a for a in (rJ.gt(s_)[0] or []) if a is not None] or [0]))[:6]
        miss = [s_ for s_ in ds.samples if any(a is None for a in (rJ.gt(s_)[0] or [None]))][:2]
        rnd = [ds.samples[int(i)] for i in rng.permutation(n_s)[:2]]
        for s_ in dict.fromkeys(top + miss + rnd):
            case = dict(rep, selection=[s_])
            col.case(case, nontrivial=True)
            out2, exc2 = cli.run_inproc(base + bam_list([s_]))
            if exc2 is not None:
                col.violation("program-fails-on-valid-input", "assemble on %s alone raised %r" % (s_, exc2), case)
                continue
            h2, part = by_locus(out2)
            r2 = part.get(key)
            if r2 is None:
                col.violation("locus-set-depends-on-samples", "assemble: locus missing when %s runs alone" % s_, case)
                continue
            col.count("wide_alone_vs_joint_columns")
            gtj = [a for a in (rJ.gt(s_)[0] or []) if a is not None]
            if gtj and max(gtj) > 127:
                col.count("wide_columns_with_allele_number_above_127")
            sa, sj = r2.samples[s_], rJ.samples[s_]
            diff = [k2 for k2 in ASM_STAT_KEYS if sa.get(k2) != sj.get(k2)]
            if diff:
                col.violation("sample-statistics-depend-on-other-samples", "assemble %s:%d sample %s (population of %d, %d ALTs): %s differ: %s vs %s"
                              % (key[0], key[1], s_, n_s, len(rJ.alts), diff, [sa.get(k2) for k2 in diff], [sj.get(k2) for k2 in diff]), case)
                continue
            ha, ma = named_haps(r2, s_)
            hj, mj = named_haps(rJ, s_)
            gained = sum((hj - ha).values())
            if (ha - hj) or (ma - mj) != gained or mj > ma:
                col.violation("called-haplotypes-depend-on-other-samples", "assemble %s:%d sample %s: named haplotypes %s ('.' x%d) alone but %s ('.' x%d) in a population of %d samples listing %d ALTs (joint GT %s)"
                              % (key[0], key[1], s_, dict(ha), ma, dict(hj), mj, n_s, len(rJ.alts), sj.get("GT")), case)
        shutil.rmtree(root, ignore_errors=True)


def run_shard(tier, seed, spec, col):
    if spec.get("kind") == "wide":
        return run_wide(tier, seed, spec, col)
    import pysam

    from mchap.application import assemble as ASM

    for dI in range(spec["datasets"]):
        rng = gen.rng_for(seed, ID, spec["shard"], dI)
        root = env.workdir("c10-%s-%d" % (spec["name"], dI))
        shutil.rmtree(root, ignore_errors=True)
        n_s = int(rng.integers(3, 5))
        # every second dataset keeps two samples in one BAM file (shared path, separate read groups)
        spb = 2 if (dI + spec["shard"]) % 2 else 1
        # every fourth dataset identifies samples by read-group ID (--read-group-field ID): each read group is a sample of its
        # own although several of them share one SM (and one file)
        id_mode = (dI + spec["shard"]) % 4 == 2
        if id_mode:
            ds = datasets.make_dataset(rng, root, n_samples=2, n_loci=int(rng.integers(3, 6)), ploidy=[2, 4], depth=(8, 18), contig_len=800,
                                       snv_range=(1, 4), hostile=0.1, samples_per_bam=spb, rgs_per_sample=(2, 2))
            by_id = [(rg, s_) for s_ in ds.samples for rg in ds.sample_rgs[s_]]
            for rg, s_ in by_id:
                ds.ploidy[rg] = ds.ploidy[s_]
                ds.sample_bam[rg] = ds.sample_bam[s_]
                for L in ds.loci:
                    ds.genotypes[(rg, L["name"])] = ds.genotypes[(s_, L["name"])]
            for rg, s_ in by_id:
                ds.sample_rgs[rg] = [rg]
            ds.samples = [rg for rg, _ in by_id]
            ds.rg_field = "ID"
            n_s = len(ds.samples)
            col.count("datasets_samples_by_read_group_id")
        else:
            ds = datasets.make_dataset(rng, root, n_samples=n_s, n_loci=int(rng.integers(3, 6)), ploidy=[2, 4], depth=(5, 14), contig_len=800,
                                       snv_range=(1, 4), hostile=0.1, samples_per_bam=spb, rgs_per_sample=(1, 2))
        if spb > 1:
            col.count("datasets_with_shared_bam")
        ds.mcmc_seed = int(rng.choice([0, 1, 11, 42]))          # 0 is the hostile (falsy) value
        ds.inbreeding = float(rng.choice([0.0, 0.0, 0.1, 0.3]))
        ds.ploidy_file = os.path.join(root, "ploidy.txt")
        with open(ds.ploidy_file, "w") as fh:
            for s in ds.samples:
                fh.write("%s\t%d\n" % (s, ds.ploidy[s]))
        # per-sample parameter files: samples of equal ploidy with DIFFERENT inbreeding coefficients
        ds.inbreeding_file = None
        if rng.random() < 0.5:
            ds.inbreeding_file = os.path.join(root, "inbreeding.txt")
            vals = [float(v) for v in rng.choice([0.0, 0.1, 0.3, 0.6], size=len(ds.samples))]
            if len(set(vals)) == 1:
                vals[-1] = 0.45
            with open(ds.inbreeding_file, "w") as fh:
                for s, v in zip(ds.samples, vals):
                    fh.write("%s\t%r\n" % (s, v))
            col.count("datasets_with_per_sample_inbreeding")
        # optional report fields select other code paths (e.g. the full-array path of call-exact)
        ds.report = [None, ["GP"], ["GL"], ["AFP"], ["GP", "GL", "AFP", "ACP"]][int(rng.integers(5))]
        if ds.report:
            col.count("datasets_with_report_fields")
        # sampler options that are per sample (temperature ladders of different lengths; some samples left at the default)
        # or that select other sampler paths
        ds.temps, ds.asm_extra, ds.call_extra = {}, [], []
        if rng.random() < 0.5:
            ladders = [[0.2, 0.5], [0.6], [0.1, 0.3, 0.6, 1.0], None]
            for s in ds.samples:
                ds.temps[s] = ladders[int(rng.integers(len(ladders)))]
            if not any(ds.temps.values()):
                ds.temps[ds.samples[0]] = [0.5]
            if len({repr(v) for v in ds.temps.values()}) == 1:
                ds.temps[ds.samples[-1]] = [0.35, 0.7]
            col.count("datasets_with_per_sample_temperatures")
        if rng.random() < 0.6:
            ds.asm_extra = [[["--mcmc-fix-homozygous", "0.9"], ["--mcmc-fix-homozygous", "1.0"]][int(rng.integers(2))],
                            ["--mcmc-recombination-step-probability", "0.3", "--mcmc-dosage-step-probability", "0.6", "--mcmc-partial-dosage-step-probability", "0.2"],
                            ["--mcmc-chains", "3", "--mcmc-llk-cache-threshold", "0"],
                            ["--haplotype-posterior-threshold", "0.05"]][int(rng.integers(4))]
            ds.call_extra = [["--mcmc-chains", "3"], ["--mcmc-chain-incongruence-threshold", "0.5"], []][int(rng.integers(3))]
            col.count("datasets_with_sampler_options")
        # haplotype VCF from truth
        recs = []
        for L in ds.loci:
            ref = ds.contigs[L["contig"]][L["start"]:L["stop"]]
            alts = []
            for s in ds.samples:
                for hap in ds.genotypes[(s, L["name"])]:
                    sq = datasets.hap_sequence(ds.contigs, L, hap, L["start"], L["stop"])
                    if sq != ref and sq not in alts:
                        alts.append(sq)
            r = {"contig": L["contig"], "pos0": L["start"], "id": L["name"], "ref": ref, "alts": alts[:5]}
            # INFO that the optional input filter / prior can use (zeros included); some references masked on input
            w = np.round(rng.dirichlet(np.ones(1 + len(r["alts"]))), 3)
            if len(r["alts"]) >= 2 and rng.random() < 0.3:
                w[int(rng.integers(1, len(w)))] = 0.0
            if w.sum() <= 0:
                w[0] = 1.0
            r["info"] = {"AFP": ",".join(repr(float(x)) for x in w)}
            if r["alts"] and rng.random() < 0.25:
                r["info"]["REFMASKED"] = True
            recs.append(r)
        hv = hapvcf.write(os.path.join(root, "haps.vcf"), hapvcf.render(ds.contigs, recs, info_defs=[
            {"ID": "AFP", "Number": "R", "Type": "Float"}, {"ID": "REFMASKED", "Number": "0", "Type": "Flag"}]))
        ds.hap_extra = [[], [], ["--prior-frequencies", "AFP"], ["--filter-input-haplotypes", "AFP>=0.1"],
                        ["--prior-frequencies", "AFP", "--filter-input-haplotypes", "AFP>0.05"]][int(rng.integers(5))]
        if ds.hap_extra:
            col.count("datasets_with_input_filter_or_prior")
        bam_of = {s: ds.sample_bam[s] for s in ds.samples}
        rep = {"dataset_seed": [seed, spec["shard"], dI]}
        for prog in ("call-exact", "call", "assemble"):
            out, exc = cli.run_inproc(argv(ds, prog, bam_arg(ds, root, ds.samples, bam_of), hv, sel=ds.samples))
            if exc is not None:
                col.violation("program-fails-on-valid-input", "%s (all samples) raised %r" % (prog, exc), dict(rep, program=prog))
                continue
            hJ, joint = by_locus(out)
            # ---- each sample alone + a permuted subset
            selections = [[s] for s in ds.samples]
            k = int(rng.integers(2, n_s + 1))
            sub = [ds.samples[i] for i in rng.permutation(n_s)[:k]]
            selections.append(sub)
            selections.append(list(reversed(ds.samples)))
            for sel in selections:
                case = dict(rep, program=prog, selection=sel)
                col.case(case, nontrivial=len(sel) >= 2)
                out2, exc2 = cli.run_inproc(argv(ds, prog, bam_arg(ds, root, sel, bam_of), hv, sel=sel))
                if exc2 is not None:
                    col.violation("program-fails-on-valid-input", "%s on samples %s raised %r" % (prog, sel, exc2), case)
                    continue
                h2, part = by_locus(out2)
                if h2.samples != sel:
                    col.violation("sample-columns-not-in-bam-order", "%s: header samples %s for --bam order %s" % (prog, h2.samples, sel), case)
                    continue
                if len(sel) == n_s:
                    col.count("bam_order_runs")
                if set(part) != set(joint):
                    col.violation("locus-set-depends-on-samples", "%s: loci differ between joint run and run on %s" % (prog, sel), case)
                    continue
                for key, r2 in part.items():
                    rJ = joint[key]
                    for s in sel:
                        col.count("alone_vs_joint_columns" if len(sel) == 1 else "subset_permutation_columns")
                        if prog in ("call", "call-exact"):
                            if (r2.chrom, r2.pos, r2.ref, r2.alts) != (rJ.chrom, rJ.pos, rJ.ref, rJ.alts):
                                col.violation("record-alleles-depend-on-other-samples", "%s %s:%d REF/ALT differ between joint and %s" % (prog, key[0], key[1], sel), case)
                                break
                            a, b = col_text(r2, h2, s), col_text(rJ, hJ, s)
                            if a != b:
                                col.violation("sample-column-depends-on-other-samples", "%s %s:%d sample %s: '%s' when run with %s, '%s' jointly" % (prog, key[0], key[1], s, a[:120], sel, b[:120]), case)
                                break
                        else:
                            sa, sj = r2.samples[s], rJ.samples[s]
                            diff = [k2 for k2 in ASM_STAT_KEYS if sa.get(k2) != sj.get(k2)]
                            if diff:
                                col.violation("sample-statistics-depend-on-other-samples", "assemble %s:%d sample %s: %s differ: %s vs %s (selection %s)"
                                              % (key[0], key[1], s, diff, [sa.get(k2) for k2 in diff], [sj.get(k2) for k2 in diff], sel), case)
                                break
                            ha, ma = named_haps(r2, s)
                            hj, mj = named_haps(rJ, s)
                            col.count("assemble_haplotype_containment_checked")
                            gained = sum((hj - ha).values())
                            if (ha - hj) or (ma - mj) != gained or mj > ma:
                                col.violation("called-haplotypes-depend-on-other-samples", "assemble %s:%d sample %s: named haplotypes %s ('.' x%d) with %s but %s ('.' x%d) jointly"
                                              % (key[0], key[1], s, dict(ha), ma, sel, dict(hj), mj), case)
                                break
                            # AFP of sequences listed in both runs
                            afa, afj = r2.sample_list(s, "AFP"), rJ.sample_list(s, "AFP")
                            if afa and afj and None not in afa and None not in afj:
                                qa = dict(zip([r2.ref] + r2.alts, afa))
                                qj = dict(zip([rJ.ref] + rJ.alts, afj))
                                for sq in set(qa) & set(qj):
                                    if abs(qa[sq] - qj[sq]) > 1e-9 and not (sq == r2.ref and ("REFMASKED" in r2.info) != ("REFMASKED" in rJ.info)):
                                        col.violation("sample-statistics-depend-on-other-samples", "assemble %s:%d sample %s AFP of %s: %s vs %s" % (key[0], key[1], s, sq, qa[sq], qj[sq]), case)
                                        break
            # ---- the same samples from physically separate files: when several samples (or several read groups used as samples)
            # live in one BAM, a sample's column must equal the one obtained from a BAM holding ONLY its own alignments
            if len(set(bam_of.values())) < len(bam_of):
                split_of = {}
                for s_ in ds.samples:
                    src = bam_of[s_]
                    own = [dict(al) for al in ds.bam_alignments[src] if al["rg"] in ds.sample_rgs[s_]]
                    rgs = [rg for rg in ds.bam_rgs[src] if rg["ID"] in ds.sample_rgs[s_]]
                    sp = os.path.join(root, "split_%s.bam" % s_)
                    if not os.path.exists(sp):
                        datasets.write_bam(sp, ds.contigs, rgs, own)
                    split_of[s_] = sp
                case = dict(rep, program=prog, selection="split-files")
                col.case(case, nontrivial=True)
                out3, exc3 = cli.run_inproc(argv(ds, prog, bam_arg(ds, root + "/", ds.samples, split_of), hv, sel=ds.samples))
                if exc3 is not None:
                    col.violation("program-fails-on-valid-input", "%s on per-sample files raised %r" % (prog, exc3), case)
                else:
                    h3, part3 = by_locus(out3)
                    col.count("shared_vs_split_file_runs")
                    for key, r3 in part3.items():
                        rJ = joint.get(key)
                        if rJ is None or h3.samples != hJ.samples:
                            col.violation("locus-set-depends-on-samples", "%s: records / samples differ between shared and per-sample files" % prog, case)
                            break
                        if (r3.ref, r3.alts) != (rJ.ref, rJ.alts):
                            col.violation("sample-column-depends-on-other-reads-in-its-file", "%s %s:%d: REF/ALT differ between the shared file and per-sample files" % (prog, key[0], key[1]), case)
                            break
                        bad = [s_ for s_ in ds.samples if col_text(r3, h3, s_) != col_text(rJ, hJ, s_)]
                        col.count("shared_vs_split_file_columns", len(ds.samples))
                        if bad:
                            s_ = bad[0]
                            col.violation("sample-column-depends-on-other-reads-in-its-file", "%s %s:%d sample %s: '%s' from the shared file, '%s' from a file holding only its own alignments"
                                          % (prog, key[0], key[1], s_, col_text(rJ, hJ, s_)[:100], col_text(r3, h3, s_)[:100]), case)
                            break
            if prog == "call-exact" and dI == 0 and spec["shard"] == 0:
                col.sample({"program": prog, "samples": ds.samples, "joint_first_record": out.splitlines()[-1][:300]})
        # ---- pools: read matrix == multiset union; call-exact pool vs merged BAM
        a, b = ds.samples[0], ds.samples[1]
        c = ds.samples[2]
        pool_file = os.path.join(root, "pools.txt")
        lines = ["%s\tP1" % a, "%s\tP1" % b, "%s\tP2" % c, "%s\tP2" % a]  # sample a is in two pools
        lines += ["%s\t%s" % (s, s) for s in ds.samples[3:]]
        # the order of lines in a pool file carries no meaning: grouped by pool, sorted by sample (pools interleaved) or shuffled
        layout = ["by-pool", "by-sample", "shuffled"][(dI + spec["shard"]) % 3]
        if layout == "by-sample":
            lines.sort()
        elif layout == "shuffled":
            lines = [lines[k] for k in rng.permutation(len(lines))]
        col.add_to_set("pool_file_layouts", layout)
        if [ln.split("\t")[1] for ln in lines] != sorted(ln.split("\t")[1] for ln in lines) and len({ln.split("\t")[1] for ln in lines}) > 1:
            pools_seen, contiguous = [], True
            for ln in lines:
                p = ln.split("\t")[1]
                if pools_seen and pools_seen[-1] != p and p in pools_seen:
                    contiguous = False
                pools_seen.append(p)
            if not contiguous:
                col.count("pool_files_with_interleaved_pools")
        with open(pool_file, "w") as fh:
            fh.write("\n".join(lines) + "\n")
        pool_members = {"P1": [a, b], "P2": [c, a]}
        pool_ploidy = os.path.join(root, "pool_ploidy.txt")
        with open(pool_ploidy, "w") as fh:
            fh.write("P1\t4\nP2\t4\n")
            for s in ds.samples[3:]:
                fh.write("%s\t%d\n" % (s, ds.ploidy[s]))
        allb = bam_arg(ds, root, ds.samples, bam_of)
        inb0 = ["--inbreeding", repr(float(ds.inbreeding))]
        po = ASM.program.cli(["mchap"] + argv(ds, "assemble", allb, None, pool_ploidy, ["--sample-pool", pool_file] + inb0))
        pj = ASM.program.cli(["mchap"] + argv(ds, "assemble", allb, None, None, inb0))
        for locus in po.loci():
            dp = po._locus_data(locus, po.sample_bams)
            po.encode_sample_reads(dp)
            dj = pj._locus_data(locus, pj.sample_bams)
            pj.encode_sample_reads(dj)
            for pool, members in pool_members.items():
                col.count("pool_read_matrix_checked")
                col.case(dict(rep, what="pool-matrix", pool=pool, locus=locus.name), nontrivial=True)
                want = Counter()
                for m in members:
                    for row, cnt in zip(dj.read_dists[m], dj.read_counts[m]):
                        want[np.nan_to_num(row, nan=-1.0).tobytes()] += int(cnt)
                got = Counter()
                for row, cnt in zip(dp.read_dists[pool], dp.read_counts[pool]):
                    got[np.nan_to_num(row, nan=-1.0).tobytes()] += int(cnt)
                if got != want or len(got) != len(dp.read_dists[pool]):
                    col.violation("pool-reads-differ-from-union-of-members", "locus %s pool %s=%s: %d distinct reads / %d total, union of members has %d / %d"
                                  % (locus.name, pool, members, len(got), sum(got.values()), len(want), sum(want.values())), dict(rep, pool=pool))
                wantn = sum(int(dj.sampledata[_fmt(pj, "RCOUNT")][m]) for m in members)
                if int(dp.sampledata[_fmt(po, "RCOUNT")][pool]) != wantn:
                    col.violation("pool-reads-differ-from-union-of-members", "locus %s pool %s RCOUNT %s, members sum %d" % (locus.name, pool, dp.sampledata[_fmt(po, "RCOUNT")][pool], wantn), dict(rep, pool=pool))
        # merged BAMs: reads of the members re-tagged to one read group / sample
        merged = {}
        for pool, members in pool_members.items():
            alns = []
            for m in members:
                for al in ds.bam_alignments[bam_of[m]]:
                    if al["rg"] not in ds.sample_rgs[m]:
                        continue  # another sample's reads living in the same BAM file
                    x = dict(al)
                    x["rg"] = pool
                    alns.append(x)
            merged[pool] = datasets.write_bam(os.path.join(root, "merged_%s.bam" % pool), ds.contigs, [{"ID": pool, "SM": pool}], alns)
        listM = os.path.join(root, "bams_merged.txt")
        with open(listM, "w") as fh:
            fh.write("P1\t%s\nP2\t%s\n" % (merged["P1"], merged["P2"]))
            for s in ds.samples[3:]:
                fh.write("%s\t%s\n" % (s, bam_of[s]))
        inb = ["--inbreeding", repr(float(ds.inbreeding))]
        outP, excP = cli.run_inproc(argv(ds, "call-exact", allb, hv, pool_ploidy, ["--sample-pool", pool_file] + inb))
        outM, excM = cli.run_inproc(argv(ds, "call-exact", [listM], hv, pool_ploidy, inb))
        col.count("sample_in_two_pools_runs")
        case = dict(rep, what="pool-vs-merged")
        col.case(case, nontrivial=True)
        if excP is not None or excM is not None:
            col.violation("program-fails-on-valid-input", "call-exact with pools raised %r / merged raised %r" % (excP, excM), case)
        else:
            hP, rp = by_locus(outP)
            hM, rm = by_locus(outM)
            if sorted(hP.samples) != sorted(hM.samples):
                col.violation("pool-columns-wrong", "pool run samples %s, merged run samples %s" % (hP.samples, hM.samples), case)
            else:
                for key in rp:
                    col.count("pool_vs_merged_records")
                    for s in hP.samples:
                        x, y = rp[key].samples[s], rm[key].samples[s]
                        # the pool and the merged BAM present the same reads in a different order, so float sums differ in the
                        # last ulp: on an exact posterior tie (equal GPM) the two runs may pick different maximisers, and the
                        # statistics of the chosen mode (SPM, SQ) then legitimately differ
                        tie = False
                        if x.get("GT") != y.get("GT"):
                            try:
                                tie = abs(float(x["GPM"]) - float(y["GPM"])) <= 0.0015
                            except (KeyError, ValueError):
                                tie = False
                            if tie:
                                col.count("pool_vs_merged_ties_skipped")
                            else:
                                col.violation("pool-result-differs-from-merged-bam", "call-exact %s:%d %s GT %s GPM %s (pool) vs GT %s GPM %s (merged BAM)"
                                              % (key[0], key[1], s, x.get("GT"), x.get("GPM"), y.get("GT"), y.get("GPM")), case)
                        for k2 in x:
                            if k2 == "GT" or (tie and k2 in ("SPM", "SQ", "MEC", "MECP")):
                                continue
                            xs, ys = x[k2].split(","), y[k2].split(",")
                            if len(xs) != len(ys):
                                col.violation("pool-result-differs-from-merged-bam", "call-exact %s:%d %s %s lengths differ" % (key[0], key[1], s, k2), case)
                                continue
                            for u, v in zip(xs, ys):
                                if u == "." or v == ".":
                                    if u != v:
                                        col.violation("pool-result-differs-from-merged-bam", "call-exact %s:%d %s %s: %s vs %s" % (key[0], key[1], s, k2, u, v), case)
                                    continue
                                tol = 0.0015 if k2 not in ("GQ", "SQ") else 1.01
                                if abs(float(u) - float(v)) > tol:
                                    col.violation("pool-result-differs-from-merged-bam", "call-exact %s:%d %s %s: %s (pool) vs %s (merged BAM)" % (key[0], key[1], s, k2, u, v), case)
                                    break
        shutil.rmtree(root, ignore_errors=True)


def _fmt(prog, key):
    import mchap.io.vcf.formatfields as FORMAT

    return getattr(FORMAT, key)


def replay(obj, col):
    col.inconclusive_note("C10 cases are CLI runs on regenerated datasets: rerun `VERIF_SEED=%s ./check C10 %s`" % (obj.get("seed"), obj.get("tier")))
