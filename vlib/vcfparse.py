"""Independent VCF text parser and header/cardinality checker (no pysam, no mchap)."""

import math
import re

_META = re.compile(r"##(INFO|FORMAT|FILTER|contig)=<(.*)>$")


def _split_meta(body):
    out, key, val, inq, cur = {}, None, None, False, ""
    parts = []
    for ch in body:
        if ch == '"':
            inq = not inq
            cur += ch
        elif ch == "," and not inq:
            parts.append(cur)
            cur = ""
        else:
            cur += ch
    parts.append(cur)
    for p in parts:
        if "=" in p:
            k, v = p.split("=", 1)
            out[k] = v.strip('"')
    return out


class Header:
    def __init__(self, lines):
        self.lines = lines
        self.info, self.format, self.filters, self.contigs = {}, {}, {}, {}
        self.samples = []
        self.meta = {}
        for ln in lines:
            m = _META.match(ln)
            if m:
                d = _split_meta(m.group(2))
                kind = m.group(1)
                if kind == "INFO":
                    self.info[d["ID"]] = d
                elif kind == "FORMAT":
                    self.format[d["ID"]] = d
                elif kind == "FILTER":
                    self.filters[d["ID"]] = d
                else:
                    self.contigs[d["ID"]] = d
            elif ln.startswith("#CHROM"):
                cols = ln.rstrip("\n").split("\t")
                self.samples = cols[9:]
                self.columns = cols
            elif ln.startswith("##") and "=" in ln:
                k, v = ln[2:].split("=", 1)
                self.meta.setdefault(k, []).append(v)


class Record:
    def __init__(self, line, header):
        self.line = line
        f = line.rstrip("\n").split("\t")
        self.fields = f
        self.chrom, self.pos, self.id, self.ref = f[0], int(f[1]), f[2], f[3]
        self.alts = [] if f[4] == "." else f[4].split(",")
        self.qual, self.filter = f[5], f[6]
        self.info = {}
        self.info_order = []
        if len(f) > 7 and f[7] != ".":
            for item in f[7].split(";"):
                if "=" in item:
                    k, v = item.split("=", 1)
                    self.info[k] = v
                else:
                    self.info[item] = True
                self.info_order.append(item.split("=", 1)[0])
        self.format = f[8].split(":") if len(f) > 8 else []
        self.samples = {}
        for name, col in zip(header.samples, f[9:]):
            vals = col.split(":")
            self.samples[name] = dict(zip(self.format, vals))
        self.n_sample_cols = len(f) - 9

    @property
    def n_alleles(self):
        return 1 + len(self.alts)

    def info_list(self, key, conv=float):
        v = self.info.get(key)
        if v is None or v is True:
            return None
        return [None if x == "." else conv(x) for x in v.split(",")]

    def sample_list(self, sample, key, conv=float):
        v = self.samples[sample].get(key)
        if v is None:
            return None
        return [None if x == "." else conv(x) for x in v.split(",")]

    def gt(self, sample):
        """list of allele indices (None for '.'), phased flag"""
        v = self.samples[sample].get("GT")
        if v is None:
            return None, False
        phased = "|" in v
        toks = re.split(r"[/|]", v)
        return [None if t == "." else int(t) for t in toks], phased


def parse(text):
    lines = text.splitlines()
    head = [l for l in lines if l.startswith("#")]
    body = [l for l in lines if l and not l.startswith("#")]
    h = Header(head)
    return h, [Record(l, h) for l in body]


def expected_count(number, n_alleles, ploidy):
    if number == "A":
        return n_alleles - 1
    if number == "R":
        return n_alleles
    if number == "G":
        return math.comb(n_alleles + ploidy - 1, ploidy)
    if number == ".":
        return None
    return int(number)


def check_record_wellformed(rec, header, allow_missing_vector=True):
    """Generic structural checks.  Returns list of (mechanism, message)."""
    errs = []
    if len(rec.fields) != 9 + len(header.samples):
        errs.append(("record-column-count-wrong", "record has %d columns, header declares %d samples" % (len(rec.fields), len(header.samples))))
        return errs
    for k, v in rec.info.items():
        if k not in header.info:
            errs.append(("undeclared-info-key", "INFO key %s not declared" % k))
            continue
        d = header.info[k]
        if d["Number"] == "0":
            if v is not True:
                errs.append(("info-cardinality-wrong", "flag %s has a value" % k))
            continue
        if v is True:
            errs.append(("info-cardinality-wrong", "INFO %s declared Number=%s but is a flag" % (k, d["Number"])))
            continue
        n = len(v.split(","))
        want = expected_count(d["Number"], rec.n_alleles, 0) if d["Number"] != "G" else None
        if want is not None and n != want and not (allow_missing_vector and v == "."):
            errs.append(("info-cardinality-wrong", "INFO %s has %d values, Number=%s needs %d (n_alleles %d)" % (k, n, d["Number"], want, rec.n_alleles)))
        errs += _type_errors("INFO", k, d, v)
    for key in rec.format:
        if key not in header.format:
            errs.append(("undeclared-format-key", "FORMAT key %s not declared" % key))
    if rec.format and rec.format[0] != "GT" and "GT" in rec.format:
        errs.append(("gt-not-first-format-key", "GT must be the first FORMAT key"))
    for s in header.samples:
        vals = rec.samples.get(s, {})
        if len(rec.fields[9 + header.samples.index(s)].split(":")) != len(rec.format):
            errs.append(("sample-field-count-wrong", "sample %s has %d fields for %d FORMAT keys" % (s, len(rec.fields[9 + header.samples.index(s)].split(":")), len(rec.format))))
            continue
        gt, _ = rec.gt(s)
        ploidy = len(gt) if gt else 0
        for key in rec.format:
            if key not in header.format or key == "GT":
                continue
            d = header.format[key]
            v = vals[key]
            n = len(v.split(","))
            want = expected_count(d["Number"], rec.n_alleles, ploidy)
            if want is not None and n != want and not (allow_missing_vector and v == "."):
                errs.append(("format-cardinality-wrong", "sample %s FORMAT %s has %d values, Number=%s needs %d (n_alleles %d, ploidy %d)" % (s, key, n, d["Number"], want, rec.n_alleles, ploidy)))
            errs += _type_errors("FORMAT", key, d, v)
        if gt is not None:
            for a in gt:
                if a is not None and not (0 <= a < rec.n_alleles):
                    errs.append(("gt-allele-not-listed", "sample %s GT %s uses allele %s of %d" % (s, vals.get("GT"), a, rec.n_alleles)))
            called = [a for a in gt if a is not None]
            if called != sorted(called):
                errs.append(("gt-not-sorted", "sample %s GT %s is not sorted" % (s, vals.get("GT"))))
            seen_missing = False
            for a in gt:
                if a is None:
                    seen_missing = True
                elif seen_missing:
                    errs.append(("gt-missing-allele-not-last", "sample %s GT %s has '.' before a called allele" % (s, vals.get("GT"))))
                    break
    return errs


def _type_errors(where, key, d, v):
    errs = []
    if v is True:
        return errs
    typ = d.get("Type")
    for tok in v.split(","):
        if tok == ".":
            continue
        try:
            if typ == "Integer":
                int(tok)
            elif typ == "Float":
                x = float(tok)
                if tok.lower() in ("nan", "inf", "-inf") or x != x:
                    errs.append(("non-numeric-token", "%s %s token %r" % (where, key, tok)))
        except ValueError:
            errs.append(("value-type-wrong", "%s %s token %r is not %s" % (where, key, tok, typ)))
    return errs
