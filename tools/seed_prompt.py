#!/usr/bin/env python3
"""tools/seed_prompt.py <Cxx> <worktree>  - prints the prompt handed to a fresh sub-agent for one seeded change.

The prompt holds ONLY the property text, the names of earlier seeded changes for that property (to avoid repeats) and
the path of the agent's own scratch worktree; nothing about /verif's checks."""
import json
import os
import sys

HERE = os.path.dirname(os.path.dirname(os.path.abspath(__file__)))


def main():
    pid, wt = sys.argv[1], sys.argv[2]
    prop = None
    for line in open(os.path.join(HERE, "properties.jsonl")):
        d = json.loads(line)
        if d["id"] == pid:
            prop = d
    earlier = []
    for name in sorted(os.listdir(os.path.join(HERE, "seeded"))):
        if name.startswith(pid):
            earlier.append(name.split("-", 1)[1].replace("-", " "))
    print(f"""You are helping to test a verification effort for the open-source project MCHap (PlantandFoodResearch/MCHap: numba-jitted Python MCMC and exact Bayesian samplers for polyploid micro-haplotype assembly and genotype calling). Your job is to write ONE realistic, subtle change to MCHap's source that BREAKS the semantic property below while everything still compiles/imports and the project's existing test suite still passes - the kind of regression a well-meaning refactor, optimisation or "clean-up" could introduce and code review could miss.

Your own scratch git worktree of the repository is at: {wt}
Work ONLY inside that directory (and /tmp scratch files of your own). Never touch /repo or /verif, and do not read anything under /verif.

THE PROPERTY (id {pid}):
{json.dumps(prop, indent=1)}

REQUIREMENTS FOR THE CHANGE
1. It must make the property false for some inputs, in the real shipped code paths (mchap/ non-test sources). Do not edit tests.
2. It must need something SPECIFIC to manifest - e.g. a particular unusual input class, a boundary value, a multi-step sequence of operations / object history, a particular option combination, a fault at a particular point, or two cooperating code sites that each look fine alone. It must NOT be exposed at once by ordinary use with typical inputs. Prefer a small diff (a few lines to ~40 lines) that reads as a plausible refactor/optimisation.
3. The existing test suite must still pass with your change: same results as without it. Baseline: 1203 tests pass, and exactly 4 tests fail ALREADY on the unchanged tree (3 help-text tests in test_docs and mchap/tests/test_jitutils.py::test_comb[0-0]); those 4 may keep failing, nothing else may fail.
4. Be DIFFERENT in mechanism from these earlier changes already made for this property (names only): {"; ".join(earlier) if earlier else "(none)"}.
5. Provide a demonstration: a pytest file `demo_test.py` (or a small program `demo.py` exiting non-zero on failure) that PASSES on the unchanged tree and FAILS with your change, exercising the real code (function-level or via the programs' `program.cli(argv).run_stdout()`), and asserting what the property states (not merely "output differs from before").

ENVIRONMENT FACTS (important)
- Use the interpreter /venv/bin/python (mchap is pip-installed editable from /repo there; to run YOUR tree put it first on PYTHONPATH): e.g.
    cd {wt} && NUMBA_CACHE_DIR={wt}/.nbcache PYTHONPATH={wt} /venv/bin/python -m pytest -q -p no:cacheprovider -n 4 --timeout=3000 mchap/tests/...
  Verify with `python -c "import mchap; print(mchap.__file__)"` that your tree is the one imported.
- NUMBA CACHE TRAP: all kernels are @njit(cache=True) and numba invalidates a cached function only when ITS OWN file changes, so callers compiled earlier keep running OLD callee code. After every source edit delete the cache directory (rm -rf {wt}/.nbcache) or use a fresh NUMBA_CACHE_DIR, otherwise you will test stale code. Always set NUMBA_CACHE_DIR to a directory inside your worktree; never let it default.
- A full-suite run takes ~10 min on one core (use -n 4); importing mchap.application.cli costs ~8 s. No network, no samtools/bcftools binaries (use pysam if you need BAM/VCF files). The machine is shared with other jobs: be patient with timeouts.
- To compare against the unchanged code NEVER use `git stash` (the stash is shared by every worktree of the repository and other agents work in sibling worktrees); use `git -C {wt} diff -- mchap > {wt}/my.diff; git -C {wt} checkout -- mchap; <run>; git -C {wt} apply {wt}/my.diff` (and delete the numba cache after each switch).

DELIVERABLES (write them into {wt}/SEEDED/):
- patch.diff  : `git -C {wt} diff -- mchap` output of your final change (source files only; apply-able with `git apply` / `patch -p1` on the unchanged tree)
- demo_test.py (or demo.py): the demonstration
- NOTES.md : 10-30 lines: what the change is, why it breaks the property, exactly what it needs in order to manifest, which tests you ran (with and without the change) and their results.
Leave the worktree with your change applied. In your final message give: a one-line name for the change, what it needs to manifest, and the test results. Do not claim success unless you ran the demo both ways and the relevant tests (ideally the whole suite) with the change.""")


if __name__ == "__main__":
    main()
