"""C17 - the pedigree inheritance model is a proper probability distribution.

Monitor: return values of the compiled trio_log_pmf / gamete_log_pmf / trio_valid / duo_valid over
enumerated inputs.  Oracle: brute-force gamete model (vlib.oracles.pedigree): sums to one, equality,
and with zero parent-error positivity iff the Mendelian validity test passes.
"""

import itertools
import math

import numpy as np

from vlib import gen
from vlib.oracles import pedigree as P

ID = "C17"
TECHNIQUE = "runtime monitoring: compiled trio/gamete pmf and validity kernels observed over enumerated progeny genotype spaces; brute-force gamete-model oracle, sum-to-one and positivity-iff-valid monitors"
LEVEL = "exploration"
LEVEL_TEXT = (
    "Exploration with exhaustive inner loops: for thousands of generated edge configurations (2-4 alleles, parent/progeny "
    "ploidy 2/4/6 plus triploids, balanced, unbalanced and clonal tau pairs, lambda on diploid gametes, error in "
    "{0,0.01,0.5,1} and random, known/unknown parents, flat/skewed frequencies, every parent genotype pair of the small spaces) "
    "the real pmf is observed on EVERY unordered progeny genotype: it sums to one, equals the brute-force model, and with "
    "zero error is positive exactly when trio_valid/duo_valid pass; gamete pmfs are observed on every gamete and sum to one."
)
LEVEL_TEXT += ' Session 3: the kernels are called with scratch arrays holding garbage and extra padding (as the sampler does); validity on clonal edges; single-parent shapes that pass on fewer copies than the parent has; and PEDERR itself - PedigreeAllelesMultiTrace.incongruence over generated mixed-ploidy traces - equals the fraction of steps whose zero-error probability is zero.'
LEVEL_TEXT += ' Session 4: a blanket kind - the probability as the program evaluates it, through the pedigree arrays and markov_blanket_log_probability / generic_markov_blanket_log_probability for individuals without progeny: sums to one over all genotypes and equals the gamete model, with any user error rate (0 included) on unknown-parent edges.'
LEVEL_NOTE = "Trusts the brute-force oracle in vlib/oracles/pedigree.py (subset enumeration of parental copies); tolerance 1e-9."
RULE = (
    "case = one (parents, ploidies, tau, lambda, error, frequencies) configuration with all its progeny genotypes enumerated; "
    "non-trivial = at least one known parent; distinct by hash of the configuration"
)
ASSUMPTIONS = ["allele frequencies strictly positive", "lambda > 0 only on diploid gametes (the kernels raise otherwise)"]
TOL = 1e-9
STATS = {"dirty_scratch_calls": 0, "extra_padding_calls": 0, "unsorted_genotype_calls": 0}

SHAPES = [
    # (ploidy_p, ploidy_q, tau_p, tau_q)
    (2, 2, 1, 1), (4, 4, 2, 2), (6, 6, 3, 3), (4, 2, 2, 1), (2, 4, 1, 2), (6, 4, 3, 2), (6, 2, 3, 1),
    (4, 4, 3, 1), (4, 4, 1, 3), (4, 2, 3, 1), (2, 2, 2, 2), (2, 2, 2, 1), (4, 6, 1, 3), (6, 6, 2, 4),
    (4, 4, 0, 4), (4, 4, 4, 0), (2, 2, 0, 2), (2, 4, 0, 4), (4, 2, 2, 2), (6, 6, 2, 2), (6, 4, 2, 2),
    # one contributing parent that passes on FEWER copies than it has (dihaploid of a tetraploid, trihaploid of a hexaploid ...)
    (4, 4, 2, 0), (4, 4, 0, 2), (6, 6, 3, 0), (4, 6, 0, 3), (6, 4, 0, 2), (4, 2, 0, 1), (2, 4, 0, 2), (6, 6, 0, 2), (4, 4, 0, 3), (4, 4, 1, 0),
]


def plan(tier, seed):
    n = 16
    per = 6000 if tier == "quick" else 40000
    specs = [{"name": "s%02d" % i, "shard": i, "cases": per, "timeout": 7000} for i in range(n)]
    specs += [{"name": "pederr%d" % i, "kind": "pederr", "shard": i, "cases": 60 if tier == "quick" else 600, "timeout": 7000} for i in range(4)]
    # session 4: the probability as the PROGRAM evaluates it - through the pedigree arrays and the Markov-blanket wrappers the sampler calls
    specs += [{"name": "blanket%d" % i, "kind": "blanket", "shard": 30 + i, "cases": 200 if tier == "quick" else 1500, "timeout": 7000} for i in range(4)]
    return specs


def required(tier):
    return {"trio_configs": 3000, "progeny_evaluated": 30000, "sum_to_one_checked": 3000, "validity_checked": 5000,
            "gamete_sums": 1000, "configs_unbalanced": 300, "configs_lambda": 300, "configs_clonal": 100,
            "configs_unknown_parent": 300, "configs_zero_error": 300, "invalid_trios_seen": 300,
            "dirty_scratch_calls": 5000, "extra_padding_calls": 5000, "unsorted_genotype_calls": 5000,
            "blanket_sum_to_one_checked": 200, "blanket_sums_with_unknown_parent": 60, "blanket_sums_unknown_parent_edge_error_zero": 8,
            "configs_single_parent_partial_transmission": 300, "pederr_traces_checked": 150, "pederr_steps_decided": 5000, "pederr_traces_parent_ploidy_above_progeny": 40, "pederr_traces_with_valid_and_invalid_steps": 40}


def make_case(rng):
    n = int(rng.choice([2, 3, 3, 4]))
    pp, pq, tp, tq = SHAPES[int(rng.integers(len(SHAPES)))]
    if n == 4 and max(pp, pq) == 6 and rng.random() < 0.5:
        n = 3
    freqs = np.full(n, 1.0 / n) if rng.random() < 0.4 else np.maximum(rng.dirichlet(np.ones(n) * 0.8), 1e-3)
    freqs = freqs / freqs.sum()
    par_p = tuple(sorted(int(a) for a in rng.integers(0, n, size=pp)))
    par_q = tuple(sorted(int(a) for a in rng.integers(0, n, size=pq)))
    unk = rng.random()
    known_p, known_q = True, True
    if unk < 0.12:
        known_p = False
    elif unk < 0.24:
        known_q = False
    elif unk < 0.28:
        known_p = known_q = False
    lam_p = float(rng.choice([0, 0, 0.1, 0.5, 0.99])) if tp == 2 else 0.0
    lam_q = float(rng.choice([0, 0, 0.1, 0.5, 0.99])) if tq == 2 else 0.0
    ech = [0.0, 0.0, 0.01, 0.5, 1.0, float(rng.uniform(0, 1))]
    err_p = float(ech[int(rng.integers(len(ech)))])
    err_q = float(ech[int(rng.integers(len(ech)))])
    if rng.random() < 0.3:
        err_p = err_q = 0.0
    selfing = bool(rng.random() < 0.1 and pp == pq)
    if selfing:
        par_q = par_p
    return dict(n=n, freqs=freqs.tolist(), par_p=list(par_p), par_q=list(par_q), known_p=known_p, known_q=known_q,
                tau_p=tp, tau_q=tq, lam_p=lam_p, lam_q=lam_q, err_p=err_p, err_q=err_q)


def kernel_trio(K, c, progeny):
    """One call of the compiled trio pmf.  The sampler hands the kernel scratch arrays it has used before (never zeroed
    between calls) and genotype arrays padded to the widest ploidy of the pedigree, so half of the calls here get scratch
    arrays holding garbage and up to three extra padding slots; the choice is a function of the case, hence reproducible."""
    import zlib

    ploidy = c["tau_p"] + c["tau_q"]
    h = zlib.crc32(repr((c["par_p"], c["par_q"], c["tau_p"], c["tau_q"], c["err_p"], tuple(progeny))).encode())
    mp = max(ploidy, len(c["par_p"]), len(c["par_q"])) + (h % 4 if (h >> 3) & 1 else 0)

    def pad(g):
        a = np.full(mp, -1, dtype=np.int16)
        a[: len(g)] = g
        return a

    if (h >> 4) & 1:
        r = np.random.default_rng(h)
        sc = [r.integers(-3, 9, size=mp).astype(np.int64) for _ in range(7)]
        dlf = r.normal(size=mp) * 5
        STATS["dirty_scratch_calls"] += 1
    else:
        sc = [np.zeros(mp, dtype=np.int64) for _ in range(7)]
        dlf = np.zeros(mp, dtype=np.float64)
    if mp > max(ploidy, len(c["par_p"]), len(c["par_q"])):
        STATS["extra_padding_calls"] += 1
    progeny, par_p, par_q = list(progeny), list(c["par_p"]), list(c["par_q"])
    if (h >> 5) & 1:
        # the sampler's state rows are not sorted: the pmf is a function of the three genotypes as multisets
        r2 = np.random.default_rng(h + 1)
        progeny = [progeny[k] for k in r2.permutation(len(progeny))]
        par_p = [par_p[k] for k in r2.permutation(len(par_p))]
        par_q = [par_q[k] for k in r2.permutation(len(par_q))]
        STATS["unsorted_genotype_calls"] += 1
    return float(K["trio_log_pmf"](
        pad(progeny), pad(par_p), pad(par_q),
        len(c["par_p"]) if c["known_p"] else 0, len(c["par_q"]) if c["known_q"] else 0,
        c["tau_p"], c["tau_q"], c["lam_p"], c["lam_q"],
        c["err_p"] if c["known_p"] else 1.0, c["err_q"] if c["known_q"] else 1.0,
        np.log(np.array(c["freqs"])), sc[0], sc[1], sc[2], sc[3], sc[4], sc[5], sc[6], dlf))


def check_case(c, col, K, sample=False):
    n = c["n"]
    ploidy = c["tau_p"] + c["tau_q"]
    ep = c["err_p"] if c["known_p"] else 1.0
    eq = c["err_q"] if c["known_q"] else 1.0
    want = P.progeny_pmf(tuple(c["par_p"]) if c["known_p"] else None, tuple(c["par_q"]) if c["known_q"] else None,
                         c["tau_p"], c["tau_q"], c["lam_p"], c["lam_q"], ep, eq, c["freqs"])
    col.count("trio_configs")
    if c["tau_p"] != c["tau_q"] and c["tau_p"] and c["tau_q"]:
        col.count("configs_unbalanced")
    if c["lam_p"] > 0 or c["lam_q"] > 0:
        col.count("configs_lambda")
    if c["tau_p"] == 0 or c["tau_q"] == 0:
        col.count("configs_clonal")
        if (c["tau_p"] and c["tau_p"] < len(c["par_p"])) or (c["tau_q"] and c["tau_q"] < len(c["par_q"])):
            col.count("configs_single_parent_partial_transmission")
    if not (c["known_p"] and c["known_q"]):
        col.count("configs_unknown_parent")
    zero_err = (ep == 0.0 or c["tau_p"] == 0) and (eq == 0.0 or c["tau_q"] == 0)
    # effective "no error anywhere a parent matters"
    if zero_err:
        col.count("configs_zero_error")
    probs = []
    gs = list(itertools.combinations_with_replacement(range(n), ploidy))
    nbad = 0
    for g in gs:
        lp = kernel_trio(K, c, g)
        col.count("progeny_evaluated")
        p = 0.0 if lp == -math.inf else math.exp(lp)
        probs.append(p)
        w = want.get(g, 0.0)
        col.maxv("max_pmf_error", abs(p - w))
        if (math.isnan(lp) or abs(p - w) > TOL) and nbad < 2:
            nbad += 1
            col.violation("trio-pmf-differs-from-gamete-model", "P(progeny %s)=%.12g but brute-force model gives %.12g" % (g, p, w), {"case": c, "progeny": list(g)})
        # validity (defined for edges without error)
        if zero_err:   # clonal edges (tau 0 on one side) included: the validity test is then decided by the other parent alone
            ga = np.array(g, dtype=np.int16)
            if c["known_p"] and c["known_q"]:
                v = bool(K["trio_valid"](ga, np.array(c["par_p"], dtype=np.int16), np.array(c["par_q"], dtype=np.int16),
                                         c["tau_p"], c["tau_q"], c["lam_p"], c["lam_q"]))
            elif c["known_p"]:
                v = bool(K["duo_valid"](ga, np.array(c["par_p"], dtype=np.int16), c["tau_p"], c["lam_p"]))
            elif c["known_q"]:
                v = bool(K["duo_valid"](ga, np.array(c["par_q"], dtype=np.int16), c["tau_q"], c["lam_q"]))
            else:
                v = True
            col.count("validity_checked")
            if c["tau_p"] == 0 or c["tau_q"] == 0:
                col.count("validity_checked_clonal_edge")
            if not v:
                col.count("invalid_trios_seen")
            if v != (p > 0):
                col.violation("positivity-disagrees-with-validity-test", "zero-error pmf of progeny %s is %.6g but validity test says %s (oracle pmf %.6g)" % (g, p, v, w),
                              {"case": c, "progeny": list(g)})
    tot = math.fsum(probs)
    col.count("sum_to_one_checked")
    col.maxv("max_sum_error", abs(tot - 1))
    if abs(tot - 1) > TOL:
        col.violation("trio-pmf-does-not-sum-to-one", "sum over %d progeny genotypes = %.12g" % (len(gs), tot), {"case": c})
    if sample:
        col.sample({"case": c, "progeny_genotypes": [list(g) for g in gs], "pmf_observed": probs})


def check_gametes(c, col, K):
    """gamete pmf sums to one over all gametes and equals subset enumeration."""
    for par, tau, lam in ((c["par_p"], c["tau_p"], c["lam_p"]), (c["par_q"], c["tau_q"], c["lam_q"])):
        if tau == 0:
            continue
        want = P.gamete_from_parent(tuple(par), tau, lam)
        alleles = sorted(set(par))
        tot = []
        for ms in itertools.combinations_with_replacement(alleles, tau):
            uniq = sorted(set(ms))
            gd = np.array([ms.count(a) for a in uniq], dtype=np.int64)
            pd = np.array([par.count(a) for a in uniq], dtype=np.int64)
            lp = float(K["gamete_log_pmf"](gd, tau, pd, len(par), lam))
            p = 0.0 if lp == -math.inf else math.exp(lp)
            tot.append(p)
            w = want.get(tuple(ms), 0.0)
            if abs(p - w) > TOL:
                col.violation("gamete-pmf-differs-from-model", "P(gamete %s | parent %s, lambda %g)=%.12g want %.12g" % (ms, par, lam, p, w),
                              {"case": c, "gamete": list(ms)})
        s = math.fsum(tot)
        col.count("gamete_sums")
        if abs(s - 1) > TOL:
            col.violation("gamete-pmf-does-not-sum-to-one", "gametes of parent %s tau %d lambda %g sum to %.12g" % (par, tau, lam, s), {"case": c})


def kernels():
    from mchap.pedigree.prior import gamete_log_pmf, trio_log_pmf
    from mchap.pedigree.validation import duo_valid, trio_valid

    return {"trio_log_pmf": trio_log_pmf, "gamete_log_pmf": gamete_log_pmf, "trio_valid": trio_valid, "duo_valid": duo_valid}


def exhaustive_small(col, K, shard):
    """All parent genotype pairs for the small spaces (spread over shards)."""
    cfgs = []
    for n in (2, 3):
        for (pp, pq, tp, tq) in [(2, 2, 1, 1), (4, 4, 2, 2), (4, 2, 2, 1), (4, 4, 3, 1), (4, 4, 0, 4)]:
            if n == 3 and pp + pq > 6:
                continue
            for gp in itertools.combinations_with_replacement(range(n), pp):
                for gq in itertools.combinations_with_replacement(range(n), pq):
                    for (lp, lq) in ((0.0, 0.0), (0.3, 0.3)):
                        if (lp and tp != 2) or (lq and tq != 2):
                            continue
                        for e in (0.0, 0.2):
                            cfgs.append(dict(n=n, freqs=[1.0 / n] * n, par_p=list(gp), par_q=list(gq), known_p=True, known_q=True,
                                             tau_p=tp, tau_q=tq, lam_p=lp, lam_q=lq, err_p=e, err_q=e))
    for i, c in enumerate(cfgs):
        if i % 16 != shard:
            continue
        col.case(c, nontrivial=True)
        col.count("exhaustive_parent_pair_configs")
        check_case(c, col, K)



def run_pederr(tier, seed, spec, col):
    """PEDERR as the program computes it (PedigreeAllelesMultiTrace.incongruence over a whole trace) against the same
    statement: a step counts as a pedigree error exactly when the zero-error probability of the progeny genotype given its
    parents is zero.  Pedigrees of mixed ploidy (parents with more copies than their progeny and vice versa), unbalanced and
    clonal gametes, double reduction, unknown parents; genotype rows padded with -1 to the widest ploidy, stored sorted (as the
    sampler emits them) or in arbitrary order."""
    from mchap.pedigree.classes import PedigreeAllelesMultiTrace

    from vlib import pedgen

    names = ["mixed_4x2_3", "mixed_2x4_3", "unreduced", "mixed_6x4_5", "mixed_then_child", "random", "trio4", "unbalanced31", "clone", "halfsibs",
             "threegen", "random", "duo4", "selfing4", "backcross4", "duo6"]
    for i in range(spec["cases"]):
        rng = gen.rng_for(seed, ID, 900 + spec["shard"], i)
        I = pedgen.make_pedigree(rng, names[(spec["shard"] + i) % len(names)])
        ploidy, parents, tau, lam = I["ploidy"], I["parents"], I["tau"], I["lam"]
        n, mp, n_h = len(ploidy), int(ploidy.max()), len(I["haps"])
        tc = P.TrioCache(np.full(n_h, 1.0 / n_h))
        chains, steps = int(rng.integers(1, 3)), int(rng.integers(5, 40))
        T = np.full((chains, steps, n, mp), -1, dtype=np.int16)
        order = [x for x in range(n)]
        # parents before progeny so that progeny can be drawn from their parents' alleles (valid trios are then common)
        order.sort(key=lambda x: (parents[x] >= 0).sum())
        done = set()
        todo = list(range(n))
        while todo:
            for x in list(todo):
                if all(p < 0 or p in done for p in parents[x]):
                    for c in range(chains):
                        for t in range(steps):
                            row = []
                            for side in (0, 1):
                                p_, k = int(parents[x, side]), int(tau[x, side])
                                if p_ >= 0 and rng.random() < 0.8:
                                    src = [int(a) for a in T[c, t, p_, : ploidy[p_]]]
                                    row += [src[int(j)] for j in rng.integers(0, len(src), size=k)] if (lam[x, side] > 0 or k > len(src)) else [src[int(j)] for j in rng.permutation(len(src))[:k]]
                                else:
                                    row += [int(a) for a in rng.integers(0, n_h, size=k)]
                            row = row[: ploidy[x]] + [int(a) for a in rng.integers(0, n_h, size=max(0, int(ploidy[x]) - len(row)))]
                            T[c, t, x, : ploidy[x]] = row
                    done.add(x)
                    todo.remove(x)
        sorted_rows = bool(rng.random() < 0.5)
        for c in range(chains):
            for t in range(steps):
                for x in range(n):
                    r = T[c, t, x, : ploidy[x]]
                    T[c, t, x, : ploidy[x]] = np.sort(r) if sorted_rows else r[rng.permutation(len(r))]
        want = np.zeros(n)
        for c in range(chains):
            for t in range(steps):
                for x in range(n):
                    p_, q_ = int(parents[x, 0]), int(parents[x, 1])
                    if p_ < 0 and q_ < 0:
                        continue
                    gp = tuple(int(a) for a in T[c, t, p_, : ploidy[p_]]) if p_ >= 0 else None
                    gq = tuple(int(a) for a in T[c, t, q_, : ploidy[q_]]) if q_ >= 0 else None
                    g = tuple(int(a) for a in T[c, t, x, : ploidy[x]])
                    pr = tc.prob(g, gp, gq, int(tau[x, 0]), int(tau[x, 1]), float(lam[x, 0]), float(lam[x, 1]), 0.0 if p_ >= 0 else 1.0, 0.0 if q_ >= 0 else 1.0)
                    col.count("pederr_steps_decided")
                    if pr <= 0:
                        want[x] += 1
        want /= chains * steps
        case = {"kind": "pederr", "seed": seed, "shard": spec["shard"], "case": i, "scenario": I["name"], "ploidy": ploidy.tolist(), "parents": parents.tolist(), "tau": tau.tolist()}
        col.case("PEDERR|%d|%d" % (spec["shard"], i), nontrivial=True)
        col.count("pederr_traces_checked")
        known = [(int(p_), int(q_)) for p_, q_ in parents]
        if any((p_ >= 0 and ploidy[p_] > ploidy[x]) or (q_ >= 0 and ploidy[q_] > ploidy[x]) for x, (p_, q_) in enumerate(known)):
            col.count("pederr_traces_parent_ploidy_above_progeny")
        if (want > 0).any() and (want < 1).any():
            col.count("pederr_traces_with_valid_and_invalid_steps")
        try:
            got = np.asarray(PedigreeAllelesMultiTrace(T.copy(), n_allele=n_h).incongruence(ploidy, parents, tau, lam), dtype=float)
        except Exception as ex:  # noqa: BLE001
            col.violation("pederr-computation-raises", "[%s] incongruence() raised %r" % (I["name"], ex), case)
            continue
        bad = [x for x in range(n) if abs(got[x] - want[x]) > 1e-12]
        if bad:
            x = bad[0]
            col.violation("pederr-differs-from-zero-error-positivity", "[%s, rows %s] sample %d (ploidy %d, parents %s of ploidy %s, tau %s): PEDERR %.6g but the zero-error probability is zero in a fraction %.6g of the steps"
                          % (I["name"], "sorted" if sorted_rows else "unsorted", x, ploidy[x], known[x], [int(ploidy[p_]) if p_ >= 0 else None for p_ in known[x]], tau[x].tolist(), got[x], want[x]), case)

def run_blanket(tier, seed, spec, col):
    """Individuals without progeny: their Markov blanket holds only their own inheritance term, so the wrapper's value over all
    their genotypes is the distribution the property is about - it must sum to one (unknown parents, user error rates of any
    value on unknown edges included) and equal the brute-force model; with zero error it is positive iff the oracle's is."""
    import itertools

    from mchap.pedigree import prior as PP

    from vlib import pedgen

    for i in range(spec["cases"]):
        rng = gen.rng_for(seed, ID, spec["shard"], i)
        I = pedgen.make_pedigree(rng)
        K = pedgen.Kernels(I)
        J = pedgen.Joint(I)
        n = len(I["ploidy"])
        state = pedgen.random_state(rng, I)
        leaves = [t for t in range(n) if not (K.children[t] >= 0).any()]
        n_all = len(I["freqs"])
        for t in leaves:
            pl = int(I["ploidy"][t])
            if math.comb(n_all + pl - 1, pl) > 400:
                continue
            unknown = int(I["parents"][t, 0] < 0) + int(I["parents"][t, 1] < 0)
            tot, bad = [], None
            for g in itertools.combinations_with_replacement(range(n_all), pl):
                st = state.copy()
                st[t, :pl] = g
                common = dict(sample_genotypes=st, sample_ploidy=I["ploidy"], sample_parents=I["parents"], gamete_tau=I["tau"], gamete_lambda=I["lam"],
                              gamete_error=I["err"], log_frequencies=K.logf, dosage=K.scratch[0], dosage_p=K.scratch[1], dosage_q=K.scratch[2],
                              gamete_p=K.scratch[3], gamete_q=K.scratch[4], constraint_p=K.scratch[5], constraint_q=K.scratch[6], dosage_log_frequencies=K.scratch[7])
                got = float(PP.markov_blanket_log_probability(target_index=t, sample_children=K.children, **common))
                got2 = float(PP.generic_markov_blanket_log_probability(np.array([t], dtype=np.int64), **common))
                want = J.log_T(st, t)
                col.count("blanket_genotypes_evaluated")
                tot.append(math.exp(got) if got > -math.inf else 0.0)
                for nm, v in (("markov_blanket_log_probability", got), ("generic_markov_blanket_log_probability", got2)):
                    if (v == -math.inf) != (want == -math.inf) or (want > -math.inf and abs(v - want) > 1e-9 * max(1.0, abs(want))):
                        bad = "%s(target %d) = %.12g for genotype %s, the inheritance model gives %.12g" % (nm, t, v, list(g), want)
            s_ = math.fsum(tot)
            col.count("blanket_sum_to_one_checked")
            if unknown:
                col.count("blanket_sums_with_unknown_parent")
                if any(I["parents"][t, j] < 0 and I["err"][t, j] != 1.0 for j in range(2)):
                    col.count("blanket_sums_unknown_parent_edge_error_not_one")
                if any(I["parents"][t, j] < 0 and I["err"][t, j] == 0.0 for j in range(2)):
                    col.count("blanket_sums_unknown_parent_edge_error_zero")
            case = {"kind": "blanket", "pedigree": pedgen.pack(I), "target": t}
            col.case("BL|%d|%d|%d" % (spec["shard"], i, t), nontrivial=True)
            if abs(s_ - 1.0) > 1e-9:
                col.violation("program-level-progeny-pmf-does-not-sum-to-one", "individual %d of pedigree %s (parents %s, gamete error %s, tau %s): the probabilities the sampler's blanket function assigns to its %d genotypes sum to %.12g"
                              % (t, I["name"], I["parents"][t].tolist(), I["err"][t].tolist(), I["tau"][t].tolist(), len(tot), s_), case)
            elif bad:
                col.violation("program-level-progeny-pmf-differs-from-gamete-model", bad + " [pedigree %s, parents %s, gamete error %s]" % (I["name"], I["parents"][t].tolist(), I["err"][t].tolist()), case)


def run_shard(tier, seed, spec, col):
    if spec.get("kind") == "pederr":
        return run_pederr(tier, seed, spec, col)
    if spec.get("kind") == "blanket":
        return run_blanket(tier, seed, spec, col)
    K = kernels()
    for i in range(spec["cases"]):
        rng = gen.rng_for(seed, ID, spec["shard"], i)
        c = make_case(rng)
        col.case(c, nontrivial=(c["known_p"] or c["known_q"]))
        check_case(c, col, K, sample=(i == 0 and spec["shard"] == 0))
        if i % 3 == 0:
            check_gametes(c, col, K)
    exhaustive_small(col, K, spec["shard"])
    for k, v in STATS.items():
        col.count(k, v)


def replay(obj, col):
    K = kernels()
    c = obj["case"]["case"]
    check_case(c, col, K)
    check_gametes(c, col, K)
