"""C03 - call-exact reports the true normalised posterior; the streaming and the full-array path agree.

Monitors (return values of the real code, nothing re-implemented on the observed side)
  * streaming path: calling.exact.posterior_mode for every subset of the three return_* flags;
  * array path: genotype_likelihoods (float32) -> genotype_posteriors -> posterior_allele_frequencies,
    alternate_dosage_posteriors, jitutils.index_as_genotype_alleles;
  * program level, no files: application.call_exact.program.call_sample_genotypes on a hand-built
    LocusAssemblyData (LocusPrior + generated read arrays) for eight --report sets on the same reads; the
    sampledata it stores and the FORMAT text of the record it formats.
Oracle: independent float64 enumeration of likelihood x prior over all unordered genotypes in VCF order
(vlib.oracles.model.exact_posterior) and the statistics derived from it in this file.  Never imports mchap.
"""

import itertools
import math

import numpy as np

from vlib import gen
from vlib.oracles import model as M
from vlib.report import digest, unjson_array

ID = "C03"
TECHNIQUE = "runtime monitoring: returns of posterior_mode (all flag subsets), of the genotype_likelihoods/genotype_posteriors/posterior_allele_frequencies/alternate_dosage_posteriors chain and of call-exact's call_sample_genotypes under eight report sets, each decided by an independent float64 posterior enumeration in VCF order"
LEVEL = "exploration"
LEVEL_TEXT = (
    "Exploration: on generated instances (ploidy 1-6, 1-7 haplotypes over 0-6 sites with 2-4 alleles, 0-30 distinct "
    "gapped reads with counts up to 50 (depth up to ~1000), F in [0,1), prior frequencies none/flat/skewed/with zeros, "
    "exact-tie constructions) the values returned by the real streaming path, the real array path and the real "
    "call-exact program method (in process, eight report sets on identical reads) were compared with an independent "
    "enumeration: GT is a maximiser (any maximiser accepted on a tie), GPM/SPM/AFP/ACP/AOP/GP/GL equal the oracle, "
    "float64 results at 1e-9, anything that passed through float32 likelihoods within the propagated single-precision "
    "budget. Held on what was observed; BAM/VCF reading and the command line are outside this check."
)
LEVEL_TEXT += ' Session 3: pooled-sample ploidies 24-256 with 2-3 haplotypes in the function-level cases.'
LEVEL_NOTE = (
    "Trusts the independent model oracle (vlib/oracles/model.py) and the statistics derived from it here. The program "
    "method is driven with a hand-built LocusPrior and read arrays instead of files; the report-set to field mapping "
    "is the program's own parse_report_fields. GQ/SQ (phred of 1-p) are not compared between paths."
)
RULE = (
    "case = one generated instance (ploidy, haplotypes, reads, counts, F, frequencies) pushed through all function-level "
    "monitors, or one (instance, report set) program call; instance classes cycle through random / informative / deep / "
    "no-reads / symmetric-tie / uninformative-deep / zero-frequency / hard-calls / zero-site; non-trivial = at least 3 "
    "genotypes; distinct by hash of the full instance (and report set)"
)
ASSUMPTIONS = [
    "instances whose posterior is undefined (every genotype has zero likelihood x prior) are skipped: the statement is silent",
    "zero-site loci are exercised with the single reference haplotype only",
    "when several genotypes are within the tolerance of the maximum any of them is a correct GT",
    "single-precision budget: relative 4*2^-23*max(|log-likelihood|,|log-joint|) over genotypes with posterior >= 1e-9, plus 1e-6 absolute",
]

EPS32 = 2.0**-23
LN10 = math.log(10.0)
REPORT_SETS = [
    [],
    ["AFP"],
    ["ACP", "AOP"],
    ["GP"],
    ["GL"],
    ["GP", "GL"],
    ["AFP", "ACP", "AOP", "GP", "GL"],
    ["INFO/ACP", "GL"],
]
CLASS_CYCLE = ["random", "informative", "deep", "symmetric", "zerofreq", "random", "noreads", "informative", "deep",
               "uninformative", "symmetric", "zerofreq", "hard", "random", "informative", "zerosite"]


# ---------------------------------------------------------------------------
# plan


def plan(tier, seed):
    n = 16
    inst = 125 if tier == "quick" else 1900
    return [{"name": "s%02d" % i, "shard": i, "instances": inst, "timeout": 1500 if tier == "quick" else 7000} for i in range(n)]


def required(tier):
    k = 1 if tier == "quick" else 10
    req = {
        "function_cases": 1800 * k,
        "stream_calls_all_flag_subsets": 13000 * k,
        "stream_results_checked": 1700 * k,
        "array_posteriors_checked": 1700 * k,
        "array_genotype_probabilities_compared": 60000 * k,
        "alternate_dosage_checked": 3000 * k,
        "path_agreement_checked": 1700 * k,
        "program_calls": 4000 * k,
        "program_samples_checked": 4000 * k,
        "program_pairs_compared": 4000 * k,
        "program_text_records_checked": 4000 * k,
        "tie_cases": 100 * k,
        "zero_prior_allele_cases": 150 * k,
        "deep_cases_depth_ge_300": 150 * k,
        "nan_gap_cases": 500 * k,
        "no_read_cases": 60 * k,
        "inbred_cases": 400 * k,
        "outbred_cases": 300 * k,
        "freq_none_cases": 100 * k,
        "freq_flat_cases": 100 * k,
        "freq_skewed_cases": 100 * k,
        "zero_site_cases": 30 * k,
        "partial_zero_likelihood_cases": 30 * k,
    }
    for p in range(1, 7):
        req["ploidy_%d_cases" % p] = 100 * k
    req["ploidy_above_20_cases"] = 20 * k
    for h in range(1, 8):
        req["haplotypes_%d_cases" % h] = 40 * k
    return req


# ---------------------------------------------------------------------------
# instance generation


def _n_alleles(rng, n_pos):
    return rng.choice([2, 3, 4], size=n_pos, p=[0.55, 0.3, 0.15]).astype(int)


def _counts(rng, n_reads, mode):
    if mode == "none":
        return None
    if mode == "ones":
        return np.ones(n_reads, dtype=np.int64)
    if mode == "small":
        return rng.integers(1, 4, size=n_reads).astype(np.int64)
    return rng.integers(1, 51, size=n_reads).astype(np.int64)


def _nucl(n_alleles):
    return int(max(2, n_alleles.max())) if len(n_alleles) else 2


def _reads(rng, kind, haps, n_alleles, ploidy, n_reads):
    n_nucl = _nucl(n_alleles)
    n_pos = len(n_alleles)
    if n_reads == 0:
        return np.zeros((0, n_pos, n_nucl), dtype=float)
    gap = float(rng.choice([0.0, 0.2, 0.5]))
    if kind == "informative":
        truth = haps[rng.integers(0, len(haps), size=ploidy)]
        r = gen.gen_reads_from_haps(rng, truth, n_reads, n_alleles, n_nucl=n_nucl, gap_rate=gap,
                                    err=float(rng.choice([0.0024, 0.01, 0.1])))
    elif kind == "hard":
        truth = haps[rng.integers(0, len(haps), size=ploidy)]
        r = gen.gen_reads_from_haps(rng, truth, n_reads, n_alleles, n_nucl=n_nucl, gap_rate=gap, err=0.0, flip=0.0)
    elif kind == "uninformative":
        r = np.zeros((n_reads, n_pos, n_nucl))
        for j, na in enumerate(n_alleles):
            r[:, j, :na] = 1.0 / na
        r[rng.random((n_reads, n_pos)) < gap] = np.nan
    else:
        r = gen.gen_reads(rng, n_reads, n_alleles, n_nucl=n_nucl, gap_rate=gap, style=str(rng.choice(["mchap", "mchap", "dirichlet"])))
    if n_reads >= 2 and rng.random() < 0.15:
        r[int(rng.integers(n_reads))] = np.nan  # a read that covers no variant
    return r


def _symmetric(rng):
    """Biallelic sites, haplotype set / reads / frequencies closed under complementing every site: exact ties."""
    ploidy = int(rng.integers(1, 7))
    n_pos = int(rng.integers(1, 5))
    n_alleles = np.full(n_pos, 2)
    allh = gen.all_haplotypes(n_alleles)
    reps = [h for h in allh if h[0] == 0 and any(h)]  # one representative per complement pair, except (0..0, 1..1)
    m = int(rng.integers(0, min(2, len(reps)) + 1))
    pick = [reps[i] for i in rng.permutation(len(reps))[:m]]
    rest = [tuple(1 for _ in range(n_pos))]
    for h in pick:
        rest += [h, tuple(1 - a for a in h)]
    rest = [rest[i] for i in rng.permutation(len(rest))]
    haps = np.array([tuple([0] * n_pos)] + rest, dtype=np.int8).reshape(len(rest) + 1, n_pos)
    comp = [int(np.where((haps == 1 - haps[i]).all(axis=1))[0][0]) for i in range(len(haps))]
    k = int(rng.integers(0, 9))
    base = gen.gen_reads(rng, k, n_alleles, n_nucl=2, gap_rate=float(rng.choice([0.0, 0.3])), style=str(rng.choice(["mchap", "dirichlet"])))
    reads = np.concatenate([base, base[:, :, ::-1]], axis=0)
    c = _counts(rng, k, str(rng.choice(["ones", "small", "deep"])))
    counts = np.concatenate([c, c])
    fm = str(rng.choice(["none", "flat", "paired"]))
    if fm == "none":
        freqs = None
    elif fm == "flat":
        freqs = np.full(len(haps), 1.0 / len(haps))
    else:
        f = rng.dirichlet(np.ones(len(haps)))
        f = np.array([f[i] + f[comp[i]] for i in range(len(haps))])
        freqs = f / f.sum()
    F = float(rng.choice([0.0, 0.0, 0.1, 0.5]))
    return dict(ploidy=ploidy, haps=haps, n_alleles=n_alleles, reads=reads, counts=counts, freqs=freqs, F=F, klass="symmetric")


def make_instance(rng, klass):
    if klass == "symmetric":
        return _symmetric(rng)
    ploidy = int(rng.integers(1, 7))
    if klass == "zerosite":
        n_alleles = np.zeros(0, dtype=int)
        haps = np.zeros((1, 0), dtype=np.int8)
        n_reads = int(rng.integers(0, 6))
        reads = np.zeros((n_reads, 0, 2), dtype=float)
        counts = _counts(rng, n_reads, str(rng.choice(["ones", "deep"])))
        freqs = None if rng.random() < 0.5 else np.ones(1)
        return dict(ploidy=ploidy, haps=haps, n_alleles=n_alleles, reads=reads, counts=counts, freqs=freqs, F=gen.gen_inbreeding(rng), klass=klass)
    n_pos = int(rng.integers(1, 7))
    n_alleles = _n_alleles(rng, n_pos)
    want = int(rng.integers(1, 8))
    if rng.random() < 0.12:
        # pooled / high-ploidy genotypes (e.g. three tetraploids pooled) with few haplotypes
        ploidy = int(rng.choice([8, 9, 10, 12, 16]))
        want = int(rng.integers(1, 4)) if ploidy <= 10 else int(rng.integers(1, 3))
        if rng.random() < 0.3:
            # large pools (32 tetraploids = ploidy 128): dose counters and binomials beyond 127 / 255 / the tables
            ploidy = int(rng.choice([24, 32, 48, 63, 64, 65, 100, 127, 128, 129, 200, 256]))
            want = 2 if (ploidy > 64 or rng.random() < 0.6) else 3
    if klass == "zerofreq":
        want = max(want, 2)
    haps, _ = gen.gen_haplotype_set(rng, want, n_pos, n_alleles=n_alleles)
    n = len(haps)
    if klass == "noreads":
        n_reads = 0
    elif klass in ("deep", "uninformative"):
        n_reads = int(rng.integers(8, 31))
    else:
        n_reads = int(rng.integers(0, 31))
    kind = {"deep": "informative", "zerofreq": str(rng.choice(["informative", "random"])), "noreads": "random"}.get(klass, klass)
    reads = _reads(rng, kind, haps, n_alleles, ploidy, n_reads)
    if klass == "noreads" and rng.random() < 0.5:
        reads = np.full((1, n_pos, _nucl(n_alleles)), np.nan)  # depth without information
    if klass in ("deep", "uninformative"):
        cm = "deep"
    else:
        cm = str(rng.choice(["ones", "small", "deep", "none"], p=[0.35, 0.3, 0.25, 0.1]))
    counts = _counts(rng, len(reads), cm)
    if klass == "zerofreq" and n >= 2:
        freqs = gen.gen_frequencies(rng, n, "zeros")
    elif klass == "noreads":
        freqs = gen.gen_frequencies(rng, n, str(rng.choice(["none", "flat", "flat", "skew"])))
    else:
        freqs = gen.gen_frequencies(rng, n)
    F = 0.0 if (klass == "noreads" and rng.random() < 0.6) else gen.gen_inbreeding(rng)
    return dict(ploidy=ploidy, haps=haps, n_alleles=n_alleles, reads=reads, counts=counts, freqs=freqs, F=F, klass=klass)


def pack(I):
    return {"ploidy": I["ploidy"], "haps": I["haps"].tolist(), "haps_shape": list(I["haps"].shape), "n_alleles": [int(a) for a in I["n_alleles"]],
            "reads": I["reads"].tolist(), "reads_shape": list(I["reads"].shape),
            "counts": None if I["counts"] is None else I["counts"].tolist(),
            "freqs": None if I["freqs"] is None else I["freqs"].tolist(), "F": I["F"], "klass": I.get("klass", "?")}


def unpack(d):
    return dict(ploidy=int(d["ploidy"]), haps=np.array(d["haps"], dtype=np.int8).reshape(d["haps_shape"]),
                n_alleles=np.array(d["n_alleles"], dtype=int),
                reads=unjson_array(d["reads"], float).reshape(d["reads_shape"]),
                counts=None if d["counts"] is None else np.array(d["counts"], dtype=np.int64),
                freqs=None if d["freqs"] is None else np.array(d["freqs"], dtype=float), F=float(d["F"]), klass=d.get("klass", "?"))


# ---------------------------------------------------------------------------
# oracle (no mchap)


class Oracle:
    def __init__(self, reads, counts, haps, ploidy, F, freqs):
        with np.errstate(all="ignore"):
            gs, post, llks, lprs = M.exact_posterior(reads, counts, haps, ploidy, F, freqs)
        self.gs = gs
        self.N = len(gs)
        self.n = len(haps)
        self.ploidy = ploidy
        for i in {0, self.N // 2, self.N - 1}:
            assert M.genotype_index(gs[i]) == i, "oracle self-check: two formulations of VCF order disagree"
        self.index = {g: i for i, g in enumerate(gs)}
        self.llk = np.array(llks, dtype=float)
        self.lpr = np.array(lprs, dtype=float)
        with np.errstate(all="ignore"):
            self.lj = self.llk + self.lpr
        self.defined = bool(np.isfinite(self.lj).any()) and not bool(np.isnan(self.lj).any())
        if not self.defined:
            return
        self.post = np.array(post, dtype=float)
        C = np.zeros((self.N, self.n))
        for i, g in enumerate(gs):
            for a in g:
                C[i, a] += 1
        self.C = C
        self.acp = self.post @ C
        self.afp = self.acp / ploidy
        self.aop = self.post @ (C > 0).astype(float)
        self.pmax = float(self.post.max())
        sig = self.post >= 1e-9
        self.scale = float(max(1.0, np.abs(self.llk[sig]).max(), np.abs(self.lj[sig]).max()))
        self.rel64 = 1e-9 + 1e-13 * self.scale
        self.rel32 = 4 * EPS32 * self.scale
        sup = {}
        for i, g in enumerate(gs):
            sup.setdefault(frozenset(g), []).append(i)
        self.support = sup
        self.zero_alleles = [] if freqs is None else [a for a in range(self.n) if float(freqs[a]) == 0.0]
        self.n_tied = int((self.post >= self.pmax * (1 - 1e-9)).sum())

    def spm(self, g):
        return float(math.fsum(self.post[i] for i in self.support[frozenset(g)]))

    def tol32(self, v, k=1.0):
        return k * (self.rel32 * abs(v) + 1e-6)

    def tol64(self, v):
        return self.rel64 * abs(v) + 1e-15


def near(got, want, tol):
    try:
        return bool(abs(float(got) - float(want)) <= tol)
    except (TypeError, ValueError):
        return False


def vec_bad(got, want, tolf):
    """index of first element outside tolerance (or -2 for shape problems), -1 if fine."""
    got = np.asarray(got)
    if got.shape != np.asarray(want).shape:
        return -2
    for i in range(len(want)):
        if not near(got[i], want[i], tolf(want[i])):
            return i
    return -1


def as_genotype(x, ploidy, n):
    """(sorted tuple, problem-string-or-None) for something returned as a genotype."""
    try:
        a = np.asarray(x)
        if a.shape != (ploidy,) or a.dtype.kind not in "iu":
            return None, "shape %s dtype %s" % (a.shape, a.dtype)
        g = tuple(sorted(int(v) for v in a))
        if g[0] < 0 or g[-1] >= n:
            return None, "alleles out of range %s" % (g,)
        return g, None
    except Exception as e:  # noqa: BLE001
        return None, repr(e)


# ---------------------------------------------------------------------------
# function level


def count_classes(I, O, col):
    col.count("function_cases")
    col.count("class_%s" % I["klass"])
    col.count("ploidy_%d_cases" % I["ploidy"])
    if I["ploidy"] > 20:
        col.count("ploidy_above_20_cases")
    col.count("haplotypes_%d_cases" % len(I["haps"]))
    col.count("sites_%d_cases" % I["haps"].shape[1])
    if I["haps"].shape[1] == 0:
        col.count("zero_site_cases")
    depth = int(len(I["reads"]) if I["counts"] is None else I["counts"].sum())
    col.maxv("max_depth", depth)
    col.maxv("max_distinct_reads", len(I["reads"]))
    if depth >= 300:
        col.count("deep_cases_depth_ge_300")
    if len(I["reads"]) == 0 or bool(np.isnan(I["reads"]).all()):
        col.count("no_read_cases")
    if len(I["reads"]) and bool(np.isnan(I["reads"]).any()):
        col.count("nan_gap_cases")
    col.count("inbred_cases" if I["F"] > 0 else "outbred_cases")
    f = I["freqs"]
    if f is None:
        col.count("freq_none_cases")
    elif (f == 0).any():
        col.count("freq_with_zero_cases")
    elif np.ptp(f) < 1e-12:
        col.count("freq_flat_cases")
    else:
        col.count("freq_skewed_cases")
    if I["counts"] is None:
        col.count("counts_none_cases")
    if O.defined:
        col.maxv("max_log_scale", O.scale)
        col.maxv("max_genotypes", O.N)
        if O.n_tied > 1:
            col.count("tie_cases")
        if O.zero_alleles:
            col.count("zero_prior_allele_cases")
        if bool(np.isinf(O.llk).any()):
            col.count("partial_zero_likelihood_cases")


def check_stream(I, O, col, viol):
    """posterior_mode under every subset of the return flags. Returns the sorted GT of the all-flags call."""
    from mchap.calling.exact import posterior_mode

    n, ploidy = O.n, O.ploidy
    gt_all = None
    for s, f, o in itertools.product([False, True], repeat=3):
        flags = {"support": s, "frequencies": f, "occurrence": o}
        try:
            r = posterior_mode(I["reads"], ploidy, I["haps"], read_counts=I["counts"], inbreeding=I["F"], frequencies=I["freqs"],
                               return_support_prob=s, return_posterior_frequencies=f, return_posterior_occurrence=o)
        except Exception as e:  # noqa: BLE001
            viol("raises-on-valid-input", "posterior_mode(flags %s) raised %r" % (flags, e), {"flags": flags})
            continue
        col.count("stream_calls_all_flag_subsets")
        if not isinstance(r, tuple) or len(r) != 3 + s + f + o:
            viol("stream-result-tuple-layout-wrong", "posterior_mode(flags %s) returned %s of length %s, documented length %d"
                 % (flags, type(r).__name__, len(r) if hasattr(r, "__len__") else "?", 3 + s + f + o), {"flags": flags})
            continue
        g, prob = as_genotype(r[0], ploidy, n)
        if g is None:
            viol("stream-result-tuple-layout-wrong", "first element is not a genotype: %s" % prob, {"flags": flags})
            continue
        i = O.index[g]
        pg = float(O.post[i])
        col.maxv("max_stream_mode_shortfall_rel", (O.pmax - pg) / O.pmax)
        if any(a in O.zero_alleles for a in g):
            viol("zero-prior-allele-called", "streaming GT %s contains an allele with prior frequency 0" % (g,), {"flags": flags})
        if not pg >= O.pmax * (1 - O.rel64):
            viol("stream-mode-not-a-maximiser", "streaming GT %s has posterior %.12g but %s has %.12g"
                 % (g, pg, O.gs[int(np.argmax(O.post))], O.pmax), {"flags": flags})
        wl = float(O.llk[i])
        if not near(r[1], wl, 1e-9 * max(1.0, abs(wl))):
            viol("stream-mode-llk-wrong", "mode_llk %r but GT %s has log-likelihood %.12g" % (r[1], g, wl), {"flags": flags})
        col.maxv("max_stream_gpm_error", abs(float(r[2]) - pg))
        if not near(r[2], pg, O.tol64(pg)):
            viol("stream-gpm-not-mode-posterior", "GPM %.12g but posterior of GT %s is %.12g" % (r[2], g, pg), {"flags": flags})
        k = 3
        spm_got = None
        if s:
            want = O.spm(g)
            spm_got = r[k]
            k += 1
            col.maxv("max_stream_spm_error", abs(float(spm_got) - want) if np.ndim(spm_got) == 0 else 1.0)
            if np.ndim(spm_got) != 0 or not near(spm_got, want, O.tol64(want)):
                viol("stream-spm-not-support-total", "SPM %r but genotypes with allele set %s total %.12g (GT %s)"
                     % (spm_got, sorted(set(g)), want, g), {"flags": flags})
            elif not (float(r[2]) <= float(spm_got) + 1e-9 and float(spm_got) <= 1 + 1e-9):   # a sum over thousands of genotypes rounds at ~1e-11
                viol("probability-invariant-broken", "GPM %.15g <= SPM %.15g <= 1 does not hold" % (r[2], spm_got), {"flags": flags})
        if f:
            got = r[k]
            k += 1
            b = vec_bad(got, O.afp, O.tol64)
            if b != -1:
                viol("stream-afp-not-posterior-mean-frequency", "posterior mean frequencies %s, oracle %s (element %d)"
                     % (np.asarray(got).tolist(), O.afp.tolist(), b), {"flags": flags})
            else:
                col.maxv("max_stream_afp_error", float(np.abs(np.asarray(got) - O.afp).max()))
                if not near(float(np.sum(got)), 1.0, 1e-9):
                    viol("probability-invariant-broken", "sum(AFP) = %.15g" % float(np.sum(got)), {"flags": flags})
                for a in O.zero_alleles:
                    if float(got[a]) != 0.0:
                        viol("zero-prior-allele-has-posterior-mass", "allele %d has prior 0 but AFP %r" % (a, got[a]), {"flags": flags})
        if o:
            got = r[k]
            k += 1
            b = vec_bad(got, O.aop, O.tol64)
            if b != -1:
                viol("stream-aop-not-occurrence-probability", "occurrence %s, oracle %s (element %d)"
                     % (np.asarray(got).tolist(), O.aop.tolist(), b), {"flags": flags})
            else:
                col.maxv("max_stream_aop_error", float(np.abs(np.asarray(got) - O.aop).max()))
                for a in O.zero_alleles:
                    if float(got[a]) != 0.0:
                        viol("zero-prior-allele-has-posterior-mass", "allele %d has prior 0 but occurrence %r" % (a, got[a]), {"flags": flags})
        if s and f and o:
            gt_all = (g, float(r[2]), float(spm_got) if np.ndim(spm_got) == 0 else float("nan"), np.asarray(r[4], dtype=float), np.asarray(r[5], dtype=float))
            col.count("stream_results_checked")
    return gt_all


def check_array(I, O, col, viol, rng):
    """The chain the program runs when GP or GL is requested. Returns (GT, GPM, SPM, AFP, ACP, AOP) or None."""
    from mchap.calling.exact import alternate_dosage_posteriors, genotype_likelihoods, genotype_posteriors, posterior_allele_frequencies
    from mchap.jitutils import index_as_genotype_alleles

    n, ploidy, N = O.n, O.ploidy, O.N
    try:
        lk = genotype_likelihoods(reads=I["reads"], read_counts=I["counts"], haplotypes=I["haps"], ploidy=ploidy)
    except Exception as e:  # noqa: BLE001
        viol("raises-on-valid-input", "genotype_likelihoods raised %r" % (e,))
        return None
    col.add_to_set("genotype_likelihoods_dtype", str(getattr(lk, "dtype", type(lk))))
    if np.shape(lk) != (N,):
        viol("array-likelihoods-differ-from-model", "genotype_likelihoods returned shape %s, %d genotypes exist" % (np.shape(lk), N))
        return None
    for i in range(N):
        w = O.llk[i]
        ok = (float(lk[i]) == w) if math.isinf(w) else near(lk[i], w, EPS32 * abs(w) + 1e-6)
        if not ok:
            viol("array-likelihoods-differ-from-model", "log-likelihood at VCF index %d (genotype %s) is %r, oracle %.10g" % (i, O.gs[i], float(lk[i]), w))
            break
    col.count("array_likelihoods_checked", N)
    # posteriors exactly as the program computes them (float32 likelihoods in)
    try:
        post = genotype_posteriors(log_likelihoods=lk, ploidy=ploidy, n_alleles=n, inbreeding=I["F"], frequencies=I["freqs"])
    except Exception as e:  # noqa: BLE001
        viol("raises-on-valid-input", "genotype_posteriors raised %r" % (e,))
        return None
    col.count("array_posteriors_checked")
    if np.shape(post) != (N,) or not np.all(np.isfinite(post)):
        viol("array-posteriors-differ-from-model", "genotype_posteriors returned shape %s / non-finite values" % (np.shape(post),))
        return None
    post = np.asarray(post, dtype=float)
    tot = float(math.fsum(post.tolist()))
    col.maxv("max_array_sum_error", abs(tot - 1))
    if not near(tot, 1.0, O.rel64 * 10):
        viol("array-posteriors-do-not-sum-to-one", "genotype_posteriors sums to %.15g" % tot)
    b = vec_bad(post, O.post, O.tol32)
    col.count("array_genotype_probabilities_compared", N)
    if b != -1:
        viol("array-posteriors-differ-from-model", "posterior at VCF index %d (genotype %s) is %.10g, oracle %.10g (budget %.3g)"
             % (b, O.gs[b], post[b], O.post[b], O.tol32(O.post[b])))
    else:
        with np.errstate(all="ignore"):
            col.maxv("max_array_posterior_error_over_budget", float(np.max(np.abs(post - O.post) / (O.rel32 * O.post + 1e-6))))
    for a in O.zero_alleles:
        bad = [i for i in range(N) if O.C[i, a] > 0 and post[i] != 0.0]
        if bad:
            viol("zero-prior-allele-has-posterior-mass", "genotype %s contains allele %d with prior 0 but GP is %r" % (O.gs[bad[0]], a, post[bad[0]]))
    # the same function fed the oracle's float64 likelihoods: isolates prior x order x normalisation at 1e-9
    ok64 = np.isfinite(O.llk) | np.isneginf(O.llk)
    if ok64.all():
        p64 = np.asarray(genotype_posteriors(O.llk.copy(), ploidy, n, I["F"], I["freqs"]), dtype=float)
        col.count("array_posteriors_float64_checked")
        b = vec_bad(p64, O.post, O.tol64)
        if b != -1:
            viol("array-posteriors-differ-from-model", "with exact float64 likelihoods: posterior at VCF index %d (genotype %s) is %.12g, oracle %.12g"
                 % (b, O.gs[b], p64[b], O.post[b]))
    # allele statistics from the program's own posterior array, and from the oracle posterior (tight)
    try:
        afp, acp, aop = posterior_allele_frequencies(post, ploidy, n)
        afp_x, acp_x, aop_x = posterior_allele_frequencies(O.post.copy(), ploidy, n)
    except Exception as e:  # noqa: BLE001
        viol("raises-on-valid-input", "posterior_allele_frequencies raised %r" % (e,))
        return None
    col.count("array_allele_statistics_checked")
    for name, got, want, tolf in (("AFP", afp, O.afp, O.tol32), ("ACP", acp, O.acp, lambda v: O.tol32(v, ploidy)), ("AOP", aop, O.aop, O.tol32),
                                  ("AFP(exact posterior in)", afp_x, O.afp, O.tol64), ("ACP(exact posterior in)", acp_x, O.acp, O.tol64),
                                  ("AOP(exact posterior in)", aop_x, O.aop, O.tol64)):
        b = vec_bad(got, want, tolf)
        if b != -1:
            viol("array-allele-statistics-differ-from-model", "%s %s, oracle %s (element %d, ploidy %d)"
                 % (name, np.asarray(got).tolist(), want.tolist(), b, ploidy))
    if not near(float(np.sum(acp)), ploidy, ploidy * O.rel64 * 10) or not near(float(np.sum(acp_x)), ploidy, ploidy * 1e-9):
        viol("array-acp-does-not-sum-to-ploidy", "sum(ACP) = %.15g / %.15g, ploidy %d" % (float(np.sum(acp)), float(np.sum(acp_x)), ploidy))
    if not near(float(np.sum(afp)), 1.0, O.rel64 * 10):
        viol("probability-invariant-broken", "array path sum(AFP) = %.15g" % float(np.sum(afp)))
    for a in O.zero_alleles:
        if float(afp[a]) != 0.0 or float(aop[a]) != 0.0:
            viol("zero-prior-allele-has-posterior-mass", "allele %d has prior 0 but array AFP %r AOP %r" % (a, afp[a], aop[a]))
    # index -> genotype as the program decodes the argmax
    idx = int(np.argmax(post))
    alleles = index_as_genotype_alleles(idx, ploidy)
    g, prob = as_genotype(alleles, ploidy, n)
    if g != O.gs[idx]:
        viol("index-to-genotype-not-vcf-order", "index_as_genotype_alleles(%d, %d) = %s, VCF order says %s" % (idx, ploidy, np.asarray(alleles).tolist(), O.gs[idx]))
        return None
    for j in {0, N - 1, int(rng.integers(N))}:
        if tuple(int(a) for a in index_as_genotype_alleles(j, ploidy)) != O.gs[j]:
            viol("index-to-genotype-not-vcf-order", "index_as_genotype_alleles(%d, %d) != %s" % (j, ploidy, O.gs[j]))
    pg = float(O.post[idx])
    if not pg >= O.pmax * (1 - 2 * O.rel32) - 2e-6:
        viol("array-mode-not-a-maximiser", "argmax of genotype_posteriors is %s with oracle posterior %.10g, maximum %.10g at %s"
             % (g, pg, O.pmax, O.gs[int(np.argmax(O.post))]))
    if any(a in O.zero_alleles for a in g):
        viol("zero-prior-allele-called", "array GT %s contains an allele with prior frequency 0" % (g,))
    # alternate dosage extraction: the called genotype and two random ones
    spm = None
    probes = [np.asarray(alleles)] + [np.array(O.gs[int(rng.integers(N))], dtype=np.int64) for _ in range(2)]
    for q, ga in enumerate(probes):
        try:
            gts, prs = alternate_dosage_posteriors(ga, post)
        except Exception as e:  # noqa: BLE001
            viol("raises-on-valid-input", "alternate_dosage_posteriors raised %r" % (e,), {"genotype": ga.tolist()})
            continue
        col.count("alternate_dosage_checked")
        want_idx = O.support[frozenset(int(a) for a in ga)]
        want_g = [list(O.gs[i]) for i in want_idx]
        got_g = np.asarray(gts).tolist()
        if got_g != want_g or np.shape(prs) != (len(want_idx),) or not all(float(prs[k]) == float(post[i]) for k, i in enumerate(want_idx)):
            viol("alternate-dosage-extraction-wrong", "for %s: genotypes %s probs %s; expected %s (VCF-index order) probs %s"
                 % (ga.tolist(), got_g, np.asarray(prs).tolist(), want_g, [float(post[i]) for i in want_idx]), {"genotype": ga.tolist()})
        elif q == 0:
            spm = float(np.sum(prs))
    if spm is None:
        return None
    return (g, float(post[idx]), spm, np.asarray(afp, dtype=float), np.asarray(acp, dtype=float), np.asarray(aop, dtype=float))


def check_agreement(O, S, A, col, viol):
    gs_, gpm_s, spm_s, afp_s, aop_s = S
    ga, gpm_a, spm_a, afp_a, acp_a, aop_a = A
    col.count("path_agreement_checked")
    if gs_ != ga:
        col.count("paths_call_different_genotypes")
        ps, pa = float(O.post[O.index[gs_]]), float(O.post[O.index[ga]])
        if abs(ps - pa) > 2 * O.tol32(O.pmax):
            viol("paths-disagree-beyond-single-precision", "streaming GT %s (posterior %.10g) vs array GT %s (posterior %.10g): not a tie" % (gs_, ps, ga, pa))
        return
    bad = []
    if not near(gpm_s, gpm_a, O.tol32(gpm_s)):
        bad.append("GPM %.10g vs %.10g" % (gpm_s, gpm_a))
    if not near(spm_s, spm_a, O.tol32(spm_s)):
        bad.append("SPM %.10g vs %.10g" % (spm_s, spm_a))
    if vec_bad(afp_a, afp_s, O.tol32) != -1:
        bad.append("AFP %s vs %s" % (afp_s.tolist(), afp_a.tolist()))
    if vec_bad(acp_a, afp_s * O.ploidy, lambda v: O.tol32(v, O.ploidy)) != -1:
        bad.append("ACP %s vs AFP*ploidy %s" % (acp_a.tolist(), (afp_s * O.ploidy).tolist()))
    if vec_bad(aop_a, aop_s, O.tol32) != -1:
        bad.append("AOP %s vs %s" % (aop_s.tolist(), aop_a.tolist()))
    col.maxv("max_path_gpm_difference", abs(gpm_s - gpm_a))
    if bad:
        viol("paths-disagree-beyond-single-precision", "streaming vs array path (budget rel %.3g): %s" % (O.rel32, "; ".join(bad)))


def check_function(I, col, rng):
    packed = pack(I)

    def viol(mech, msg, extra=None):
        col.violation(mech, "%s [class %s ploidy %d haplotypes %d F %g]" % (msg, I["klass"], I["ploidy"], len(I["haps"]), I["F"]),
                      {"kind": "function", "instance": packed, "extra": extra})

    O = Oracle(I["reads"], I["counts"], I["haps"], I["ploidy"], I["F"], I["freqs"])
    count_classes(I, O, col)
    col.case(digest(packed), nontrivial=O.N >= 3)
    if not O.defined:
        col.count("undefined_posterior_skipped")
        return O
    S = check_stream(I, O, col, viol)
    A = check_array(I, O, col, viol, rng)
    if S is not None and A is not None:
        check_agreement(O, S, A, col, viol)
    return O


# ---------------------------------------------------------------------------
# program level (no files)


def build_locus(I, rng, freqs):
    """LocusPrior whose encode_haplotypes() is I['haps'] (row 0 = reference)."""
    from mchap.io.loci import SNP, LocusPrior

    haps, n_alleles = I["haps"], I["n_alleles"]
    n_pos = haps.shape[1]
    L = n_pos + int(rng.integers(1, 6))
    offs = np.sort(rng.permutation(L)[:n_pos])
    seq = [str(c) for c in rng.choice(list("ACGT"), size=L)]
    start = int(rng.integers(0, 1000))
    snps, site_alleles = [], []
    for j in range(n_pos):
        ref = seq[offs[j]]
        others = [c for c in "ACGT" if c != ref]
        others = [others[i] for i in rng.permutation(3)]
        al = tuple([ref] + others[: int(n_alleles[j]) - 1])
        site_alleles.append(al)
        p = start + int(offs[j])
        snps.append(SNP("chr1", p, p + 1, ".", alleles=al))
    alts = []
    for h in haps[1:]:
        s = list(seq)
        for j in range(n_pos):
            s[offs[j]] = site_alleles[j][int(h[j])]
        alts.append("".join(s))
    mask = bool(len(haps) > 1 and freqs[0] == 0 and rng.random() < 0.5)
    locus = LocusPrior(contig="chr1", start=start, stop=start + L, name="L", sequence="".join(seq), variants=tuple(snps), alts=tuple(alts),
                       frequencies=freqs, mask_reference_allele=mask)
    enc = locus.encode_haplotypes()
    if enc.shape != haps.shape or not np.array_equal(enc, haps):
        raise AssertionError("harness: LocusPrior.encode_haplotypes() does not reproduce the generated haplotypes")
    return locus


def read_calls_of(reads):
    r = np.where(np.isnan(reads), -1.0, reads)
    calls = r.argmax(axis=2).astype(np.int8) if reads.shape[1] and reads.shape[0] else np.zeros(reads.shape[:2], dtype=np.int8)
    if calls.size:
        calls[np.isnan(reads).all(axis=2)] = -1
    return calls


def parse_text_field(txt):
    out = []
    for t in txt.split(","):
        out.append(float("nan") if t == "." else float(t))
    return out


def check_program(I, col, rng, others=None, order=None):
    """call_sample_genotypes under every report set for identical reads; one or two samples."""
    from mchap.application import call_exact
    from mchap.application.arguments import parse_report_fields
    import mchap.io.vcf.formatfields as FORMAT

    n = len(I["haps"])
    freqs = np.full(n, 1.0 / n) if I["freqs"] is None else I["freqs"].copy()
    samples = {"s0": dict(ploidy=I["ploidy"], F=I["F"], reads=I["reads"],
                          counts=np.ones(len(I["reads"]), dtype=np.int64) if I["counts"] is None else I["counts"])}
    if others is not None:
        for k, v in others.items():
            samples[k] = dict(ploidy=int(v["ploidy"]), F=float(v["F"]), reads=unjson_array(v["reads"], float).reshape(v["reads_shape"]),
                              counts=np.array(v["counts"], dtype=np.int64))
    elif rng.random() < 0.5:
        p2 = int(rng.integers(1, 7))
        nr = int(rng.integers(0, 13))
        kind = str(rng.choice(["informative", "random"]))
        samples["s1"] = dict(ploidy=p2, F=gen.gen_inbreeding(rng), reads=_reads(rng, kind, I["haps"], I["n_alleles"], p2, nr),
                             counts=_counts(rng, nr, str(rng.choice(["ones", "small", "deep"]))))
    if order is None:
        order = list(samples)
        if rng.random() < 0.5:
            order.reverse()
    extra = {k: {"ploidy": v["ploidy"], "F": v["F"], "reads": v["reads"].tolist(), "reads_shape": list(v["reads"].shape), "counts": v["counts"].tolist()}
             for k, v in samples.items() if k != "s0"}
    packed = pack(I)
    payload = {"kind": "program", "instance": packed, "other_samples": extra, "order": order}

    def viol(mech, msg, report=None, sample=None):
        col.violation(mech, "%s [report %s sample %s class %s]" % (msg, report, sample, I["klass"]), dict(payload, report=report, sample=sample))

    oracles = {}
    for k, v in samples.items():
        oracles[k] = Oracle(v["reads"], v["counts"], I["haps"], v["ploidy"], v["F"], freqs)
    if not all(o.defined for o in oracles.values()):
        col.count("program_undefined_posterior_skipped")
        return
    locus = build_locus(I, rng, freqs)
    results = {}
    for rep in REPORT_SETS:
        rkey = ",".join(rep) if rep else "-"
        info_fields, format_fields = parse_report_fields(rep)
        prog = call_exact.program(vcf="", ref="", samples=list(order), sample_bams={s: [] for s in order},
                                  sample_ploidy={s: samples[s]["ploidy"] for s in order}, sample_inbreeding={s: samples[s]["F"] for s in order},
                                  info_fields=info_fields, format_fields=format_fields)
        data = prog._locus_data(locus, prog.sample_bams)
        for s in order:
            data.read_dists[s] = samples[s]["reads"].copy()
            data.read_counts[s] = samples[s]["counts"].copy()
            data.read_calls[s] = read_calls_of(samples[s]["reads"])
        try:
            prog.call_sample_genotypes(data)
        except Exception as e:  # noqa: BLE001
            viol("raises-on-valid-input", "call_sample_genotypes raised %r (cause %r)" % (e, e.__cause__), rkey)
            continue
        col.count("program_calls")
        col.case(digest([packed, extra, rkey]), nontrivial=oracles["s0"].N >= 3)
        fmt_ids = [f.id for f in data.formatfields]
        col.add_to_set("program_format_fields", ":".join(fmt_ids))
        for s in order:
            O = oracles[s]
            ploidy = samples[s]["ploidy"]
            sd = {f.id: data.sampledata[f].get(s) for f in (FORMAT.GT, FORMAT.GPM, FORMAT.SPM, FORMAT.AFP, FORMAT.ACP, FORMAT.AOP, FORMAT.GP, FORMAT.GL, FORMAT.GQ)}
            results.setdefault(s, {})[rkey] = sd
            col.count("program_samples_checked")
            for fid in ("GT", "GPM", "SPM") + tuple(x for x in ("AFP", "ACP", "AOP", "GP", "GL") if x in fmt_ids):
                if sd[fid] is None:
                    viol("program-requested-field-missing", "FORMAT %s is an output field but sampledata holds nothing for the sample" % fid, rkey, s)
            g, prob = as_genotype(sd["GT"], ploidy, n) if sd["GT"] is not None else (None, "missing")
            if g is None:
                viol("program-gt-not-a-maximiser", "GT is not a genotype: %s" % prob, rkey, s)
                continue
            pg = float(O.post[O.index[g]])
            if not pg >= O.pmax * (1 - 2 * O.rel32) - 2e-6:
                viol("program-gt-not-a-maximiser", "GT %s has oracle posterior %.10g, maximum is %.10g at %s" % (g, pg, O.pmax, O.gs[int(np.argmax(O.post))]), rkey, s)
            if any(a in O.zero_alleles for a in g):
                viol("zero-prior-allele-called", "program GT %s contains an allele with prior frequency 0" % (g,), rkey, s)
            if sd["GPM"] is not None and not near(sd["GPM"], pg, O.tol32(pg)):
                viol("program-gpm-wrong", "GPM %r, posterior of GT %s is %.10g" % (sd["GPM"], g, pg), rkey, s)
            ws = O.spm(g)
            if sd["SPM"] is not None and not near(sd["SPM"], ws, O.tol32(ws)):
                viol("program-spm-wrong", "SPM %r, genotypes with allele set %s total %.10g" % (sd["SPM"], sorted(set(g)), ws), rkey, s)
            if sd["GPM"] is not None and sd["SPM"] is not None and not (float(sd["GPM"]) <= float(sd["SPM"]) + 1e-9 and float(sd["SPM"]) <= 1 + 1e-9):
                viol("probability-invariant-broken", "program GPM %.15g <= SPM %.15g <= 1 does not hold" % (sd["GPM"], sd["SPM"]), rkey, s)
            for fid, want, tolf in (("AFP", O.afp, O.tol32), ("ACP", O.acp, lambda v, O=O, ploidy=ploidy: O.tol32(v, ploidy)), ("AOP", O.aop, O.tol32)):
                if sd[fid] is None:
                    continue
                col.count("program_allele_vectors_checked")
                b = vec_bad(sd[fid], want, tolf)
                if b != -1:
                    viol("program-allele-statistics-wrong", "%s %s, oracle %s (element %d, ploidy %d)" % (fid, np.asarray(sd[fid]).tolist(), want.tolist(), b, ploidy), rkey, s)
                for a in O.zero_alleles:
                    if b == -1 and float(sd[fid][a]) != 0.0:
                        viol("zero-prior-allele-has-posterior-mass", "allele %d has prior 0 but program %s %r" % (a, fid, sd[fid][a]), rkey, s)
            if sd["AFP"] is not None and np.shape(sd["AFP"]) == (n,) and not near(float(np.sum(sd["AFP"])), 1.0, 1e-8):
                viol("probability-invariant-broken", "program sum(AFP) = %.15g" % float(np.sum(sd["AFP"])), rkey, s)
            if sd["ACP"] is not None and np.shape(sd["ACP"]) == (n,) and not near(float(np.sum(sd["ACP"])), ploidy, 1e-8 * ploidy):
                viol("probability-invariant-broken", "program sum(ACP) = %.15g, ploidy %d" % (float(np.sum(sd["ACP"])), ploidy), rkey, s)
            if sd["GP"] is not None and "GP" in fmt_ids:
                col.count("program_gp_vectors_checked")
                b = vec_bad(sd["GP"], O.post, O.tol32)
                if b != -1:
                    viol("program-gp-not-vcf-ordered-posterior", "GP[%d] (genotype %s in VCF order) wrong or GP has %s entries for %d genotypes; oracle %.10g"
                         % (b, O.gs[max(b, 0)], np.shape(sd["GP"]), O.N, O.post[max(b, 0)]), rkey, s)
                elif not near(float(np.sum(sd["GP"])), 1.0, 1e-8):
                    viol("probability-invariant-broken", "program sum(GP) = %.15g" % float(np.sum(sd["GP"])), rkey, s)
            if sd["GL"] is not None and "GL" in fmt_ids:
                col.count("program_gl_vectors_checked")
                gl = np.asarray(sd["GL"])
                if gl.shape != (O.N,):
                    viol("program-gl-not-log10-likelihood", "GL has %s entries for %d genotypes" % (gl.shape, O.N), rkey, s)
                else:
                    for i in range(O.N):
                        w = O.llk[i] / LN10
                        ok = (float(gl[i]) == w) if math.isinf(w) else near(gl[i], w, 2 * EPS32 * abs(w) + 1e-6)
                        if not ok:
                            viol("program-gl-not-log10-likelihood", "GL[%d] (genotype %s) = %r, log10 likelihood is %.10g" % (i, O.gs[i], float(gl[i]), w), rkey, s)
                            break
        # FORMAT text of the record the program would print
        try:
            prog.sumarise_vcf_record(data)
            cols = data.format_vcf_record().split("\t")
        except Exception as e:  # noqa: BLE001
            col.count("program_text_not_formatted")
            col.add_to_set("program_text_format_errors", repr(e)[:120])
            continue
        keys = cols[8].split(":")
        for k, s in enumerate(order):
            O = oracles[s]
            vals = dict(zip(keys, cols[9 + k].split(":")))
            sd = results[s][rkey]
            g, _ = as_genotype(sd["GT"], samples[s]["ploidy"], n) if sd["GT"] is not None else (None, None)
            if g is None:
                continue
            col.count("program_text_records_checked")
            if vals.get("GT") != "/".join(str(int(a)) for a in sd["GT"]):
                viol("program-text-field-wrong", "GT text %r for alleles %s" % (vals.get("GT"), np.asarray(sd["GT"]).tolist()), rkey, s)
            wants = {"GPM": [float(O.post[O.index[g]])], "SPM": [O.spm(g)], "AFP": O.afp, "ACP": O.acp, "AOP": O.aop, "GP": O.post, "GL": O.llk / LN10}
            for fid in ("GPM", "SPM", "AFP", "ACP", "AOP", "GP", "GL"):
                if fid not in vals:
                    continue
                try:
                    got = parse_text_field(vals[fid])
                except ValueError:
                    col.count("program_text_unparsed")
                    continue
                want = wants[fid]
                if len(got) != len(want):
                    viol("program-text-field-wrong", "%s text has %d values, expected %d" % (fid, len(got), len(want)), rkey, s)
                    continue
                for i in range(len(want)):
                    w = float(want[i])
                    if math.isinf(w):
                        ok = got[i] == w or math.isnan(got[i])
                    elif fid == "GL":
                        ok = near(got[i], w, 0.000501 + 2 * EPS32 * abs(w) + 1e-6)
                    else:
                        ok = near(got[i], w, 0.000501 + O.tol32(w, samples[s]["ploidy"] if fid == "ACP" else 1))
                    if not ok:
                        viol("program-text-field-wrong", "%s text value %d is %r, oracle %.6g" % (fid, i, vals[fid].split(",")[i], w), rkey, s)
                        break
    # report-set independence: every pair of report sets, fields stored by both
    for s, by in results.items():
        O = oracles[s]
        ploidy = samples[s]["ploidy"]
        keys = list(by)
        for x, y in itertools.combinations(keys, 2):
            a, b = by[x], by[y]
            col.count("program_pairs_compared")
            ga, _ = as_genotype(a["GT"], ploidy, n) if a["GT"] is not None else (None, None)
            gb, _ = as_genotype(b["GT"], ploidy, n) if b["GT"] is not None else (None, None)
            if ga is None or gb is None:
                continue
            if ga != gb:
                col.count("program_report_sets_call_different_genotypes")
                pa, pb = float(O.post[O.index[ga]]), float(O.post[O.index[gb]])
                if abs(pa - pb) > 2 * O.tol32(O.pmax):
                    viol("program-report-set-changes-result", "GT %s under report %s but %s under %s; posteriors %.10g vs %.10g are not tied" % (ga, x, gb, y, pa, pb), "%s|%s" % (x, y), s)
                continue
            diffs = []
            for fid in ("GPM", "SPM"):
                if a[fid] is not None and b[fid] is not None and not near(a[fid], b[fid], 2 * O.tol32(a[fid])):
                    diffs.append("%s %.10g vs %.10g" % (fid, a[fid], b[fid]))
            for fid, kk in (("AFP", 1), ("ACP", ploidy), ("AOP", 1), ("GP", 1)):
                if a[fid] is not None and b[fid] is not None and vec_bad(a[fid], np.asarray(b[fid], dtype=float), lambda v, kk=kk: 2 * O.tol32(v, kk)) != -1:
                    diffs.append("%s %s vs %s" % (fid, np.asarray(a[fid]).tolist(), np.asarray(b[fid]).tolist()))
            if a["GL"] is not None and b["GL"] is not None:
                ga_, gb_ = np.asarray(a["GL"], dtype=float), np.asarray(b["GL"], dtype=float)
                if ga_.shape != gb_.shape or any(not (x_ == y_ or near(x_, y_, 2 * EPS32 * abs(y_) + 1e-6)) for x_, y_ in zip(ga_.tolist(), gb_.tolist())):
                    diffs.append("GL differs")
            if a["GQ"] is not None and b["GQ"] is not None and np.ndim(a["GQ"]) == 0 and np.ndim(b["GQ"]) == 0:
                with np.errstate(all="ignore"):
                    col.maxv("info_max_GQ_difference_between_report_sets", abs(float(a["GQ"]) - float(b["GQ"])))
            if diffs:
                viol("program-report-set-changes-result", "report %s vs %s (budget rel %.3g): %s" % (x, y, O.rel32, "; ".join(diffs)), "%s|%s" % (x, y), s)


# ---------------------------------------------------------------------------
# driver


def run_shard(tier, seed, spec, col):
    shard = spec["shard"]
    for i in range(spec["instances"]):
        rng = gen.rng_for(seed, ID, shard, i)
        klass = CLASS_CYCLE[(i + shard) % len(CLASS_CYCLE)]
        I = make_instance(rng, klass)
        O = check_function(I, col, rng)
        check_program(I, col, gen.rng_for(seed, ID, shard + 1000, i))
        if shard == 0 and i in (1, 3) and O.defined:
            col.sample({"instance": pack(I), "oracle_genotypes_vcf_order": [list(g) for g in O.gs][:40], "oracle_posterior": O.post.tolist()[:40],
                        "oracle_AFP": O.afp.tolist(), "oracle_AOP": O.aop.tolist()})


def replay(obj, col):
    c = obj["case"]
    I = unpack(c["instance"])
    rng = np.random.default_rng(0)
    check_function(I, col, rng)
    if c.get("kind") == "program":
        check_program(I, col, rng, others=c.get("other_samples") or {}, order=c.get("order"))
    else:
        check_program(I, col, rng, others={})
