"""Collector: what a shard observed (counters, distinct cases, samples, violations)."""

import hashlib
import json
import math

import numpy as np


def jsonable(x):
    if isinstance(x, dict):
        return {str(k): jsonable(v) for k, v in x.items()}
    if isinstance(x, (list, tuple, set, frozenset)):
        return [jsonable(v) for v in x]
    if isinstance(x, np.ndarray):
        return jsonable(x.tolist())
    if isinstance(x, (np.integer,)):
        return int(x)
    if isinstance(x, (np.bool_,)):
        return bool(x)
    if isinstance(x, (float, np.floating)):
        x = float(x)
        if math.isnan(x):
            return "nan"
        if math.isinf(x):
            return "inf" if x > 0 else "-inf"
        return x
    if isinstance(x, bytes):
        return x.decode("latin1")
    if x is None or isinstance(x, (int, str, bool)):
        return x
    return repr(x)


def unjson_float(x):
    if x == "nan":
        return float("nan")
    if x == "inf":
        return float("inf")
    if x == "-inf":
        return float("-inf")
    return x


def unjson_array(x, dtype=float):
    """Inverse of jsonable for (nested lists of) floats with nan/inf strings."""

    def conv(v):
        if isinstance(v, list):
            return [conv(u) for u in v]
        return unjson_float(v)

    return np.array(conv(x), dtype=dtype)


def digest(obj):
    s = json.dumps(jsonable(obj), sort_keys=True, separators=(",", ":"))
    return hashlib.blake2b(s.encode(), digest_size=8).hexdigest()


class Collector:
    MAX_VIOL_PER_MECH = 5
    MAX_SAMPLES = 3

    def __init__(self):
        self.counters = {}
        self.maxima = {}
        self.evaluations = 0
        self.hashes = set()
        self.samples = []
        self.violations = []  # dicts: mechanism, message, replay
        self.viol_counts = {}
        self.inconclusive = []
        self.sets = {}

    # -- counters ---------------------------------------------------------
    def count(self, name, n=1):
        self.counters[name] = self.counters.get(name, 0) + int(n)

    def maxv(self, name, v):
        v = float(v)
        if math.isnan(v):
            return
        if name not in self.maxima or v > self.maxima[name]:
            self.maxima[name] = v

    def add_to_set(self, name, item):
        """Track distinct small items (e.g. output orders seen)."""
        self.sets.setdefault(name, set()).add(str(item))

    # -- cases ------------------------------------------------------------
    def case(self, canon, nontrivial=True):
        """Register one executed case; `canon` identifies it for distinct counting."""
        self.evaluations += 1
        if nontrivial:
            self.hashes.add(canon if isinstance(canon, str) and len(canon) == 16 else digest(canon))

    def sample(self, obj):
        if len(self.samples) < self.MAX_SAMPLES:
            self.samples.append(jsonable(obj))

    # -- verdict material ---------------------------------------------------
    def violation(self, mechanism, message, replay=None):
        n = self.viol_counts.get(mechanism, 0)
        self.viol_counts[mechanism] = n + 1
        if n < self.MAX_VIOL_PER_MECH:
            self.violations.append(
                {"mechanism": mechanism, "message": str(message)[:2000], "replay": jsonable(replay)}
            )

    def inconclusive_note(self, msg):
        if len(self.inconclusive) < 20:
            self.inconclusive.append(str(msg)[:1000])

    # -- (de)serialisation --------------------------------------------------
    def dump(self):
        return {
            "counters": self.counters,
            "maxima": self.maxima,
            "evaluations": self.evaluations,
            "hashes": sorted(self.hashes),
            "samples": self.samples,
            "violations": self.violations,
            "viol_counts": self.viol_counts,
            "inconclusive": self.inconclusive,
            "sets": {k: sorted(v) for k, v in self.sets.items()},
        }

    def merge(self, d):
        for k, v in d["counters"].items():
            self.counters[k] = self.counters.get(k, 0) + v
        for k, v in d["maxima"].items():
            self.maxv(k, v)
        self.evaluations += d["evaluations"]
        self.hashes.update(d["hashes"])
        for s in d["samples"]:
            if len(self.samples) < 5:
                self.samples.append(s)
        for v in d["violations"]:
            self.violations.append(v)
        for k, v in d["viol_counts"].items():
            self.viol_counts[k] = self.viol_counts.get(k, 0) + v
        self.inconclusive.extend(d["inconclusive"])
        for k, v in d.get("sets", {}).items():
            self.sets.setdefault(k, set()).update(v)
