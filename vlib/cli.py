"""Running MCHap programs: in-process (cheap, M4a) and as real subprocesses (M4b)."""

import contextlib
import io
import os
import subprocess
import sys
import warnings

from vlib import env


def run_inproc(args, stdin_text=None):
    """args: e.g. ["assemble", "--bam", ...].  Returns (stdout_text, exception_or_None)."""
    from mchap.application import cli  # noqa: F401  (slow first import)

    argv = ["mchap"] + [str(a) for a in args]
    old_argv = sys.argv
    buf = io.StringIO()
    exc = None
    try:
        sys.argv = argv
        with warnings.catch_warnings():
            warnings.simplefilter("error", RuntimeWarning)  # what mchap.application.baseclass installs
            with contextlib.redirect_stdout(buf):
                try:
                    cli.main()
                except SystemExit as ex:
                    if ex.code not in (0, None):
                        exc = ex
                except BaseException as ex:  # noqa: BLE001
                    exc = ex
    finally:
        sys.argv = old_argv
        warnings.resetwarnings()
    return buf.getvalue(), exc


def relax_warnings():
    """mchap.application.baseclass turns RuntimeWarning into errors process-wide on import; undo that for harness code."""
    warnings.resetwarnings()


def run_subprocess(args, timeout=600, extra_env=None, cwd=None):
    """Real process: returns (returncode or 'timeout', stdout, stderr)."""
    e = dict(os.environ)
    if extra_env:
        e.update({k: str(v) for k, v in extra_env.items()})
    cmd = [env.PYTHON, "-c", "import sys; sys.argv[0]='mchap'; from mchap.application.cli import main; main()"] + [str(a) for a in args]
    # own session: on a timeout the WHOLE process group is killed - a hung multi-core run leaves pool workers and a writer
    # process behind that would otherwise spin for ever (and hold the pipes open)
    import signal
    import tempfile

    with tempfile.TemporaryFile("w+") as fo, tempfile.TemporaryFile("w+") as fe:
        proc = subprocess.Popen(cmd, env=e, cwd=cwd, stdout=fo, stderr=fe, text=True, start_new_session=True)
        try:
            rc = proc.wait(timeout=timeout)
        except subprocess.TimeoutExpired:
            rc = "timeout"
        finally:
            try:
                os.killpg(proc.pid, signal.SIGKILL)
            except (ProcessLookupError, PermissionError):
                pass
            try:
                proc.wait(timeout=30)
            except subprocess.TimeoutExpired:
                pass
        fo.seek(0)
        fe.seek(0)
        return rc, fo.read(), fe.read()


def record_lines(text):
    return [l for l in text.splitlines() if l and not l.startswith("#")]


def header_lines(text):
    return [l for l in text.splitlines() if l.startswith("#")]
