#!/bin/bash
# MANIFEST.setup_cmd: offline; builds nothing from the network.
# Creates scratch dirs and pre-warms the numba cache for /repo's current tree.
set -u
HERE="$(cd "$(dirname "${BASH_SOURCE[0]}")" && pwd)"
cd "$HERE" || exit 1
export PIP_NO_INDEX=1 PYTHONDONTWRITEBYTECODE=1 PYTHONHASHSEED=0
mkdir -p .cache .work evidence replays
/venv/bin/python -B -m vlib.warm || echo "warm-up failed (checks will compile on first use)"
exit 0
