"""Pre-compile the numba kernels of /repo's current tree into the keyed cache."""
import sys
import time

from vlib import env

t0 = time.time()
th, cdir = env.configure()
print("tree", th, "cache", cdir)
import importlib

for m in [
    "mchap.jitutils", "mchap.assemble.likelihood", "mchap.assemble.prior", "mchap.assemble.mutation",
    "mchap.assemble.structural", "mchap.assemble.tempering", "mchap.assemble.mcmc", "mchap.calling.mcmc",
    "mchap.calling.exact", "mchap.pedigree.mcmc", "mchap.pedigree.prior", "mchap.application.cli",
]:
    try:
        importlib.import_module(m)
    except Exception as ex:  # pragma: no cover
        print("import failed", m, ex)
print("imports %.1fs" % (time.time() - t0))
