"""Generated haplotype (MNP) VCFs: fixed-length multi-allelic records as consumed by call / call-exact /
call-pedigree / atomize.  Content is known by construction (records kept as dicts)."""

import numpy as np

from vlib import datasets

BASES = "ACGT"


def make_hap_record(rng, contigs, contig, start, length, n_alts, n_var_sites=None, name="."):
    """One record: REF = reference sequence [start, start+length); ALTs differ from REF at a few columns.

    Returns dict(contig,pos0,id,ref,alts,var_cols(sorted list of polymorphic offsets)).  ALTs are distinct and != REF."""
    ref = contigs[contig][start : start + length]
    if n_var_sites is None:
        n_var_sites = int(rng.integers(1, min(length, 6) + 1)) if n_alts else 0
    cols = sorted(rng.choice(np.arange(length), size=min(n_var_sites, length), replace=False).tolist()) if n_var_sites else []
    alts = []
    tries = 0
    while len(alts) < n_alts and tries < 200 and cols:
        tries += 1
        s = list(ref)
        k = int(rng.integers(1, len(cols) + 1))
        for c in rng.choice(cols, size=k, replace=False):
            others = [b for b in BASES if b != ref[c]]
            s[int(c)] = others[int(rng.integers(3))]
        s = "".join(s)
        if s != ref and s not in alts:
            alts.append(s)
    seqs = [ref] + alts
    var_cols = [i for i in range(length) if len({s[i] for s in seqs}) > 1]
    return {"contig": contig, "pos0": int(start), "id": name, "ref": ref, "alts": alts, "var_cols": var_cols}


def fmt_float(x):
    s = ("%.6f" % x).rstrip("0").rstrip(".")
    return s if s else "0"


def render(contigs, records, info_defs=(), samples=(), format_defs=(), extra_meta=()):
    """records: dicts with contig,pos0,id,ref,alts and optional 'info' (ordered dict key-> str | True) and
    'samples' ({sample: {key: str}}) and 'format' (list of keys).  Sorted by contig order/pos."""
    order = {c: i for i, c in enumerate(contigs)}
    out = ["##fileformat=VCFv4.3"]
    for name, seq in contigs.items():
        out.append("##contig=<ID=%s,length=%d>" % (name, len(seq)))
    out += list(extra_meta)
    for d in info_defs:
        out.append('##INFO=<ID=%s,Number=%s,Type=%s,Description="%s">' % (d["ID"], d["Number"], d["Type"], d.get("Description", d["ID"])))
    for d in format_defs:
        out.append('##FORMAT=<ID=%s,Number=%s,Type=%s,Description="%s">' % (d["ID"], d["Number"], d["Type"], d.get("Description", d["ID"])))
    cols = ["#CHROM", "POS", "ID", "REF", "ALT", "QUAL", "FILTER", "INFO"]
    if samples:
        cols += ["FORMAT"] + list(samples)
    out.append("\t".join(cols))
    for r in sorted(records, key=lambda r: (order[r["contig"]], r["pos0"])):
        info = r.get("info") or {}
        items = []
        for k, v in info.items():
            items.append(k if v is True else "%s=%s" % (k, v))
        row = [r["contig"], str(r["pos0"] + 1), r.get("id", "."), r["ref"], ",".join(r["alts"]) if r["alts"] else ".", ".", r.get("filter", "PASS"),
               ";".join(items) if items else "."]
        if samples:
            fmt = r.get("format") or ["GT"]
            row.append(":".join(fmt))
            for s in samples:
                sd = r.get("samples", {}).get(s, {})
                row.append(":".join(sd.get(k, ".") for k in fmt))
        out.append("\t".join(row))
    return "\n".join(out) + "\n"


def write(path, text):
    return datasets.write_text_vcf(path, text, index=True)


STD_INFO = [
    {"ID": "END", "Number": "1", "Type": "Integer"},
    {"ID": "NVAR", "Number": "1", "Type": "Integer"},
    {"ID": "SNVPOS", "Number": ".", "Type": "Integer"},
    {"ID": "REFMASKED", "Number": "0", "Type": "Flag"},
    {"ID": "AFP", "Number": "R", "Type": "Float"},
    {"ID": "ACP", "Number": "R", "Type": "Float"},
    {"ID": "AC", "Number": "A", "Type": "Integer"},
]


def make_hap_vcf(rng, contigs, n_records, alt_range=(0, 6), length_range=(1, 40), with_std_info=True):
    """Non-overlapping haplotype records along the contigs with SNVPOS / END / NVAR filled in."""
    records = []
    names = list(contigs)
    cursor = {c: int(rng.integers(2, 15)) for c in names}
    for i in range(n_records):
        c = names[i % len(names)]
        ln = int(rng.integers(length_range[0], length_range[1] + 1))
        st = cursor[c]
        if st + ln + 5 > len(contigs[c]):
            continue
        cursor[c] = st + ln + int(rng.integers(1, 12))
        n_alts = int(rng.integers(alt_range[0], alt_range[1] + 1))
        r = make_hap_record(rng, contigs, c, st, ln, n_alts, name="hap%03d" % i)
        if with_std_info:
            info = {"END": str(st + ln), "NVAR": str(len(r["var_cols"])), "SNVPOS": ",".join(str(x + 1) for x in r["var_cols"]) if r["var_cols"] else "."}
            r["info"] = info
        records.append(r)
    return records
