"""C13 - haplotype reporting threshold and unknown-allele semantics in assemble.

Monitors
  * return value of the real call_posterior_haplotypes(posteriors, threshold) on generated collections of per-sample
    PosteriorGenotypeDistribution objects (function level);
  * return values of the real _genotype_as_alleles / _genotype_posterior_as_array for the label maps built from that
    return value (helper level);
  * everything the real assemble program.call_sample_genotypes leaves in its LocusAssemblyData (REF, ALT, REFMASKED, GT,
    AFP/ACP/AOP, GP) and the record line it formats, when the sampler is replaced by a stub that returns a generated
    GenotypeMultiTrace, so that the per-sample posterior is known exactly (program level, no BAM files).
Oracle (this file, never imports mchap): Counter/dict occurrence and dosage of every haplotype per sample from the
generated genotype multisets (exact Fractions when all probabilities are k/2^m), the iff-listing rule, the dosage order,
the mode-of-mode-support genotype, VCF genotype indices.
"""

import itertools
import math
from fractions import Fraction

import numpy as np

from vlib import gen
from vlib.oracles import model as M

ID = "C13"
TECHNIQUE = "runtime monitoring: return values of call_posterior_haplotypes and of the GT/GP label helpers on generated posteriors, and the locus data + record line left by the real assemble call_sample_genotypes driven in-process with stub traces; independent occurrence/dosage oracle with exact rational thresholds; wide loci with 130-300 listed alleles"
LEVEL = "exploration"
LEVEL_TEXT = (
    "Exploration: on generated collections of 1-5 per-sample posteriors (ploidy 1-6, 1-5 sites, 1-8 distinct genotypes over a "
    "small shared haplotype pool with and without the reference; probabilities either random floats or exact k/2^m) and "
    "thresholds 0, 1, random, exactly equal to an observed occurrence and one ulp either side of it, the array and flag "
    "returned by the real call_posterior_haplotypes were observed: reference first, listed iff max-sample occurrence >= "
    "threshold (decided exactly for k/2^m probabilities, 1e-9 ambiguity band otherwise), ALT rows in non-increasing order "
    "of dosage summed over the samples meeting the threshold. The real assemble call_sample_genotypes was driven in-process "
    "with stub sampler traces of known content and the REF/ALT/REFMASKED/GT/AFP/ACP/AOP/GP it stored (and the record line "
    "it formatted) were compared with the oracle. Held on what was observed; BAM-driven CLI runs are not part of this check."
)
LEVEL_NOTE = (
    "Trusts the Counter/Fraction oracle in this file and vlib/oracles/model.py (VCF genotype index); program-level cases "
    "replace mchap.application.assemble.DenovoMCMC by a stub returning a real GenotypeMultiTrace and fill the read arrays by "
    "hand, so read extraction and the sampler itself are outside this check. Tolerance 1e-9 on float64 values."
)
RULE = (
    "function case = one (list of per-sample posteriors, threshold) call; program case = one call_sample_genotypes run on a "
    "hand-made locus with stub traces; non-trivial = at least two distinct haplotypes and at least one haplotype whose "
    "listing is decided (outside the ambiguity band); distinct by hash of the full case"
)
LEVEL_TEXT += ' One program-level case per shard lists 130-300 ALT alleles (allele numbers beyond int8 / uint8).'
ASSUMPTIONS = [
    "haplotypes are int8 arrays as produced by the assemble sampler",
    "a haplotype that occurs in no posterior is outside the iff (threshold 0 vs occurrence 0 is treated as ambiguous)",
    "posterior-mode genotype = most probable genotype within the most probable support (set of distinct haplotypes); ties: any",
    "G-length fields count the reference allele even when REFMASKED (VCF Number=G)",
]
TOL = 1e-9
KNOWN_GP = "gp-array-index-error-when-reference-masked"
BASES = "ACGT"


# ---------------------------------------------------------------------------------------------------------------------
# plan


def plan(tier, seed):
    k = 2 if tier == "quick" else 50
    specs = [{"name": "s%02d" % i, "shard": i, "fn_cases": 400 * k, "prog_cases": 40 * k, "timeout": 6000} for i in range(16)]
    specs += [{"name": "bam%d" % i, "kind": "bam", "shard": 100 + i, "datasets": 2 * k, "timeout": 6000} for i in range(4)]
    return specs


def required(tier):
    return {
        "fn_cases": 2500, "fn_exact_cases": 1000, "membership_decided": 5000, "membership_at_exact_threshold": 300,
        "membership_listed": 2000, "membership_excluded": 1000, "ref_flag_decided": 2000, "ref_flag_true": 500,
        "ref_flag_false": 500, "order_pairs_decisive": 2000, "order_distinguishes_occurrence": 100,
        "order_distinguishes_all_samples": 100, "helper_gt_checked": 5000, "helper_gt_with_missing": 500, "helper_gp_checked": 2000,
        "helper_gp_with_excluded_mass": 300, "prog_cases": 150, "prog_refmasked_cases": 20, "prog_alt_listing_checked": 150,
        "prog_gt_checked": 300, "prog_gt_with_missing": 40, "prog_afp_checked": 150, "prog_gp_checked": 60,
        "prog_gp_with_excluded_mass": 15, "prog_record_lines_checked": 100, "prog_exact_threshold_cases": 20,
        "bam_records_checked": 20, "bam_membership_decided": 40, "bam_gt_checked": 40, "prog_cases_with_more_than_127_alts": 8,
    }


# ---------------------------------------------------------------------------------------------------------------------
# oracle (no mchap)


def is_ref(h):
    return not any(h)


def summarise(samples, exact):
    """Per sample: occurrence and dosage of every haplotype.  samples: list of dicts with 'genotypes' (list of lists of
    haplotype lists) and 'p' (list of Fraction or float).  Returns (occ, dose): lists of dict hap-tuple -> number."""
    occs, doses = [], []
    for s in samples:
        o, d = {}, {}
        for g, p in zip(s["genotypes"], s["p"]):
            cnt = {}
            for h in g:
                h = tuple(h)
                cnt[h] = cnt.get(h, 0) + 1
            for h, c in cnt.items():
                o.setdefault(h, []).append(p)
                d.setdefault(h, []).append(p * c)
        if exact:
            occs.append({h: sum(v, Fraction(0)) for h, v in o.items()})
            doses.append({h: sum(v, Fraction(0)) for h, v in d.items()})
        else:
            occs.append({h: math.fsum(v) for h, v in o.items()})
            doses.append({h: math.fsum(v) for h, v in d.items()})
    return occs, doses


def classify(occ, thr, exact):
    """'pass' / 'fail' / 'amb' for one (sample, haplotype) occurrence against the threshold."""
    if exact:
        t = Fraction(thr)
        if occ == 0 and t <= 0:
            return "amb"
        return "pass" if occ >= t else "fail"
    if abs(occ - thr) <= TOL:
        return "amb"
    return "pass" if occ > thr else "fail"


class Expect:
    """What the property demands of the listing for a collection of posteriors and a threshold."""

    def __init__(self, samples, thr, exact):
        self.exact = exact
        self.thr = thr
        self.occ, self.dose = summarise(samples, exact)
        self.haps = sorted({h for o in self.occ for h in o})
        self.n_pos = len(samples[0]["genotypes"][0][0])
        self.ref = tuple([0] * self.n_pos)
        zero = Fraction(0) if exact else 0.0
        self.status, self.lo, self.hi, self.maxocc = {}, {}, {}, {}
        self.alt_occ, self.alt_all = {}, {}
        for h in self.haps + ([self.ref] if self.ref not in self.haps else []):
            st = [classify(o.get(h, zero), thr, exact) for o in self.occ]
            self.status[h] = "pass" if "pass" in st else ("amb" if "amb" in st else "fail")
            self.lo[h] = sum((d.get(h, zero) for d, c in zip(self.dose, st) if c == "pass"), zero)
            self.hi[h] = self.lo[h] + sum((d.get(h, zero) for d, c in zip(self.dose, st) if c == "amb"), zero)
            self.maxocc[h] = max(o.get(h, zero) for o in self.occ)
            # alternative (wrong) orderings, used only to count how often the observation can tell them apart
            self.alt_occ[h] = sum((o.get(h, zero) for o, c in zip(self.occ, st) if c == "pass"), zero)
            self.alt_all[h] = sum((d.get(h, zero) for d in self.dose), zero)
        self.tol = 0 if exact else TOL

    def state(self, h):
        h = tuple(h)
        if h in self.status:
            return self.status[h]
        # occurs in no posterior: occurrence 0
        return classify(Fraction(0) if self.exact else 0.0, self.thr, self.exact)

    def weights(self, h):
        h = tuple(h)
        zero = Fraction(0) if self.exact else 0.0
        return self.lo.get(h, zero), self.hi.get(h, zero)

    def decisive_counts(self):
        """(#ordered pairs whose order is forced, #pairs where ordering by occurrence would be wrong,
        #pairs where summing dosage over all samples would be wrong) among definitely listed ALTs."""
        L = [h for h in self.haps if not is_ref(h) and self.status[h] == "pass"]
        n = a = b = 0
        for h1, h2 in itertools.permutations(L, 2):
            if self.lo[h1] > self.hi[h2] + self.tol:
                n += 1
                if self.alt_occ[h1] < self.alt_occ[h2] - self.tol:
                    a += 1
                if self.alt_all[h1] < self.alt_all[h2] - self.tol:
                    b += 1
        return n, a, b


def check_listing(E, rows, ref_flag, col, prefix=""):
    """rows: observed list of haplotype tuples (row 0 must be the reference); ref_flag: observed 'reference called'.
    Returns list of (mechanism, message)."""
    out = []
    if len(rows) == 0 or tuple(rows[0]) != E.ref:
        out.append(("reference-not-first-allele", "first listed allele is %s, not the all-zero reference" % (list(rows[0]) if len(rows) else None)))
    alts = [tuple(r) for r in rows[1:]] if len(rows) and tuple(rows[0]) == E.ref else [tuple(r) for r in rows if tuple(r) != E.ref]
    seen = set()
    for h in [tuple(r) for r in rows]:
        if h in seen:
            out.append(("haplotype-listed-twice", "haplotype %s listed more than once in %s" % (list(h), [list(r) for r in rows])))
            break
        seen.add(h)
    # membership: iff
    for h in E.haps:
        if is_ref(h):
            continue
        st = E.status[h]
        if st == "amb":
            col.count(prefix + "membership_ambiguous_skipped")
            continue
        col.count(prefix + "membership_decided")
        if E.exact and E.maxocc[h] == Fraction(E.thr):
            col.count(prefix + "membership_at_exact_threshold")
        if st == "pass":
            col.count(prefix + "membership_listed")
            if h not in alts:
                out.append(("haplotype-meeting-threshold-not-listed", "haplotype %s has max occurrence %s >= threshold %r but is not listed" % (list(h), fmt(E.maxocc[h]), E.thr)))
        else:
            col.count(prefix + "membership_excluded")
            if h in alts:
                out.append(("haplotype-below-threshold-listed", "haplotype %s has max occurrence %s < threshold %r but is listed" % (list(h), fmt(E.maxocc[h]), E.thr)))
    for h in alts:
        if h not in E.status and E.state(h) == "fail":
            out.append(("haplotype-below-threshold-listed", "listed haplotype %s occurs in no posterior (threshold %r)" % (list(h), E.thr)))
    # reference flag
    st = E.state(E.ref)
    if st == "amb":
        col.count(prefix + "ref_flag_ambiguous_skipped")
    else:
        col.count(prefix + "ref_flag_decided")
        col.count(prefix + ("ref_flag_true" if st == "pass" else "ref_flag_false"))
        if bool(ref_flag) != (st == "pass"):
            out.append(("reference-called-flag-wrong", "reference max occurrence %s, threshold %r: reference %s the criterion but flag says called=%s"
                        % (fmt(E.maxocc.get(E.ref, 0)), E.thr, "met" if st == "pass" else "did not meet", bool(ref_flag))))
    # order of ALTs: non-increasing summed dosage over samples meeting the threshold
    bad = None
    for i in range(len(alts)):
        for j in range(i + 1, len(alts)):
            lo_j, _ = E.weights(alts[j])
            _, hi_i = E.weights(alts[i])
            if lo_j > hi_i + E.tol:
                bad = bad or (i, j)
    n, a, b = E.decisive_counts()
    col.count(prefix + "order_pairs_decisive", n)
    col.count(prefix + "order_distinguishes_occurrence", 1 if a else 0)
    col.count(prefix + "order_distinguishes_all_samples", 1 if b else 0)
    if bad:
        i, j = bad
        out.append(("alt-order-not-by-decreasing-dosage", "ALT %d %s has summed dosage %s but later ALT %d %s has %s (threshold %r)"
                    % (i + 1, list(alts[i]), fmt(E.weights(alts[i])[1]), j + 1, list(alts[j]), fmt(E.weights(alts[j])[0]), E.thr)))
    return out


def fmt(x):
    if isinstance(x, Fraction):
        return "%s(=%.12g)" % (x, float(x))
    return "%.12g" % x


def mode_candidates(sample, exact):
    """Acceptable called genotypes: most probable genotype(s) of the most probable support(s)."""
    tol = 0 if exact else TOL
    sup = {}
    for g, p in zip(sample["genotypes"], sample["p"]):
        key = frozenset(tuple(h) for h in g)
        sup.setdefault(key, []).append((tuple(sorted(tuple(h) for h in g)), p))
    tot = {k: (sum((p for _, p in v), Fraction(0)) if exact else math.fsum(p for _, p in v)) for k, v in sup.items()}
    best = max(tot.values())
    cands = []
    for k, v in sup.items():
        if tot[k] >= best - tol:
            m = max(p for _, p in v)
            cands.extend(g for g, p in v if p >= m - tol)
    return cands


def expected_gt(genotype, labels):
    """labels: dict hap-tuple -> allele number (unlisted haplotypes absent)."""
    a = sorted(labels[h] for h in genotype if h in labels)
    return a + [-1] * (len(genotype) - len(a))


def expected_gp(sample, labels, n_alleles):
    ploidy = len(sample["genotypes"][0])
    want = [0.0] * M.n_genotypes(n_alleles, ploidy)
    excluded = 0.0
    for g, p in zip(sample["genotypes"], sample["p"]):
        hs = [tuple(h) for h in g]
        if all(h in labels for h in hs):
            want[M.genotype_index(tuple(sorted(labels[h] for h in hs)))] += float(p)
        else:
            excluded += float(p)
    return want, excluded


# ---------------------------------------------------------------------------------------------------------------------
# generators (produce JSON-able case dicts)


def gen_pool(rng, n_pos, lo=2, hi=7):
    n_alleles = [int(x) for x in rng.integers(2, 5, size=n_pos)]
    space = int(np.prod(n_alleles))
    want = min(int(rng.integers(lo, hi + 1)), space)
    with_ref = bool(rng.random() < 0.65)
    pool = set()
    if with_ref:
        pool.add(tuple([0] * n_pos))
    guard = 0
    while len(pool) < want and guard < 200:
        guard += 1
        h = tuple(int(rng.integers(a)) for a in n_alleles)
        if not with_ref and is_ref(h):
            continue
        pool.add(h)
    pool = sorted(pool)
    rng.shuffle(pool)
    return [list(h) for h in pool], n_alleles


def gen_genotypes(rng, pool, ploidy):
    """1-8 distinct multisets of pool haplotypes around a core genotype (so samples and genotypes overlap)."""
    n_want = int(rng.integers(1, 9))
    fixed = int(rng.integers(len(pool))) if rng.random() < 0.3 else None
    free = ploidy - (1 if fixed is not None else 0)
    k = int(rng.integers(1, min(len(pool), max(free, 1)) + 1))
    sub = [int(i) for i in rng.permutation(len(pool))[:k]]
    core = [int(rng.choice(sub)) for _ in range(free)]
    found = {}

    def add(idx):
        full = sorted(idx + ([fixed] if fixed is not None else []))
        found.setdefault(tuple(full), None)

    add(core)
    guard = 0
    while len(found) < n_want and guard < 60:
        guard += 1
        g = list(core)
        for _ in range(int(rng.integers(1, 3))):
            if free:
                g[int(rng.integers(free))] = int(rng.integers(len(pool)))
        add(g)
    out = []
    for idx in found:
        idx = list(idx)
        rng.shuffle(idx)
        out.append([list(pool[i]) for i in idx])
    return out


def gen_counts(rng, n, total):
    """n positive integers summing to total (total >= n)."""
    a = rng.dirichlet(np.ones(n) * float(rng.choice([0.3, 1.0, 3.0])))
    c = rng.multinomial(total - n, a) + 1
    return [int(x) for x in c]


def gen_probs(rng, n, exact):
    if exact:
        kmin = max(0, math.ceil(math.log2(n)))
        N = 2 ** int(rng.integers(kmin, 11))
        if N < n:
            N *= 2
        return {"counts": gen_counts(rng, n, N), "N": N}
    p = rng.dirichlet(np.ones(n) * float(rng.choice([0.3, 1.0, 3.0])))
    p = np.maximum(p, 1e-12)
    p = p / p.sum()
    return {"probs": [float(x) for x in p]}


def sample_p(s, exact):
    if exact:
        return [Fraction(c, s["N"]) for c in s["counts"]]
    return list(s["probs"])


def pick_threshold(rng, samples, exact):
    """0, 1, random, an observed occurrence exactly, one ulp either side of it, between two occurrences, 0.2 default."""
    view = [{"genotypes": s["genotypes"], "p": sample_p(s, exact)} for s in samples]
    occ, _ = summarise(view, exact)
    vals = sorted({float(v) for o in occ for v in o.values()})
    r = rng.random()
    if r < 0.08:
        return 0.0, "zero"
    if r < 0.18:
        return 1.0, "one"
    if r < 0.38:
        return float(rng.uniform(0, 1)), "random"
    if r < 0.43:
        return 0.2, "default"
    v = vals[int(rng.integers(len(vals)))]
    if r < 0.78:
        return v, "at-occurrence"
    if r < 0.86:
        return float(np.nextafter(v, 2.0)), "ulp-above"
    if r < 0.92 and v > 0:
        return float(np.nextafter(v, -1.0)), "ulp-below"
    if len(vals) >= 2:
        i = int(rng.integers(len(vals) - 1))
        return (vals[i] + vals[i + 1]) / 2, "between"
    return v / 2, "between"


def gen_fn_case(rng):
    n_pos = int(rng.integers(1, 6))
    pool, n_alleles = gen_pool(rng, n_pos)
    n_s = int(rng.integers(1, 6))
    exact = bool(rng.random() < 0.6)
    same = rng.random() < 0.5
    p0 = int(rng.integers(1, 7))
    samples = []
    for _ in range(n_s):
        ploidy = p0 if same else int(rng.integers(1, 7))
        sub = pool if rng.random() < 0.6 or len(pool) < 3 else [pool[i] for i in rng.permutation(len(pool))[: int(rng.integers(2, len(pool)))]]
        g = gen_genotypes(rng, sub, ploidy)
        s = {"ploidy": ploidy, "genotypes": g}
        s.update(gen_probs(rng, len(g), exact))
        if rng.random() < 0.5:
            # posterior() sorts by decreasing probability; the function must not depend on it
            key = s["counts"] if exact else s["probs"]
            order = sorted(range(len(g)), key=lambda i: -key[i])
            s["genotypes"] = [g[i] for i in order]
            if exact:
                s["counts"] = [s["counts"][i] for i in order]
            else:
                s["probs"] = [s["probs"][i] for i in order]
        samples.append(s)
    thr, how = pick_threshold(rng, samples, exact)
    return {"kind": "fn", "n_pos": n_pos, "exact": exact, "threshold": thr, "threshold_kind": how, "samples": samples}


def gen_prog_case(rng):
    n_pos = int(rng.integers(1, 6))
    pool, n_alleles = gen_pool(rng, n_pos)
    L = n_pos + int(rng.integers(0, 6))
    seq = "".join(BASES[int(i)] for i in rng.integers(0, 4, size=L))
    offs = sorted(int(i) for i in rng.permutation(L)[:n_pos])
    variants = []
    for o, na in zip(offs, n_alleles):
        others = [b for b in BASES if b != seq[o]]
        rng.shuffle(others)
        variants.append({"offset": o, "alleles": [seq[o]] + others[: na - 1]})
    exact = bool(rng.random() < 0.6)
    chains = int(rng.choice([1, 2, 4] if exact else [1, 2, 3]))
    keep = int(2 ** rng.integers(3, 7)) if exact else int(rng.integers(8, 70))
    burn = int(rng.choice([0, 1, 5, 13]))
    n_s = int(rng.integers(1, 6))
    same = rng.random() < 0.5
    p0 = int(rng.integers(1, 7))
    R = chains * keep
    samples = []
    for i in range(n_s):
        ploidy = p0 if same else int(rng.integers(1, 7))
        sub = pool if rng.random() < 0.6 or len(pool) < 3 else [pool[j] for j in rng.permutation(len(pool))[: int(rng.integers(2, len(pool)))]]
        g = gen_genotypes(rng, sub, ploidy)
        g = g[: min(len(g), R)]
        n_reads = int(rng.integers(0, 6))
        calls = [[int(rng.integers(-1, a)) for a in n_alleles] for _ in range(n_reads)]
        samples.append({"name": "S%d" % i, "ploidy": ploidy, "genotypes": g, "counts": gen_counts(rng, len(g), R), "N": R,
                        "read_calls": calls, "read_counts": [int(x) for x in rng.integers(1, 4, size=n_reads)]})
    view = [{"genotypes": s["genotypes"], "counts": s["counts"], "N": R, "probs": [c / R for c in s["counts"]]} for s in samples]
    thr, how = pick_threshold(rng, view, exact)
    opts = [f for f in ("AFP", "ACP", "AOP", "GP") if rng.random() < 0.6]
    info_opts = [f for f in ("AFP", "ACP", "AOP", "AOPSUM") if rng.random() < 0.3]
    return {"kind": "prog", "n_pos": n_pos, "sequence": seq, "start": int(rng.integers(0, 1000)), "variants": variants, "exact": exact,
            "chains": chains, "keep": keep, "burn": burn, "threshold": thr, "threshold_kind": how, "samples": samples,
            "format": opts, "info": info_opts, "layout_seed": int(rng.integers(1, 2**31 - 1)), "pool": pool}


def gen_prog_case_wide(rng):
    """A locus at which MANY haplotypes are listed (130-300 ALT alleles: beyond int8 / uint8 allele numbers): 30-60 samples
    of ploidy 4-6, each certain of a genotype made of its own private haplotypes plus, sometimes, a shared one."""
    n_pos = int(rng.integers(9, 11))
    n_alleles = [2] * n_pos
    L = n_pos + int(rng.integers(0, 4))
    seq = "".join(BASES[int(i)] for i in rng.integers(0, 4, size=L))
    offs = sorted(int(i) for i in rng.permutation(L)[:n_pos])
    variants = []
    for o in offs:
        others = [b for b in BASES if b != seq[o]]
        rng.shuffle(others)
        variants.append({"offset": o, "alleles": [seq[o]] + others[:1]})
    n_s = int(rng.integers(30, 61))
    codes = [int(c) for c in rng.permutation(np.arange(1, 2 ** n_pos))]   # all non-reference haplotypes, shuffled
    haps = [[(c >> j) & 1 for j in range(n_pos)] for c in codes]
    shared = haps.pop()
    ref = [0] * n_pos
    chains, keep, burn = 2, 16, int(rng.choice([0, 5]))
    R = chains * keep
    samples = []
    for i in range(n_s):
        ploidy = int(rng.integers(4, 7))
        g = [haps.pop() for _ in range(ploidy - 1)]
        g.append([ref, shared, haps.pop()][int(rng.integers(3))])
        rng.shuffle(g)
        samples.append({"name": "S%d" % i, "ploidy": ploidy, "genotypes": [g], "counts": [R], "N": R, "read_calls": [], "read_counts": []})
    pool = [ref, shared] + [h for s_ in samples for h in s_["genotypes"][0]]
    return {"kind": "prog", "wide": True, "n_pos": n_pos, "sequence": seq, "start": int(rng.integers(0, 1000)), "variants": variants, "exact": True,
            "chains": chains, "keep": keep, "burn": burn, "threshold": float(rng.choice([0.0, 0.2, 1.0])), "threshold_kind": "fixed", "samples": samples,
            "format": [f for f in ("AFP", "AOP") if rng.random() < 0.5], "info": [], "layout_seed": int(rng.integers(1, 2**31 - 1)), "pool": pool}


# ---------------------------------------------------------------------------------------------------------------------
# function-level runner


def report(col, found, case):
    seen = set()
    for mech, msg in found:
        if mech in seen:
            continue
        seen.add(mech)
        col.violation(mech, msg, case)


def run_fn_case(case, col):
    from mchap.application.assemble import _genotype_as_alleles, _genotype_posterior_as_array
    from mchap.assemble import call_posterior_haplotypes
    from mchap.assemble.classes import PosteriorGenotypeDistribution

    exact = case["exact"]
    thr = case["threshold"]
    n_pos = case["n_pos"]
    view = [{"genotypes": s["genotypes"], "p": sample_p(s, exact)} for s in case["samples"]]
    posts = []
    for s, v in zip(case["samples"], view):
        g = np.array(s["genotypes"], dtype=np.int8).reshape(len(s["genotypes"]), s["ploidy"], n_pos)
        posts.append(PosteriorGenotypeDistribution(g, np.array([float(p) for p in v["p"]], dtype=float)))
    E = Expect(view, thr, exact)
    haps, ref_obs = call_posterior_haplotypes(posts, threshold=thr)
    col.count("fn_cases")
    col.count("fn_exact_cases" if exact else "fn_float_cases")
    col.count("fn_threshold_" + case.get("threshold_kind", "replay"))
    col.add_to_set("fn_sample_counts", len(posts))
    found = []
    ok_shape = isinstance(haps, np.ndarray) and haps.ndim == 2 and haps.shape[1] == n_pos and haps.shape[0] >= 1
    if not ok_shape:
        found.append(("listing-malformed", "returned array of shape %s for %d sites" % (getattr(haps, "shape", None), n_pos)))
        rows = []
    else:
        rows = [tuple(int(a) for a in r) for r in haps]
        if any(a < 0 for r in rows for a in r):
            found.append(("listing-malformed", "returned haplotypes contain negative alleles: %s" % haps.tolist()))
    if ok_shape:
        found += check_listing(E, rows, ref_obs, col)
    decided = sum(1 for h in E.haps if E.status[h] != "amb")
    col.case(case, nontrivial=(len(E.haps) >= 2 and decided >= 1))
    col.maxv("max_listed_alleles", len(rows))

    # ---- helper level: label maps built from the returned array exactly as the program builds them
    if ok_shape and len(set(rows)) == len(rows):
        labels_full_b = {h.tobytes(): i for i, h in enumerate(haps)}
        labels_b = dict(labels_full_b)
        labels_t = {r: i for i, r in enumerate(rows)}
        labels_full_t = dict(labels_t)
        if not ref_obs:
            labels_b.pop(haps[0].tobytes())
            labels_t.pop(rows[0])
        for s, v, post in zip(case["samples"], view, posts):
            for gi in range(len(s["genotypes"])):
                got = _genotype_as_alleles(post.genotypes[gi], labels_b)
                want = expected_gt([tuple(h) for h in s["genotypes"][gi]], labels_t)
                col.count("helper_gt_checked")
                if -1 in want:
                    col.count("helper_gt_with_missing")
                if [int(a) for a in got] != want and sorted(int(a) for a in got) == sorted(want):
                    found.append(("gt-missing-allele-not-sorted-last", "_genotype_as_alleles(%s) = %s, want %s" % (s["genotypes"][gi], [int(a) for a in got], want)))
                elif [int(a) for a in got] != want:
                    found.append(("gt-does-not-encode-genotype-with-unlisted-as-missing",
                                  "_genotype_as_alleles(%s) = %s, want %s with labels %s" % (s["genotypes"][gi], [int(a) for a in got], want, {str(k): v2 for k, v2 in labels_t.items()})))
            if M.n_genotypes(len(rows), s["ploidy"]) <= 5000:
                got = _genotype_posterior_as_array(post, labels_full_b)
                want, excl = expected_gp(v, labels_full_t, len(rows))
                col.count("helper_gp_checked")
                if excl > 0:
                    col.count("helper_gp_with_excluded_mass")
                found += compare_gp(got, want, "helper ")
    report(col, found, case)
    return found


def compare_gp(got, want, what=""):
    out = []
    got = np.asarray(got, dtype=float)
    if got.shape != (len(want),):
        out.append(("gp-wrong-length", "%sGP has shape %s, want length %d" % (what, got.shape, len(want))))
        return out
    d = np.abs(got - np.array(want))
    if len(d) and float(d.max()) > TOL:
        i = int(d.argmax())
        out.append(("gp-mass-misplaced", "%sGP[%d] = %.12g, want %.12g (genotype index in VCF order)" % (what, i, got[i], want[i])))
    if float(got.sum()) > 1 + TOL:
        out.append(("gp-sum-exceeds-one", "%sGP sums to %.12g" % (what, float(got.sum()))))
    return out


# ---------------------------------------------------------------------------------------------------------------------
# program-level runner


def build_trace(case, s, rng):
    """(chains, burn+keep, ploidy, n_pos) int8: retained part holds each genotype exactly counts[i] times (shuffled over
    chains and steps, rows shuffled within a step); the burn-in part holds decoys."""
    chains, keep, burn, n_pos = case["chains"], case["keep"], case["burn"], case["n_pos"]
    flat = []
    for g, c in zip(s["genotypes"], s["counts"]):
        flat.extend([g] * c)
    order = rng.permutation(len(flat))
    out = np.zeros((chains, burn + keep, s["ploidy"], n_pos), dtype=np.int8)
    n_alleles = [len(v["alleles"]) for v in case["variants"]]
    k = 0
    for c in range(chains):
        for t in range(burn):
            for r in range(s["ploidy"]):
                # decoys: the reference or an arbitrary haplotype
                out[c, t, r] = 0 if rng.random() < 0.5 else [int(rng.integers(a)) for a in n_alleles]
        for t in range(keep):
            g = np.array(flat[order[k]], dtype=np.int8).reshape(s["ploidy"], n_pos)
            out[c, burn + t] = g[rng.permutation(s["ploidy"])]
            k += 1
    return out


def hap_string(case, h):
    chars = list(case["sequence"])
    for v, a in zip(case["variants"], h):
        chars[v["offset"]] = v["alleles"][a]
    return "".join(chars)


def run_prog_case(case, col, drop_gp=False):
    import mchap.application.assemble as A
    import mchap.io.vcf.columns as COLUMN
    import mchap.io.vcf.formatfields as FORMAT
    import mchap.io.vcf.infofields as INFO
    from mchap.application.baseclass import SampleAssemblyError
    from mchap.assemble.classes import GenotypeMultiTrace
    from mchap.io.loci import SNP, Locus

    exact = case["exact"]
    thr = case["threshold"]
    n_pos = case["n_pos"]
    names = [s["name"] for s in case["samples"]]
    fmt_ids = [f for f in case["format"] if not (drop_gp and f == "GP")]
    format_fields = FORMAT.DEFAULT_FIELDS.copy() + [f for f in FORMAT.OPTIONAL_FIELDS if f.id in fmt_ids]
    info_fields = INFO.DEFAULT_FIELDS.copy() + [f for f in INFO.OPTIONAL_FIELDS if f.id in case["info"]]
    start = case["start"]
    locus = Locus(contig="chr1", start=start, stop=start + len(case["sequence"]), name="L0", sequence=case["sequence"],
                  variants=tuple(SNP("chr1", start + v["offset"], start + v["offset"] + 1, ".", tuple(v["alleles"])) for v in case["variants"]))
    prog = A.program(
        vcf="", ref="", samples=names, sample_bams={n: [] for n in names}, sample_ploidy={s["name"]: s["ploidy"] for s in case["samples"]},
        sample_inbreeding={n: 0.0 for n in names}, info_fields=info_fields, format_fields=format_fields,
        haplotype_posterior_threshold=thr, mcmc_chains=case["chains"], mcmc_steps=case["burn"] + case["keep"], mcmc_burn=case["burn"],
        sample_mcmc_temperatures={n: [1.0] for n in names},
    )
    data = prog._locus_data(locus, prog.sample_bams)
    lrng = np.random.default_rng(case["layout_seed"])
    traces = []
    n_nucl = max(len(v["alleles"]) for v in case["variants"])
    for s in case["samples"]:
        tr = build_trace(case, s, lrng)
        traces.append((s, tr))
        calls = np.array(s["read_calls"], dtype=np.int8).reshape(len(s["read_calls"]), n_pos)
        dists = np.zeros((len(calls), n_pos, n_nucl), dtype=float)
        for r in range(len(calls)):
            for j in range(n_pos):
                na = len(case["variants"][j]["alleles"])
                if calls[r, j] < 0:
                    dists[r, j, :] = np.nan
                else:
                    dists[r, j, :na] = 0.0024 / 3
                    dists[r, j, calls[r, j]] = 1 - 0.0024
        data.read_calls[s["name"]] = calls
        data.read_dists[s["name"]] = dists
        data.read_counts[s["name"]] = np.array(s["read_counts"], dtype=np.int64)
        data.sampledata[FORMAT.RCOUNT][s["name"]] = int(sum(s["read_counts"]))
        data.sampledata[FORMAT.RCALLS][s["name"]] = int((calls >= 0).sum())
        data.sampledata[FORMAT.DP][s["name"]] = float(len(calls))
        data.sampledata[FORMAT.SNVDP][s["name"]] = np.full(n_pos, float(len(calls)))

    # ---- stub sampler: returns the generated traces in sample order, records how it was parameterised
    queue = list(traces)
    seen_kwargs = []

    class StubMCMC(object):
        def __init__(self, **kwargs):
            self.kwargs = kwargs

        def fit(self, reads=None, read_counts=None, **kw):
            s, tr = queue.pop(0)
            seen_kwargs.append((s, self.kwargs))
            return GenotypeMultiTrace(tr, np.zeros(tr.shape[:2], dtype=float))

    real = A.DenovoMCMC
    A.DenovoMCMC = StubMCMC
    raised = None
    try:
        try:
            prog.call_sample_genotypes(data)
        except Exception as ex:  # noqa
            raised = ex
    finally:
        A.DenovoMCMC = real

    found = []
    view = [{"genotypes": s["genotypes"], "p": [Fraction(c, s["N"]) if exact else c / s["N"] for c in s["counts"]]} for s in case["samples"]]
    E = Expect(view, thr, exact)
    ref_status = E.state(E.ref)
    want_gp = "GP" in fmt_ids

    if raised is not None:
        cause = raised.__cause__ if isinstance(raised, SampleAssemblyError) and raised.__cause__ is not None else raised
        if isinstance(cause, IndexError) and want_gp and ref_status != "pass" and not drop_gp:
            col.count("prog_gp_index_error_refmasked")
            col.violation(KNOWN_GP, "call_sample_genotypes raised %s: %s with FORMAT/GP requested and the reference haplotype not called "
                          "(reference max occurrence %s < threshold %r; %d ALT): the GP array is sized from a label map without the reference"
                          % (type(cause).__name__, cause, fmt(E.maxocc.get(E.ref, 0)), thr, sum(1 for h in E.haps if not is_ref(h) and E.status[h] == "pass")), case)
            # the remaining observations of this case are still wanted: same case without GP
            return run_prog_case(case, col, drop_gp=True)
        col.violation("call-sample-genotypes-raised", "call_sample_genotypes raised %s: %s (cause %s: %s)" % (type(raised).__name__, raised, type(cause).__name__, cause), case)
        col.count("prog_cases_raised")
        if want_gp and not drop_gp:
            return run_prog_case(case, col, drop_gp=True)
        return

    # harness sanity: the stub was asked once per sample with that sample's ploidy
    if len(seen_kwargs) != len(names) or any(kw.get("ploidy") != s["ploidy"] or kw.get("steps") != case["burn"] + case["keep"] or kw.get("chains") != case["chains"] for s, kw in seen_kwargs):
        col.inconclusive_note("stub sampler was not parameterised as expected: %s" % [(s["name"], kw.get("ploidy"), kw.get("steps"), kw.get("chains")) for s, kw in seen_kwargs])
        return

    col.count("prog_cases")
    col.count("prog_exact_cases" if exact else "prog_float_cases")
    col.count("prog_threshold_" + case.get("threshold_kind", "replay"))
    if exact and case.get("threshold_kind") in ("at-occurrence", "one", "ulp-above", "ulp-below"):
        col.count("prog_exact_threshold_cases")

    # ---- REF / ALT / REFMASKED
    ref_col = data.columndata.get(COLUMN.REF)
    alts_s = list(data.columndata.get(COLUMN.ALT))
    masked = data.infodata[INFO.REFMASKED]
    if ref_col != case["sequence"]:
        found.append(("ref-column-wrong", "REF %r, locus sequence %r" % (ref_col, case["sequence"])))
    space = {}
    for h in itertools.product(*[range(len(v["alleles"])) for v in case["variants"]]):
        space[hap_string(case, h)] = h
    rows = [E.ref]
    unknown = [a for a in alts_s if a not in space]
    if unknown:
        found.append(("alt-string-not-a-haplotype", "ALT %s cannot be decoded over the locus variants" % unknown))
    else:
        rows += [space[a] for a in alts_s]
        col.count("prog_alt_listing_checked")
        found += check_listing(E, rows, not masked, col, prefix="prog_")
    if not isinstance(masked, (bool, np.bool_)):
        found.append(("refmasked-flag-wrong", "REFMASKED info value is %r, not a flag" % (masked,)))
    if masked:
        col.count("prog_refmasked_cases")
    col.maxv("prog_max_alts", len(alts_s))
    decided = sum(1 for h in E.haps if E.status[h] != "amb")
    col.case(case, nontrivial=(len(E.haps) >= 2 and decided >= 1))

    if not unknown and len(set(rows)) == len(rows):
        labels = {h: i for i, h in enumerate(rows)}
        if masked:
            labels.pop(E.ref)
        n_alleles = len(rows)
        for s, v in zip(case["samples"], view):
            name, ploidy = s["name"], s["ploidy"]
            # ---- GT
            gt = [int(a) for a in data.sampledata[FORMAT.GT][name]]
            col.count("prog_gt_checked")
            if masked and 0 in gt:
                found.append(("gt-uses-masked-reference", "REFMASKED but sample %s GT is %s" % (name, gt)))
            cands = mode_candidates(v, exact)
            wants = [expected_gt(g, labels) for g in cands]
            if any(-1 in w for w in wants):
                col.count("prog_gt_with_missing")
            if gt not in wants:
                if any(sorted(gt) == sorted(w) for w in wants):
                    found.append(("gt-missing-allele-not-sorted-last", "sample %s GT %s, want %s" % (name, gt, wants[0])))
                else:
                    found.append(("gt-does-not-encode-genotype-with-unlisted-as-missing", "sample %s GT %s; mode genotype(s) %s over alleles %s give %s"
                                  % (name, gt, [[list(h) for h in g] for g in cands], {str(list(k)): i for k, i in labels.items()}, wants)))
            # ---- AFP / ACP / AOP
            if prog.require_AFP():
                afp = np.asarray(data.sampledata[FORMAT.AFP][name], dtype=float)
                acp = np.asarray(data.sampledata[FORMAT.ACP][name], dtype=float)
                aop = np.asarray(data.sampledata[FORMAT.AOP][name], dtype=float)
                col.count("prog_afp_checked")
                si = case["samples"].index(s)
                if afp.shape != (n_alleles,) or acp.shape != (n_alleles,) or aop.shape != (n_alleles,):
                    found.append(("afp-wrong-length", "sample %s AFP/ACP/AOP shapes %s %s %s for %d alleles" % (name, afp.shape, acp.shape, aop.shape, n_alleles)))
                else:
                    if afp.sum() > 1 + TOL or acp.sum() > ploidy * (1 + TOL) or (len(aop) and aop.max() > 1 + TOL) or afp.min() < -TOL:
                        found.append(("afp-sum-exceeds-one", "sample %s AFP %s (sum %.12g) ACP sum %.12g ploidy %d AOP max %.12g" % (name, afp.tolist(), afp.sum(), acp.sum(), ploidy, aop.max())))
                    for h, i in labels.items():
                        d = float(E.dose[si].get(h, 0))
                        o = float(E.occ[si].get(h, 0))
                        if abs(afp[i] - d / ploidy) > TOL or abs(acp[i] - d) > TOL * ploidy or abs(aop[i] - o) > TOL:
                            found.append(("afp-misaligned-with-alleles", "sample %s allele %d %s: AFP %.12g ACP %.12g AOP %.12g, posterior frequency %.12g dosage %.12g occurrence %.12g"
                                          % (name, i, list(h), afp[i], acp[i], aop[i], d / ploidy, d, o)))
                            break
            # ---- GP
            if want_gp:
                got = np.asarray(data.sampledata[FORMAT.GP][name], dtype=float)
                want, excl = expected_gp(v, labels, n_alleles)
                if got.size == 0 and not any(want):
                    # empty array is written as the VCF missing value '.'; nothing could be placed anyway
                    col.count("prog_gp_missing_value_accepted")
                elif masked and got.shape != (len(want),):
                    col.count("prog_gp_short_array_refmasked")
                    col.violation(KNOWN_GP, "REFMASKED record with FORMAT/GP requested: no IndexError this time but sample %s GP has length %d, a G-length field over %d alleles "
                                  "(reference + %d ALT) at ploidy %d has %d entries: the array is sized from a label map without the reference"
                                  % (name, got.size, n_alleles, n_alleles - 1, ploidy, len(want)), case)
                else:
                    col.count("prog_gp_checked")
                    if excl > 0:
                        col.count("prog_gp_with_excluded_mass")
                    found += compare_gp(got, want, "sample %s " % name)

        # ---- the record line the program formats from this data
        try:
            prog.sumarise_vcf_record(data)
            line = data.format_vcf_record()
        except Exception as ex:  # formatting is not the subject here; only count
            col.count("prog_record_format_raised")
            col.add_to_set("prog_record_format_errors", "%s: %s" % (type(ex).__name__, str(ex)[:100]))
            line = None
        if line is not None:
            f = line.split("\t")
            col.count("prog_record_lines_checked")
            talts = [] if f[4] == "." else f[4].split(",")
            flags = f[7].split(";")
            keys = f[8].split(":")
            if f[3] != case["sequence"] or talts != alts_s:
                found.append(("record-line-differs-from-locus-data", "line REF/ALT %s %s, data %s %s" % (f[3], f[4], ref_col, alts_s)))
            if ("REFMASKED" in flags) != bool(masked):
                found.append(("refmasked-flag-wrong", "record INFO %r but REFMASKED data value %s" % (f[7], masked)))
            for s, col_s in zip(case["samples"], f[9:]):
                gts = col_s.split(":")[keys.index("GT")]
                gt = [int(a) for a in data.sampledata[FORMAT.GT][s["name"]]]
                want = "/".join("." if a < 0 else str(a) for a in gt)
                toks = gts.split("/")
                if gts != want or any(t == "." for t in toks[: len(toks) - toks.count(".")]):
                    found.append(("record-line-differs-from-locus-data", "sample %s GT text %r, data %s" % (s["name"], gts, gt)))
                if masked and "0" in toks:
                    found.append(("gt-uses-masked-reference", "REFMASKED record, sample %s GT text %s" % (s["name"], gts)))
                for key in ("AFP", "GP"):
                    if key in keys:
                        txt = col_s.split(":")[keys.index(key)]
                        vals = [float(x) for x in txt.split(",") if x != "."]
                        if sum(vals) > 1 + 0.0005 * len(vals) + TOL:
                            found.append(("afp-sum-exceeds-one" if key == "AFP" else "gp-sum-exceeds-one", "sample %s %s text %s sums to %.6g" % (s["name"], key, txt, sum(vals))))
    report(col, found, case)
    return found


# ---------------------------------------------------------------------------------------------------------------------
# shard / replay


def run_bam(tier, seed, spec, col):
    """Real `mchap assemble` on generated BAMs: the posteriors handed to call_posterior_haplotypes are captured
    (module-level name wrapped from the harness) and the emitted ALT / REFMASKED / GT judged by the same oracle."""
    import shutil

    from mchap.application import assemble as ASM

    from vlib import cli, datasets, env, monitors, vcfparse

    for d in range(spec["datasets"]):
        rng = gen.rng_for(seed, ID, spec["shard"], d)
        root = env.workdir("c13-%s-%d" % (spec["name"], d))
        shutil.rmtree(root, ignore_errors=True)
        ploidy = int(rng.choice([2, 4]))
        ds = datasets.make_dataset(rng, root, n_samples=int(rng.integers(1, 4)), n_loci=int(rng.integers(3, 6)), ploidy=[ploidy], depth=(3, 14),
                                   contig_len=700, snv_range=(1, 4), hostile=0.1)
        thr = float(rng.choice([0.0, 0.05, 0.2, 0.5, 0.9, 1.0])) if rng.random() < 0.7 else float(rng.uniform(0, 1))
        captured = []
        real = ASM.call_posterior_haplotypes

        def spy(posteriors, threshold=0.01):
            out = real(posteriors, threshold=threshold)
            captured.append(([{"genotypes": np.asarray(p.genotypes).tolist(), "p": [float(x) for x in p.probabilities]} for p in posteriors], float(threshold)))
            return out

        args = ["assemble", "--bam"] + ds.bams + ["--targets", ds.bed, "--variants", ds.vcf, "--reference", ds.fasta, "--ploidy", str(ploidy),
                                                  "--mcmc-steps", "200", "--mcmc-burn", "100", "--haplotype-posterior-threshold", repr(thr),
                                                  "--mcmc-seed", str(int(rng.choice([0, 5, 42]))), "--inbreeding", repr(float(rng.choice([0.0, 0.0, 0.2])))]
        with monitors.patched((ASM, "call_posterior_haplotypes", spy)):
            out, exc = cli.run_inproc(args)
        case = {"kind": "bam", "dataset": [seed, spec["shard"], d], "threshold": thr}
        col.case(case, nontrivial=True)
        if exc is not None:
            col.violation("call-sample-genotypes-raised", "assemble raised %r on a generated BAM dataset" % exc, case)
            shutil.rmtree(root, ignore_errors=True)
            continue
        h, recs = vcfparse.parse(out)
        if len(recs) != len(captured) or len(recs) != len(ds.loci):
            col.inconclusive_note("captured %d posterior sets for %d records" % (len(captured), len(recs)))
            shutil.rmtree(root, ignore_errors=True)
            continue
        for rec, (samples, t_seen), L in zip(recs, captured, ds.loci):
            col.count("bam_records_checked")
            if abs(t_seen - thr) > 1e-12:
                col.violation("threshold-option-not-forwarded", "--haplotype-posterior-threshold %r reached call_posterior_haplotypes as %r" % (thr, t_seen), case)
            if not L["snvs"]:
                continue
            E = Expect(samples, thr, False)
            offs = [v["pos0"] - L["start"] for v in L["snvs"]]
            alleles = [[v["ref"]] + v["alts"] for v in L["snvs"]]

            def encode(seq):
                return tuple(al.index(seq[o]) for o, al in zip(offs, alleles))

            try:
                rows = [encode(rec.ref)] + [encode(a) for a in rec.alts]
            except ValueError:
                col.violation("alt-uses-base-not-in-variants", "record %s:%d has an ALT base that is not an allele of the input SNVs" % (rec.chrom, rec.pos), case)
                continue
            found = check_listing(E, rows, "REFMASKED" not in rec.info, col, prefix="bam_")
            for mech, msg in found:
                col.violation(mech, "assemble %s:%d (threshold %r): %s" % (rec.chrom, rec.pos, thr, msg), case)
            labels = {r: i for i, r in enumerate(rows)}
            if "REFMASKED" in rec.info:
                labels.pop(rows[0], None)
            for smp, sample in zip(h.samples, samples):
                gt, _ = rec.gt(smp)
                obs = [(-1 if a is None else a) for a in gt]
                col.count("bam_gt_checked")
                if "REFMASKED" in rec.info and 0 in obs:
                    col.violation("gt-uses-masked-reference", "assemble %s:%d sample %s GT %s although REFMASKED" % (rec.chrom, rec.pos, smp, gt), case)
                cands = [expected_gt(g, labels) for g in mode_candidates(sample, False)]
                if obs not in cands:
                    col.violation("gt-does-not-encode-genotype-with-unlisted-as-missing", "assemble %s:%d sample %s GT %s; acceptable %s" % (rec.chrom, rec.pos, smp, obs, cands[:3]), case)
        if d == 0 and spec["shard"] == 100:
            col.sample({"bam_case": case, "records": len(recs), "first_alts": recs[0].alts[:3] if recs else None})
        shutil.rmtree(root, ignore_errors=True)


def run_shard(tier, seed, spec, col):
    if spec.get("kind") == "bam":
        return run_bam(tier, seed, spec, col)
    sh = spec["shard"]
    for i in range(spec["fn_cases"]):
        rng = gen.rng_for(seed, ID, sh, i)
        case = gen_fn_case(rng)
        run_fn_case(case, col)
        if sh == 0 and i < 2:
            col.sample(case)
    for i in range(spec["prog_cases"]):
        rng = gen.rng_for(seed, ID, 1000 + sh, i)
        wide = i == 1 or (tier == "thorough" and i % 40 == 1)
        case = gen_prog_case_wide(rng) if wide else gen_prog_case(rng)
        if wide:
            col.count("prog_cases_with_more_than_127_alts")
        run_prog_case(case, col)
        if sh == 0 and i == 0:
            col.sample({k: v for k, v in case.items() if k != "pool"})


def replay(obj, col):
    case = obj["case"]
    if case["kind"] == "bam":
        col.inconclusive_note("BAM-driven cases: rerun the tier with the same VERIF_SEED")
    elif case["kind"] == "fn":
        run_fn_case(case, col)
    else:
        run_prog_case(case, col)
