"""C12 - haplotype encode/decode round-trips; assemble output is valid call input.

Monitors
  fn    LocusPrior.from_variant_record / encode_haplotypes / Locus.format_haplotypes on generated fixed-length
        multi-allelic records read back through pysam (the way call* reads its --haplotypes file);
  pipe  stdout of call and call-exact given the stdout of assemble (in-process CLI runs on generated BAM datasets),
        plus the SNVPOS assemble reported vs the polymorphic columns of its REF/ALT.
Oracle: plain string comparison of sequences; column-wise polymorphism computed from the text.
"""

import os
import shutil

import numpy as np

from vlib import cli, datasets, env, gen, hapvcf, vcfparse

ID = "C12"
TECHNIQUE = "runtime monitoring: return values of the real record->integer->string round trip on generated haplotype records, and CLI pipelines assemble -> call / call-exact on generated BAM datasets parsed with an independent VCF parser"
LEVEL = "exploration"
LEVEL_TEXT = (
    "Exploration: thousands of generated fixed-length haplotype records (length 1-60, 0-7 ALTs, 0-10 variable sites with 2-4 bases, "
    "ALT-less and SNV-less records, REFMASKED) are read back with pysam exactly as the call programs do and pushed through the "
    "real encode/decode functions: sequences must round-trip exactly, recovered SNV positions must be the polymorphic columns, "
    "allele 0 must be the REF base and numbering by first appearance. Dozens of assemble outputs on generated BAM datasets "
    "(including REFMASKED, ALT-less and SNV-less records) are piped through call and call-exact: CHROM/POS/REF/ALT preserved, "
    "every genotype complete unless NOA/AF0, and assemble's SNVPOS contains the polymorphic columns of its REF/ALT."
)
LEVEL_TEXT += ' Session 3: mixed-ploidy pipelines with a per-sample ploidy file.'
LEVEL_TEXT += ' Session 4: pooled assemblies (named pool / pool file with a shared member), wide loci (130-200 SNVs), two samples per BAM, and the documented two-step workflow in which call / call-exact take assemble\'s INFO AFP as --prior-frequencies.'
LEVEL_TEXT += ' Also: records read with a prior-frequency tag holding zeros (as --prior-frequencies does) and soft-masked lower-case stretches must round-trip exactly.'
LEVEL_NOTE = "Trusts pysam's VCF reader (it is part of the product's input path) and the independent text parser in vlib/vcfparse.py."
RULE = (
    "case = one generated haplotype record (function level) or one (dataset, program) pipeline run; non-trivial = record with >=1 ALT "
    "and >=1 variable site, or a pipeline with >=1 record carrying ALTs; distinct by hash of the record text / dataset parameters"
)
ASSUMPTIONS = ["haplotype records have fixed length (all ALTs as long as REF), as every MCHap program writes them"]


def plan(tier, seed):
    q = tier == "quick"
    specs = [{"name": "fn%02d" % i, "kind": "fn", "shard": i, "files": 16 if q else 400, "timeout": 3600} for i in range(8)]
    specs += [{"name": "pipe%02d" % i, "kind": "pipe", "shard": 20 + i, "datasets": 8 if q else 80, "timeout": 3600} for i in range(8)]
    return specs


def required(tier):
    return {"records_roundtripped": 1500, "records_with_alts": 800, "records_multiallelic_site": 200, "records_no_alt": 50,
            "records_no_variable_site": 50, "sites_checked": 2000, "pipelines_run": 20, "pipeline_records_checked": 60,
            "pipeline_gts_checked": 150, "assemble_records_snvpos_checked": 40,
            "records_read_with_zero_prior_alleles": 200, "records_with_lower_case_snv_column": 40, "pipelines_pooled": 4, "pipelines_call_prior_from_assemble_afp": 6, "pipelines_wide_locus": 2}


def run_fn(tier, seed, spec, col):
    import pysam

    from mchap.io.loci import LocusPrior

    root = env.workdir("c12-%s" % spec["name"])
    for fI in range(spec["files"]):
        rng = gen.rng_for(seed, ID, spec["shard"], fI)
        contigs = datasets.make_contigs(rng, int(rng.integers(1, 3)), 1500)
        recs = hapvcf.make_hap_vcf(rng, contigs, int(rng.integers(20, 45)), alt_range=(0, 7), length_range=(1, 60))
        # hostile variants of the records
        for r in recs:
            u = rng.random()
            if u < 0.08:
                r["alts"] = []
                r["var_cols"] = []
            elif u < 0.16 and r["alts"]:
                r.setdefault("info", {})["REFMASKED"] = True
            if rng.random() < 0.1:
                # session 4: soft-masked (lower-case) stretches, the same columns in every listed sequence - htslib keeps the case
                # of REF / ALT, and the round trip must reproduce the sequences exactly as written
                lo_ = int(rng.integers(0, len(r["ref"])))
                hi_ = int(rng.integers(lo_ + 1, len(r["ref"]) + 1))
                low = lambda q: q[:lo_] + q[lo_:hi_].lower() + q[hi_:]
                r["ref"], r["alts"] = low(r["ref"]), [low(a) for a in r["alts"]]
                r["lower"] = any(lo_ <= c_ < hi_ for c_ in r["var_cols"])
            if "info" in r:
                r["info"]["SNVPOS"] = ",".join(str(x + 1) for x in r["var_cols"]) if r["var_cols"] else "."
                r["info"]["NVAR"] = str(len(r["var_cols"]))
                # session 4: a prior-frequency field with exact zeros (and sometimes all zeros); the calling programs read the record
                # with frequency_tag="AFP" under --prior-frequencies AFP - the listed sequences and their SNVs must not depend on it
                w = np.round(rng.dirichlet(np.ones(1 + len(r["alts"]))), 3)
                if len(w) > 1 and rng.random() < 0.6:
                    w[rng.random(len(w)) < 0.4] = 0.0
                r["info"]["AFP"] = ",".join(repr(float(x)) for x in w)
        path = hapvcf.write(os.path.join(root, "f%d.vcf" % fI), hapvcf.render(contigs, recs, info_defs=hapvcf.STD_INFO))
        want = {(r["contig"], r["pos0"]): r for r in recs}
        with pysam.VariantFile(path) as vf:
            for rec in vf.fetch():
                r = want[(rec.chrom, rec.start)]
                seqs = [r["ref"]] + list(r["alts"])
                case = {"ref": r["ref"], "alts": r["alts"]}
                nontriv = bool(r["alts"]) and bool(r["var_cols"])
                col.case(case, nontrivial=nontriv)
                col.count("records_roundtripped")
                if r.get("lower") and r["alts"]:
                    col.count("records_with_lower_case_snv_column")
                if r["alts"]:
                    col.count("records_with_alts")
                else:
                    col.count("records_no_alt")
                if not r["var_cols"]:
                    col.count("records_no_variable_site")
                use_tag = "AFP" in rec.info and (rec.start + fI) % 2 == 0
                if use_tag:
                    col.count("records_read_with_prior_frequency_tag")
                    if any(float(v) == 0.0 for v in rec.info["AFP"]) and any(float(v) > 0.0 for v in rec.info["AFP"]):
                        col.count("records_read_with_zero_prior_alleles")
                try:
                    locus = LocusPrior.from_variant_record(rec, frequency_tag="AFP") if use_tag else LocusPrior.from_variant_record(rec)
                    haps = locus.encode_haplotypes()
                    back = locus.format_haplotypes(haps)
                except Exception as ex:  # noqa: BLE001
                    col.violation("haplotype-record-rejected", "from_variant_record/encode/format raised %r on REF=%s ALT=%s" % (ex, r["ref"], r["alts"]), case)
                    continue
                if list(back) != seqs:
                    col.violation("haplotype-roundtrip-changes-sequence", "decode(encode(record)) = %s, record has %s" % (list(back), seqs), case)
                # recovered SNV positions == polymorphic columns
                got_pos = [p - locus.start for p in locus.positions]
                if got_pos != r["var_cols"]:
                    col.violation("snv-positions-not-the-polymorphic-columns", "recovered SNV offsets %s, polymorphic columns %s (REF=%s ALT=%s)" % (got_pos, r["var_cols"], r["ref"], r["alts"]), case)
                    continue
                haps = np.asarray(haps)
                if haps.shape != (len(seqs), len(r["var_cols"])):
                    col.violation("encoded-haplotypes-shape-wrong", "encoded shape %s for %d sequences and %d sites" % (haps.shape, len(seqs), len(r["var_cols"])), case)
                    continue
                for k, c in enumerate(r["var_cols"]):
                    col.count("sites_checked")
                    column = [s[c] for s in seqs]
                    order = list(dict.fromkeys(column))  # first appearance, REF first
                    if len(order) > 2:
                        col.count("records_multiallelic_site")
                    want_idx = [order.index(b) for b in column]
                    if list(locus.alleles[k]) != order:
                        col.violation("site-alleles-not-numbered-by-first-appearance", "site %d alleles %s, expected %s (column %s)" % (c, locus.alleles[k], order, column), case)
                        break
                    if haps[:, k].tolist() != want_idx:
                        col.violation("encoded-allele-index-wrong", "site %d encoded %s, expected %s" % (c, haps[:, k].tolist(), want_idx), case)
                        break
                    if order[0] != r["ref"][c] or haps[0, k] != 0:
                        col.violation("reference-base-not-allele-zero", "site %d: allele 0 is %s, REF base %s" % (c, order[0], r["ref"][c]), case)
                        break
                if locus.sequence != r["ref"] or list(locus.alts) != list(r["alts"]):
                    col.violation("haplotype-roundtrip-changes-sequence", "locus.sequence/alts differ from the record", case)
        if fI == 0 and spec["shard"] == 0:
            col.sample({"records": [{"ref": r["ref"], "alts": r["alts"], "var_cols": r["var_cols"]} for r in recs[:3]]})
        os.remove(path)
        if os.path.exists(path + ".tbi"):
            os.remove(path + ".tbi")
    shutil.rmtree(root, ignore_errors=True)


def run_pipe(tier, seed, spec, col):
    for dI in range(spec["datasets"]):
        rng = gen.rng_for(seed, ID, spec["shard"], dI)
        root = env.workdir("c12-%s-%d" % (spec["name"], dI))
        shutil.rmtree(root, ignore_errors=True)
        n_samples = int(rng.integers(1, 4))
        ploidy = int(rng.choice([2, 4]))
        mixed = bool(rng.random() < 0.4)
        # session 4: wide loci (more SNVs / listed haplotypes than int8 holds), pooled assembly, assemble's AFP as the call prior
        wide = dI == spec["datasets"] - 1 and (tier != "quick" or spec["shard"] % 4 == 0)
        pooled = (not wide) and rng.random() < 0.25
        if wide:
            mixed = False
            ds = datasets.make_dataset(rng, root, n_samples=int(rng.integers(1, 3)), n_loci=2, ploidy=[ploidy], depth=(8, 14), contig_len=1300,
                                       snv_range=(130, 200), hostile=0.05, locus_len=(280, 380), read_len=(60, 110))
            col.count("pipelines_wide_locus")
        else:
            ds = datasets.make_dataset(rng, root, n_samples=n_samples, n_loci=int(rng.integers(3, 6)), ploidy=[2, 4, 6] if mixed else [ploidy], depth=(0, 14) if rng.random() < 0.3 else (6, 16),
                                       contig_len=700, snv_range=(0, 4), hostile=0.1, samples_per_bam=int(rng.choice([1, 1, 2])))
        if pooled:
            mixed = False
            ploidy = int(rng.choice([2, 4, 6]))
        if mixed:
            # per-sample ploidy file (samples of different ploidy assembled and called together)
            ploidy = os.path.join(root, "ploidy.txt")
            with open(ploidy, "w") as fh:
                for s_ in ds.samples:
                    fh.write("%s\t%d\n" % (s_, ds.ploidy[s_]))
            col.count("pipelines_with_ploidy_file")
        thr = float(rng.choice([0.2, 0.2, 0.6, 0.95]))
        args = ["assemble", "--bam"] + ds.bams + ["--targets", ds.bed, "--variants", ds.vcf, "--reference", ds.fasta, "--ploidy", str(ploidy),
                                                  "--mcmc-steps", "150", "--mcmc-burn", "75", "--mcmc-seed", str(int(rng.integers(0, 1000)) if rng.random() < 0.8 else 0),
                                                  "--haplotype-posterior-threshold", str(thr)]
        afp = rng.random() < 0.6
        if afp:
            args += ["--report", "AFP"]
        pool_args = []
        if pooled:
            if rng.random() < 0.5 or len(ds.samples) < 2:
                pool_args = ["--sample-pool", "POOL"]
            else:
                pf = os.path.join(root, "pools.txt")
                with open(pf, "w") as fh:
                    for i_, s_ in enumerate(ds.samples):
                        fh.write("%s\tP%d\n" % (s_, 1 + i_ % 2))
                    fh.write("%s\tP2\n" % ds.samples[0])   # one sample in two pools
                pool_args = ["--sample-pool", pf]
            args += pool_args
            col.count("pipelines_pooled")
        F = float(rng.choice([0.0, 0.0, 0.1, 0.4]))
        if F:
            args += ["--inbreeding", repr(F)]
        out, exc = cli.run_inproc(args)
        rep = {"dataset_seed": [seed, spec["shard"], dI], "assemble_args": args[1:]}
        if exc is not None:
            col.violation("assemble-fails-on-valid-input", "assemble raised %r" % exc, rep)
            shutil.rmtree(root, ignore_errors=True)
            continue
        h, arecs = vcfparse.parse(out)
        # SNVPOS reported by assemble vs polymorphic columns of REF/ALT
        for r in arecs:
            seqs = [r.ref] + r.alts
            poly = [i + 1 for i in range(len(r.ref)) if len({s[i] for s in seqs}) > 1]
            snvpos = [x for x in (r.info_list("SNVPOS", int) or []) if x is not None]
            col.count("assemble_records_snvpos_checked")
            if not set(poly) <= set(snvpos):
                col.violation("polymorphic-column-not-in-snvpos", "assemble record %s:%d has polymorphic offsets %s but SNVPOS %s" % (r.chrom, r.pos, poly, snvpos), rep)
            if "REFMASKED" in r.info:
                col.count("assemble_records_refmasked")
            if not r.alts:
                col.count("assemble_records_no_alt")
        hv = datasets.write_text_vcf(os.path.join(root, "asm.vcf"), out)
        for prog in ("call", "call-exact"):
            a2 = [prog, "--haplotypes", hv, "--reference", ds.fasta, "--bam"] + ds.bams + ["--ploidy", str(ploidy)] + pool_args
            if afp and rng.random() < 0.5:
                # the documented two-step workflow: assemble's population AFP is the prior of the calling step
                a2 += ["--prior-frequencies", "AFP"]
                col.count("pipelines_call_prior_from_assemble_afp")
            if prog == "call":
                a2 += ["--mcmc-steps", "150", "--mcmc-burn", "75", "--mcmc-seed", str(int(rng.choice([0, 3, 42])))]
            if F:
                a2 += ["--inbreeding", repr(F)]
            out2, exc2 = cli.run_inproc(a2)
            col.count("pipelines_run")
            case = dict(rep, program=prog)
            col.case(case, nontrivial=any(r.alts for r in arecs))
            if exc2 is not None:
                col.violation("assemble-output-rejected-by-call", "%s raised %r on assemble output" % (prog, exc2), case)
                continue
            h2, crecs = vcfparse.parse(out2)
            if [(r.chrom, r.pos, r.ref, r.alts) for r in crecs] != [(r.chrom, r.pos, r.ref, r.alts) for r in arecs]:
                col.violation("call-changes-chrom-pos-ref-alt", "%s output CHROM/POS/REF/ALT differ from the assemble input: %s vs %s"
                              % (prog, [(r.chrom, r.pos, len(r.alts)) for r in crecs], [(r.chrom, r.pos, len(r.alts)) for r in arecs]), case)
                continue
            for r in crecs:
                col.count("pipeline_records_checked")
                filt = r.filter.replace(",", ";").split(";")
                for s in h2.samples:
                    gt, _ = r.gt(s)
                    col.count("pipeline_gts_checked")
                    incomplete = gt is None or any(a is None for a in gt)
                    if incomplete and not ({"NOA", "AF0"} & set(filt)):
                        col.violation("incomplete-genotype-without-noa-af0", "%s record %s:%d sample %s GT %s with FILTER %s" % (prog, r.chrom, r.pos, s, r.samples[s].get("GT"), r.filter), case)
                    if incomplete:
                        col.count("pipeline_incomplete_gts_with_filter")
        if dI == 0 and spec["shard"] == 20:
            col.sample({"pipeline": rep, "assemble_records": [(r.chrom, r.pos, r.ref, r.alts, r.filter) for r in arecs[:3]]})
        shutil.rmtree(root, ignore_errors=True)


def run_shard(tier, seed, spec, col):
    {"fn": run_fn, "pipe": run_pipe}[spec["kind"]](tier, seed, spec, col)


def replay(obj, col):
    import pysam

    from mchap.io.loci import LocusPrior

    c = obj["case"]
    if "ref" in c:
        contigs = {"chr1": "A" * 5 + c["ref"] + "A" * 5}
        rec = {"contig": "chr1", "pos0": 5, "id": ".", "ref": c["ref"], "alts": c["alts"]}
        root = env.workdir("c12-replay")
        path = hapvcf.write(os.path.join(root, "r.vcf"), hapvcf.render(contigs, [rec]))
        with pysam.VariantFile(path) as vf:
            for r in vf.fetch():
                locus = LocusPrior.from_variant_record(r)
                back = locus.format_haplotypes(locus.encode_haplotypes())
                if list(back) != [c["ref"]] + list(c["alts"]):
                    col.violation("haplotype-roundtrip-changes-sequence", "round trip gives %s" % list(back), c)
    else:
        col.inconclusive_note("pipeline cases: rerun the tier with the same VERIF_SEED")
