"""C15 - each iteration sweeps every (haplotype, SNV) once; intervals partition; fixed sites restored.

Monitors
  1. (M2) arguments received by a recorder replacing mutation.base_step while compound_step.py_func runs;
  2. (M1, numba semantics) the compiled compound_step started from the all-reference genotype on reads that make
     every 0->1 flip accepted with probability exactly one: after ONE sweep every cell must be 1 - a cell left at 0
     was never attempted;
  3. (M1) structural.random_breaks return values over seeds; _point_beta_probabilities;
  4. DenovoMCMC._mcmc with the module-level _denovo_assembler wrapped: which columns reach the sampler, and
     where its output columns / the fixed alleles re-appear in the trace; oracle = independent single-SNV posterior.
"""

import math

import numpy as np

from vlib import gen, monitors
from vlib.oracles import model as M
from vlib.report import unjson_array

ID = "C15"
TECHNIQUE = "runtime monitoring: recorder on base_step arguments (py_func), one-sweep saturation probe of the compiled mutation sweep, seeded random_breaks partition monitor, wrapped _denovo_assembler inside DenovoMCMC._mcmc with an independent single-SNV posterior oracle; program level: DenovoMCMC.fit and the sampler wrapped inside mchap assemble --mcmc-fix-homozygous with per-sample ploidy / inbreeding files"
LEVEL = "exploration"
LEVEL_TEXT = (
    "Exploration: the mutation sweep is observed for ploidy 1-8 and 1-300 SNVs (covering >127 and >255) both as the "
    "argument stream reaching base_step (every (haplotype, SNV) pair exactly once, right allele count) and, under numba "
    "semantics, by a deterministic one-sweep saturation probe on the compiled kernel (no cell left unattempted); "
    "random_breaks is observed over seeds for n up to 300 and all break counts (contiguous non-empty cover); the "
    "homozygous-site fixing of DenovoMCMC is observed on generated read sets and thresholds against an independent "
    "single-SNV posterior (fixed exactly when the threshold is reached, fixed alleles and sampled columns re-appear in "
    "the right columns). Held on the observed runs only."
)
LEVEL_NOTE = "Trusts the independent single-SNV posterior oracle; threshold coincidences within 1e-9 are treated as ambiguous. 'Exactly once' is decided on the Python body (py_func), 'at least once' on the compiled kernel."
RULE = (
    "case = one sweep observation (ploidy, n_sites, seed), one random_breaks call (breaks, n, seed) or one DenovoMCMC fit "
    "(reads, threshold); non-trivial = n_sites > 1; distinct by hash of the parameters"
)
LEVEL_TEXT += " At program level (mchap assemble --mcmc-fix-homozygous t on generated BAMs with per-sample ploidy and inbreeding files, incl. deep diploid data whose posteriors saturate to exactly 1.0 with t = 1) the sites reaching the sampler are exactly those the oracle leaves variable, for each sample's own reads, ploidy and inbreeding."
ASSUMPTIONS = ["reads in the saturation probe give acceptance probability exactly 1 for every 0->1 flip (shown in DESIGN.md C15)"]

SITES = [1, 2, 3, 5, 8, 13, 31, 64, 100, 127, 128, 129, 150, 200, 255, 256, 257, 300]


def plan(tier, seed):
    specs = []
    reps = 1 if tier == "quick" else 20
    combos = [(p, n) for n in SITES for p in (1, 2, 4, 6, 8)]
    n_sh = 8
    for i in range(n_sh):
        specs.append({"name": "sweep%02d" % i, "kind": "sweep", "shard": i, "combos": combos[i::n_sh], "reps": reps, "timeout": 7000})
    for i in range(4):
        specs.append({"name": "breaks%d" % i, "kind": "breaks", "shard": 20 + i, "cases": 30000 if tier == "quick" else 600000, "timeout": 7000})
    for i in range(6):
        specs.append({"name": "fix%02d" % i, "kind": "fix", "shard": 30 + i, "cases": 120 if tier == "quick" else 2500, "timeout": 7000})
    for i in range(4):
        specs.append({"name": "prog%02d" % i, "kind": "prog", "shard": 50 + i, "datasets": 24 if tier == "quick" else 300, "timeout": 7000})
    return specs


def required(tier):
    return {"sweeps_recorded": 80, "sweeps_saturation": 80, "saturation_sites_gt127": 20, "saturation_sites_gt255": 8,
            "breaks_checked": 3000, "fits_checked": 150, "fits_with_fixed_sites": 50, "fits_all_fixed": 3, "fits_none_fixed": 20,
            "fixed_columns_checked": 100, "sampled_columns_checked": 100,
            "prog_fits_checked": 100, "prog_fits_with_fixed_sites": 20, "prog_fits_with_variable_sites": 20, "prog_fixed_columns_checked": 40,
            "prog_datasets_with_per_sample_files": 4, "fix_decisions_posterior_equals_threshold_exactly": 40}


# ---------------------------------------------------------------------------
# 1 + 2: the mutation sweep


def window_reads(n_base, width=10, step=5, weight=20):
    """Reads carrying allele 1 (0.9 / 0.1) in overlapping windows tiling the locus."""
    starts = list(range(0, max(1, n_base - width + 1), step))
    if not starts or starts[-1] + width < n_base:
        starts.append(max(0, n_base - width))
    reads = np.full((len(starts), n_base, 2), np.nan)
    for r, s in enumerate(starts):
        e = min(n_base, s + width)
        reads[r, s:e, 0] = 0.1
        reads[r, s:e, 1] = 0.9
    counts = np.full(len(starts), weight, dtype=np.int64)
    return reads, counts


def run_sweep(tier, seed, spec, col):
    import warnings

    from mchap.assemble import mutation
    from mchap.assemble.likelihood import log_likelihood
    from mchap.jitutils import seed_numba

    # canary: a sweep that indexes outside the genotype can crash natively; observe that in a child first
    st, info = monitors.run_forked(lambda: monitors.ensure_compiled() or "done")
    if st != "ok":
        col.count("sweeps_saturation")
        col.violation("sweep-does-not-visit-every-site", "compiled mutation/structural kernels crashed natively on a 2x2 instance (%s %s): the sweep indexes outside the genotype" % (st, info),
                      {"kind": "canary"})
        return
    monitors.ensure_compiled()
    for (ploidy, n_base) in spec["combos"]:
        for rep in range(spec["reps"]):
            rng = gen.rng_for(seed, ID, spec["shard"], ploidy * 1000 + n_base + 7919 * rep)
            s = int(rng.integers(1, 2**31 - 1))
            case = {"kind": "sweep", "ploidy": ploidy, "n_base": n_base, "seed": s}
            col.case(case, nontrivial=n_base > 1)
            check_sweep(case, col, mutation, log_likelihood, seed_numba, rng, warnings)
            if spec["shard"] == 0 and rep == 0 and n_base == 3:
                col.sample(case)


def check_sweep(case, col, mutation, log_likelihood, seed_numba, rng, warnings):
    ploidy, n_base, s = case["ploidy"], case["n_base"], case["seed"]
    n_alleles = rng.integers(2, 5, size=n_base).astype(np.int8)
    reads = np.full((1, n_base, int(n_alleles.max())), np.nan)
    g = np.zeros((ploidy, n_base), dtype=np.int8)
    # ---- M2: recorder in place of base_step
    calls = []

    def rec(genotype, reads, llk, h, j, cache, log_unique_haplotypes, inbreeding, n_alleles, temp, read_counts):
        h, j = int(h), int(j)
        # a negative index addresses column n_base + j (same cell for Python and numba wrap-around indexing)
        if -n_base <= j < 0:
            j += n_base
        if -ploidy <= h < 0:
            h += ploidy
        calls.append((h, j, int(n_alleles)))
        return llk, cache

    np.random.seed(s % (2**32))
    m2_warn = None
    with warnings.catch_warnings():
        warnings.simplefilter("error")
        try:
            with monitors.patched((mutation, "base_step", rec)):
                mutation.compound_step.py_func(g.copy(), reads, 0.0, n_alleles, 1.0, 0.0, 1.0, None, None)
        except (DeprecationWarning, RuntimeWarning, OverflowError) as ex:
            m2_warn = repr(ex)
    if m2_warn is not None:
        calls = []
        with warnings.catch_warnings():
            warnings.simplefilter("ignore")
            with monitors.patched((mutation, "base_step", rec)):
                mutation.compound_step.py_func(g.copy(), reads, 0.0, n_alleles, 1.0, 0.0, 1.0, None, None)
    col.count("sweeps_recorded")
    want = sorted((h, j, int(n_alleles[j])) for h in range(ploidy) for j in range(n_base))
    m2_bad = sorted(calls) != want
    m2_msg = None
    if m2_bad:
        seen = {}
        for h, j, na in calls:
            seen[(h, j)] = seen.get((h, j), 0) + 1
        missing = [hj for hj in ((h, j) for h in range(ploidy) for j in range(n_base)) if hj not in seen]
        extra = [(hj, c) for hj, c in seen.items() if c > 1 or hj[1] < 0 or hj[1] >= n_base]
        wrong_na = [(h, j, na) for h, j, na in calls if 0 <= j < n_base and na != int(n_alleles[j])]
        m2_msg = ("ploidy %d sites %d: %d calls; %d pairs never visited (e.g. %s), %d visited repeatedly/out of range (e.g. %s), %d with wrong allele count; numpy said %s"
                  % (ploidy, n_base, len(calls), len(missing), missing[:3], len(extra), extra[:3], len(wrong_na), m2_warn))
    # ---- M1: saturation probe on the compiled kernel (one sweep)
    wreads, wcounts = window_reads(n_base)
    na2 = np.full(n_base, 2, dtype=np.int8)

    def probe():
        g1 = np.zeros((ploidy, n_base), dtype=np.int8)
        llk0 = log_likelihood(wreads, g1, wcounts)
        seed_numba(s)
        mutation.compound_step(g1, wreads, llk0, na2, float(n_base * math.log(2.0)), 0.0, 1.0, wcounts, None)
        return g1

    if m2_bad:
        # the Python body already misbehaves: the compiled kernel may index out of bounds, so probe it in a child
        st, g1 = monitors.run_forked(probe)
        if st != "ok":
            col.count("sweeps_saturation")
            col.violation("sweep-does-not-visit-every-site", "compiled compound_step crashed (%s %s) on ploidy %d, %d sites; py_func recorder: %s" % (st, g1, ploidy, n_base, m2_msg), case)
            return
    else:
        g1 = probe()
    col.count("sweeps_saturation")
    if n_base > 127:
        col.count("saturation_sites_gt127")
    if n_base > 255:
        col.count("saturation_sites_gt255")
    left = np.argwhere(g1 == 0)
    m1_bad = len(left) > 0
    if m1_bad:
        cols = sorted({int(c) for c in left[:, 1]})
        mech = "sweep-skips-sites-beyond-127" if (n_base > 127 and min(cols) >= 0) else "sweep-does-not-visit-every-site"
        if n_base <= 127:
            mech = "sweep-does-not-visit-every-site"
        col.violation(mech, "compiled compound_step, ploidy %d, %d sites: after one sweep %d cells were never attempted (columns %s...); py_func recorder: %s"
                      % (ploidy, n_base, len(left), cols[:6], m2_msg), case)
    elif m2_bad:
        # python-semantics observation not confirmed under numba semantics: 'exactly once' part
        miss_or_dup = "sweep-visits-a-site-twice-or-wrong-allele-count"
        if n_base > 127:
            col.inconclusive_note("py_func sweep anomaly not visible in compiled kernel: %s" % m2_msg)
        else:
            col.violation(miss_or_dup, m2_msg, case)


# ---------------------------------------------------------------------------
# 3: random_breaks


def run_breaks(tier, seed, spec, col):
    from mchap.assemble import mcmc, structural
    from mchap.jitutils import seed_numba

    for c in range(spec["cases"]):
        rng = gen.rng_for(seed, ID, spec["shard"], c)
        n = int(rng.choice([1, 2, 3, 5, 10, 50, 127, 128, 200, 256, 300])) if rng.random() < 0.5 else int(rng.integers(1, 301))
        b = int(rng.integers(0, n)) if rng.random() < 0.8 else int(rng.choice([0, n - 1]))
        if n >= 17 and rng.random() < 0.5:
            b = int(rng.integers(1, max(2, n // 6)))   # few breaks on a long locus: the regime the sampler actually uses
        s = int(rng.integers(1, 2**31 - 1))
        case = {"kind": "breaks", "n": n, "b": b, "seed": s}
        col.case(case, nontrivial=n > 1)
        seed_numba(s)
        iv = structural.random_breaks(b, n)
        col.count("breaks_checked")
        ok = (iv.shape == (b + 1, 2) and iv[0, 0] == 0 and iv[-1, 1] == n and np.all(iv[:, 1] > iv[:, 0]) and np.all(iv[1:, 0] == iv[:-1, 1]))
        if not ok:
            col.violation("intervals-not-a-partition", "random_breaks(%d,%d) seed %d -> %s" % (b, n, s, iv.tolist()[:8]), case)
        if c < 2:
            col.sample({"breaks": b, "n": n, "intervals": iv.tolist()})
    # distribution of the number of breaks: never >= n
    for n in list(range(1, 40)) + [64, 127, 128, 200, 256, 300]:
        for (a, bb) in ((1.0, 3.0), (1.0, 1.0), (2.0, 5.0), (0.5, 0.5)):
            p = mcmc._point_beta_probabilities(n, a, bb)
            col.count("break_dists_checked")
            if len(p) != n or p.min() < -1e-15 or abs(p.sum() - 1) > 1e-9:
                col.violation("break-count-distribution-invalid", "_point_beta_probabilities(%d,%g,%g): len %d sum %.12g min %g" % (n, a, bb, len(p), p.sum(), p.min()),
                              {"kind": "breakdist", "n": n, "a": a, "b": bb})
            col.maxv("max_break_dist_deficit", 1 - float(np.cumsum(p)[-1]))


# ---------------------------------------------------------------------------
# 4: homozygous fixing


def single_snv_hom_post(reads_col, counts, n_alleles, ploidy, F, with_saturation=False):
    haps = np.arange(n_alleles, dtype=int).reshape(n_alleles, 1)
    r = reads_col[:, None, :]
    if len(r) == 0:
        r = np.full((1, 1, reads_col.shape[-1]), np.nan)
        counts = None
    gs, post, llks, lprs = M.exact_posterior(r, counts, haps, ploidy, F, None)
    out = np.zeros(n_alleles)
    for g, p in zip(gs, post):
        if len(set(g)) == 1:
            out[g[0]] = p
    if with_saturation:
        # a homozygous genotype whose competitors together hold < 1e-25 of its mass has posterior exactly 1.0 in double
        # arithmetic however the normalisation is ordered (each log1p(exp(d)) term is absorbed): it REACHES any threshold <= 1
        lj = [a + b for a, b in zip(llks, lprs)]
        top = max(range(len(gs)), key=lambda k: lj[k])
        others = math.fsum(math.exp(lj[k] - lj[top]) for k in range(len(gs)) if k != top)
        sat = top if (len(set(gs[top])) == 1 and others < 1e-25 and abs(lj[top]) > 1e-3) else None
        return out, (None if sat is None else gs[sat][0])
    return out


def make_fix_case(rng):
    ploidy = int(rng.integers(1, 7))
    n_base = int(rng.integers(1, 9))
    n_alleles = rng.integers(2, 5, size=n_base)
    n_reads = int(rng.choice([0, 2, 5, 12, 30]))
    truth = gen.gen_genotype(rng, ploidy, n_alleles, dup_rate=0.5)
    # make some columns homozygous in truth
    for j in range(n_base):
        if rng.random() < 0.5:
            truth[:, j] = truth[0, j]
    # the last axis is as wide as the widest SNV, exactly as the programs encode reads (a wider tensor is not a product input)
    reads = gen.gen_reads_from_haps(rng, truth, n_reads, n_alleles, n_nucl=int(n_alleles.max()), gap_rate=float(rng.choice([0, 0.3])), err=0.0024, flip=0.0)
    counts = None if rng.random() < 0.3 else rng.integers(1, 6, size=n_reads).astype(np.int64)
    thr = float(rng.choice([0.6, 0.9, 0.99, 0.999, 1.0, 1.5])) if rng.random() < 0.7 else float(rng.uniform(0.51, 1.0))
    if n_reads and rng.random() < 0.25:
        # deep data: the homozygous posterior saturates to exactly 1.0, which REACHES a threshold of 1.0
        counts = rng.integers(20, 60, size=n_reads).astype(np.int64)
        thr = float(rng.choice([1.0, 1.0, 0.999]))
    F = float(rng.choice([0.0, 0.0, 0.1, 0.5]))
    return dict(ploidy=ploidy, n_alleles=n_alleles.tolist(), reads=reads.tolist(), reads_shape=list(reads.shape),
                counts=None if counts is None else counts.tolist(), thr=thr, F=F, seed=int(rng.integers(1, 2**31 - 1)),
                temps=[1.0] if rng.random() < 0.7 else [0.3, 1.0])


def check_fix(c, col):
    from mchap.assemble import mcmc as AM

    reads = unjson_array(c["reads"], float).reshape(c["reads_shape"])
    counts = None if c["counts"] is None else np.array(c["counts"], dtype=np.int64)
    n_alleles = np.array(c["n_alleles"], dtype=int)
    ploidy, thr, F = c["ploidy"], c["thr"], c["F"]
    n_base = len(n_alleles)
    # oracle decision per site
    fixed_allele = {}
    ambiguous = False
    for j in range(n_base):
        hp, sat = single_snv_hom_post(reads[:, j, :], counts, int(n_alleles[j]), ploidy, F, with_saturation=True)
        a = int(np.argmax(hp))
        if sat is not None and thr <= 1.0:
            col.count("fix_decisions_at_saturated_posterior")
            if thr == 1.0:
                col.count("fix_decisions_posterior_equals_threshold_exactly")
            fixed_allele[j] = int(sat)
            continue
        if abs(hp[a] - thr) <= 1e-9:
            ambiguous = True
        if hp[a] >= thr:
            fixed_allele[j] = a
    if ambiguous:
        col.count("fits_ambiguous_skipped")
        return
    seen = {}
    real = AM._denovo_assembler

    def wrapper(**kw):
        out = real(**kw)
        seen["reads_shape"] = kw["reads"].shape
        seen["n_alleles"] = np.array(kw["n_alleles"]).tolist()
        seen["reads"] = kw["reads"].copy()
        seen["genotypes"] = out[0].copy()
        seen["calls"] = seen.get("calls", 0) + 1
        return out

    steps = 12
    model = AM.DenovoMCMC(ploidy=ploidy, n_alleles=list(n_alleles), inbreeding=F, steps=steps, chains=1, fix_homozygous=thr,
                          random_seed=c["seed"], temperatures=tuple(c["temps"]))
    # public API: fit() with one chain (the class canonicalises the row order of every step)
    try:
        with monitors.patched((AM, "_denovo_assembler", wrapper)):
            trace = model.fit(reads, read_counts=counts if len(reads) else None)
    except AssertionError:
        # Observation outside C15 (see DESIGN.md 8.6): with a variable site that no read covers, DenovoMCMC draws the initial
        # allele uniformly over ALL nucleotide columns of the read tensor, including columns beyond that site's allele
        # count; if the likelihood cache is on this trips arraymap's `j < n_branches` assertion.  Not a fixing-decision
        # matter: count it and move on.
        col.count("fits_aborted_by_invalid_initial_allele")
        return
    gen_trace = np.asarray(trace.genotypes)[0]
    col.count("fits_checked")
    het = [j for j in range(n_base) if j not in fixed_allele]
    if fixed_allele:
        col.count("fits_with_fixed_sites")
    else:
        col.count("fits_none_fixed")
    if not het:
        col.count("fits_all_fixed")

    def viol(mech, msg):
        col.violation(mech, msg, c)

    if gen_trace.shape != (steps, ploidy, n_base):
        viol("trace-shape-wrong", "trace shape %s want %s" % (gen_trace.shape, (steps, ploidy, n_base)))
        return
    if het:
        if seen.get("calls", 0) != 1:
            viol("fixed-site-decision-wrong", "sampler was called %d times; oracle says sites %s are not fixed" % (seen.get("calls", 0), het))
            return
        if seen["reads_shape"][1] != len(het):
            # work out which were fixed by the code from the columns that reached the sampler
            viol("fixed-site-decision-wrong", "sampler received %d columns; oracle expects %d variable sites %s (threshold %g)" % (seen["reads_shape"][1], len(het), het, thr))
            return
        exp_reads = (reads if len(reads) else np.full((1, n_base, int(n_alleles.max())), np.nan))[:, het]
        if not np.array_equal(np.nan_to_num(seen["reads"], nan=-1.0), np.nan_to_num(exp_reads, nan=-1.0)):
            viol("fixed-site-decision-wrong", "columns reaching the sampler are not the oracle's variable sites %s" % het)
            return
        if seen["n_alleles"] != [int(n_alleles[j]) for j in het]:
            viol("sampler-received-wrong-allele-counts", "n_alleles passed %s want %s" % (seen["n_alleles"], [int(n_alleles[j]) for j in het]))
        sampled = seen["genotypes"][0]  # (steps, ploidy, n_het)
        col.count("sampled_columns_checked", len(het))
        for st in range(steps):
            a = sorted(map(tuple, gen_trace[st][:, het].tolist()))
            b = sorted(map(tuple, sampled[st].tolist()))
            if a != b:
                viol("sampled-column-misplaced", "step %d: variable-site columns %s of the trace hold %s, the sampler produced %s" % (st, het, a, b))
                break
    else:
        if seen.get("calls", 0) != 0:
            viol("fixed-site-decision-wrong", "oracle says every site is fixed (threshold %g) but the sampler ran" % thr)
            return
    for j, a in fixed_allele.items():
        col.count("fixed_columns_checked")
        if not np.all(gen_trace[:, :, j] == a):
            viol("fixed-allele-misplaced", "fixed site %d should carry allele %d in every step/copy; trace has %s" % (j, a, np.unique(gen_trace[:, :, j]).tolist()))
            break


def run_fix(tier, seed, spec, col):
    monitors.ensure_compiled()
    for i in range(spec["cases"]):
        rng = gen.rng_for(seed, ID, spec["shard"], i)
        c = make_fix_case(rng)
        col.case({k: c[k] for k in ("ploidy", "n_alleles", "thr", "F", "seed", "reads")}, nontrivial=len(c["n_alleles"]) > 1)
        check_fix(c, col)
        if i == 0 and spec["shard"] == 30:
            col.sample({k: c[k] for k in ("ploidy", "n_alleles", "thr", "F", "counts", "temps")})


# ---------------------------------------------------------------------------
# 5: the same decision observed inside `mchap assemble --mcmc-fix-homozygous t`


def run_prog(tier, seed, spec, col):
    """In-process `mchap assemble` on generated BAMs with per-sample ploidy / inbreeding files and --mcmc-fix-homozygous t.
    DenovoMCMC.fit and the sampler are wrapped where the program calls them: for every sample the sites that reach the
    sampler must be exactly those whose single-SNV homozygous posterior (oracle, computed from the sample's OWN encoded
    reads, the ploidy and inbreeding its files give it and the command line's t) is below t, and the other sites must
    re-appear in the trace, in the right column, with the oracle's allele."""
    import os
    import shutil
    import warnings

    from mchap.application.assemble import program as P
    from mchap.assemble import mcmc as AM

    from vlib import cli, datasets, env

    for dI in range(spec["datasets"]):
        rng = gen.rng_for(seed, ID, spec["shard"], dI)
        root = env.workdir("c15-%s-%d" % (spec["name"], dI))
        shutil.rmtree(root, ignore_errors=True)
        n_s = int(rng.integers(2, 5))
        deep = dI % 3 == 2
        ds = datasets.make_dataset(rng, root, n_samples=n_s, n_loci=int(rng.integers(2, 5)), ploidy=[2] if deep else [2, 4, 6], depth=(150, 260) if deep else (0, 25), contig_len=700,
                                   snv_range=(1, 7), hostile=0.05, err=0.0 if deep else 0.01, multi_allelic=0.4)
        thr = float(rng.choice([0.6, 0.9, 0.99, 0.999, 1.0])) if rng.random() < 0.7 else round(float(rng.uniform(0.51, 1.0)), 4)
        if deep:
            thr = 1.0   # deep diploid data: posteriors saturate to exactly 1.0 and must still count as reaching the threshold
        col.add_to_set("prog_thresholds", thr)
        per_sample = rng.random() < 0.6
        F = {smp: (float(rng.choice([0.0, 0.1, 0.3, 0.6])) if per_sample else 0.0) for smp in ds.samples}
        if per_sample and len(set(F.values())) == 1:
            F[ds.samples[-1]] = 0.45
        f0 = float(rng.choice([0.0, 0.2]))
        if not per_sample:
            F = {smp: f0 for smp in ds.samples}
        pf = os.path.join(root, "ploidy.txt")
        with open(pf, "w") as fh:
            for smp in reversed(ds.samples):
                fh.write("%s\t%d\n" % (smp, ds.ploidy[smp]))
        argv = ["assemble", "--targets", ds.bed, "--variants", ds.vcf, "--reference", ds.fasta, "--bam"] + ds.bams + [
            "--ploidy", pf, "--mcmc-steps", "30", "--mcmc-burn", "10", "--mcmc-seed", str(dI % 3), "--mcmc-chains", str(1 + dI % 2),
            "--mcmc-fix-homozygous", repr(thr)]
        if per_sample:
            inf = os.path.join(root, "inbreeding.txt")
            with open(inf, "w") as fh:
                for smp in ds.samples:
                    fh.write("%s\t%r\n" % (smp, F[smp]))
            argv += ["--inbreeding", inf]
            col.count("prog_datasets_with_per_sample_files")
        elif f0:
            argv += ["--inbreeding", repr(f0)]
        case = {"kind": "prog", "seed": seed, "shard": spec["shard"], "dataset": dI, "threshold": thr, "ploidy": dict(ds.ploidy), "inbreeding": F}
        col.case(case, nontrivial=True)
        fits, cur = [], [None]
        real_fit, real_asm = AM.DenovoMCMC.fit, AM._denovo_assembler

        def spy_asm(**kw):
            out = real_asm(**kw)
            if cur[0] is not None:
                cur[0]["sampler"].append({"reads": kw["reads"].copy(), "n_alleles": np.array(kw["n_alleles"]).tolist(), "inbreeding": float(kw["inbreeding"]), "genotypes": out[0].copy()})
            return out

        def spy_fit(self, reads, read_counts=None, **kw):
            rec = {"ploidy": int(self.ploidy), "inbreeding": float(self.inbreeding), "thr": float(self.fix_homozygous), "n_alleles": [int(x) for x in self.n_alleles],
                   "chains": int(self.chains), "steps": int(self.steps), "reads": np.array(reads, copy=True), "counts": None if read_counts is None else np.array(read_counts, copy=True), "sampler": []}
            cur[0] = rec
            try:
                tr = real_fit(self, reads, read_counts=read_counts, **kw)
            finally:
                cur[0] = None
            rec["trace"] = np.asarray(tr.genotypes).copy()
            fits.append(rec)
            return tr

        per_locus = []
        try:
            with warnings.catch_warnings():
                warnings.simplefilter("error", RuntimeWarning)
                with monitors.patched((AM.DenovoMCMC, "fit", spy_fit), (AM, "_denovo_assembler", spy_asm)):
                    po = P.cli(["mchap"] + argv)
                    seen_data = []
                    real_csg = po.call_sample_genotypes

                    def spy_csg(data):
                        seen_data.append(data)
                        return real_csg(data)

                    po.call_sample_genotypes = spy_csg
                    for locus in po.loci():
                        lo = len(fits)
                        try:
                            po.call_locus(locus, po.sample_bams)
                        except AssertionError:
                            col.count("fits_aborted_by_invalid_initial_allele")  # DESIGN.md 8.6, not a fixing-decision matter
                            continue
                        per_locus.append((seen_data[-1], lo, len(fits)))
        except Exception as ex:  # noqa: BLE001
            cli.relax_warnings()
            col.violation("program-fails-on-valid-input", "assemble --mcmc-fix-homozygous %r raised %s: %s" % (thr, type(ex).__name__, str(ex)[:300]), case)
            shutil.rmtree(root, ignore_errors=True)
            continue
        cli.relax_warnings()
        by_name = {L["name"]: L for L in ds.loci}
        stop = False
        for data, lo, hi in per_locus:
            if stop:
                break
            S = list(data.samples)
            L = by_name[data.locus.name]
            want_na = [1 + len(v["alts"]) for v in sorted(L["snvs"], key=lambda v: v["pos0"])]
            if hi - lo != len(S):
                col.violation("sampler-not-run-once-per-sample", "assemble locus %s: %d DenovoMCMC fits for samples %s" % (L["name"], hi - lo, S), case)
                break
            for smp, rec in zip(S, fits[lo:hi]):
                col.count("prog_fits_checked")
                where = "assemble --mcmc-fix-homozygous %r, locus %s sample %s" % (thr, L["name"], smp)
                rd, rc = np.asarray(data.read_dists[smp]), np.asarray(data.read_counts[smp])
                bad = None
                if rec["ploidy"] != ds.ploidy[smp] or abs(rec["inbreeding"] - F[smp]) > 1e-12 or abs(rec["thr"] - thr) > 1e-12:
                    bad = "sampler built with ploidy %d inbreeding %r threshold %r; the inputs say %d, %r, %r" % (rec["ploidy"], rec["inbreeding"], rec["thr"], ds.ploidy[smp], F[smp], thr)
                elif rec["n_alleles"] != want_na:
                    bad = "sampler built with n_alleles %s; the SNV file lists %s" % (rec["n_alleles"], want_na)
                elif rec["reads"].shape != rd.shape or not np.array_equal(rec["reads"], rd, equal_nan=True) or (rec["counts"] is not None and not np.array_equal(rec["counts"], rc)):
                    bad = "reads given to the sampler are not the sample's own encoded reads"
                if bad:
                    col.violation("program-sampler-parameters-differ-from-inputs", "%s: %s" % (where, bad), case)
                    stop = True
                    break
                n_base = len(want_na)
                counts = None if rec["counts"] is None else rec["counts"].astype(np.int64)
                fixed_allele, ambiguous = {}, False
                for j in range(n_base):
                    hp, sat = single_snv_hom_post(rd[:, j, :], counts if len(rd) else None, want_na[j], ds.ploidy[smp], F[smp], with_saturation=True)
                    a = int(np.argmax(hp))
                    if sat is not None and thr <= 1.0:
                        col.count("fix_decisions_at_saturated_posterior")
                        if thr == 1.0:
                            col.count("fix_decisions_posterior_equals_threshold_exactly")
                        fixed_allele[j] = int(sat)
                        continue
                    if abs(hp[a] - thr) <= 1e-9:
                        ambiguous = True
                    if hp[a] >= thr:
                        fixed_allele[j] = a
                if ambiguous:
                    col.count("fits_ambiguous_skipped")
                    continue
                het = [j for j in range(n_base) if j not in fixed_allele]
                col.count("prog_fits_with_fixed_sites" if fixed_allele else "prog_fits_none_fixed")
                if het:
                    col.count("prog_fits_with_variable_sites")
                msg = None
                if het:
                    if len(rec["sampler"]) != rec["chains"]:
                        msg = "sampler ran %d times for %d chains although the oracle leaves sites %s variable" % (len(rec["sampler"]), rec["chains"], het)
                    else:
                        exp = (rd if len(rd) else np.full((1, n_base, rd.shape[-1] if rd.ndim == 3 else 1), np.nan))[:, het]
                        for sc in rec["sampler"]:
                            if sc["reads"].shape[1] != len(het) or not np.array_equal(np.nan_to_num(sc["reads"], nan=-1.0), np.nan_to_num(exp, nan=-1.0)):
                                msg = "the columns reaching the sampler (%d) are not the oracle's variable sites %s" % (sc["reads"].shape[1], het)
                            elif sc["n_alleles"] != [want_na[j] for j in het]:
                                msg = "allele counts reaching the sampler %s, want %s" % (sc["n_alleles"], [want_na[j] for j in het])
                            elif abs(sc["inbreeding"] - F[smp]) > 1e-12:
                                msg = "inbreeding reaching the sampler %r, the sample's is %r" % (sc["inbreeding"], F[smp])
                elif rec["sampler"]:
                    msg = "the oracle fixes every site but the sampler ran"
                tr = rec["trace"]
                if msg is None and tr.shape[2:] != (ds.ploidy[smp], n_base):
                    msg = "trace shape %s for ploidy %d and %d SNVs" % (tr.shape, ds.ploidy[smp], n_base)
                if msg is None:
                    for j, a in fixed_allele.items():
                        col.count("prog_fixed_columns_checked")
                        if not np.all(tr[:, :, :, j] == a):
                            msg = "fixed site %d should carry allele %d in every chain/step/copy, trace has %s" % (j, a, np.unique(tr[:, :, :, j]).tolist())
                            break
                if msg:
                    col.violation("fixed-site-decision-wrong", "%s (ploidy %d, inbreeding %r): %s" % (where, ds.ploidy[smp], F[smp], msg), case)
                    stop = True
                    break
        if dI == 0 and spec["shard"] == 50:
            col.sample({"prog": {"argv_tail": argv[-6:], "samples": ds.samples, "fits": len(fits)}})
        shutil.rmtree(root, ignore_errors=True)


def coverage_extra(tier, col):
    return {"prog_thresholds_used": sorted(col.sets.get("prog_thresholds", ()))}


def run_shard(tier, seed, spec, col):
    if spec["kind"] == "prog":
        return run_prog(tier, seed, spec, col)
    {"sweep": run_sweep, "breaks": run_breaks, "fix": run_fix}[spec["kind"]](tier, seed, spec, col)


def replay(obj, col):
    import warnings

    c = obj["case"]
    if c.get("kind") == "canary":
        st, info = monitors.run_forked(lambda: monitors.ensure_compiled() or "done")
        if st != "ok":
            col.violation("sweep-does-not-visit-every-site", "kernels crashed natively on a 2x2 instance (%s %s)" % (st, info), c)
    elif c.get("kind") == "sweep":
        from mchap.assemble import mutation
        from mchap.assemble.likelihood import log_likelihood
        from mchap.jitutils import seed_numba

        monitors.ensure_compiled()
        check_sweep(c, col, mutation, log_likelihood, seed_numba, np.random.default_rng(c["seed"]), warnings)
    elif c.get("kind") == "breaks":
        from mchap.assemble import structural
        from mchap.jitutils import seed_numba

        seed_numba(c["seed"])
        iv = structural.random_breaks(c["b"], c["n"])
        ok = (iv.shape == (c["b"] + 1, 2) and iv[0, 0] == 0 and iv[-1, 1] == c["n"] and np.all(iv[:, 1] > iv[:, 0]) and np.all(iv[1:, 0] == iv[:-1, 1]))
        if not ok:
            col.violation("intervals-not-a-partition", "random_breaks -> %s" % iv.tolist()[:8], c)
    elif "thr" in c:
        monitors.ensure_compiled()
        check_fix(c, col)
