"""Synthetic FASTA / SNV-VCF / BED / BAM datasets whose content is known by construction.

Everything is written with pysam only (no samtools/bcftools binaries in the sandbox).  The generator keeps
every alignment it wrote (qname, flag, MAPQ, RG, start, CIGAR, sequence, qualities) so that oracles can
derive the filtered pileup independently (`walk_alignment`).
"""

import os

import numpy as np

BASES = "ACGT"
FLAG_PAIRED, FLAG_PROPER, FLAG_UNMAP, FLAG_MUNMAP, FLAG_REVERSE, FLAG_MREVERSE, FLAG_READ1, FLAG_READ2 = 1, 2, 4, 8, 16, 32, 64, 128
FLAG_SECONDARY, FLAG_QCFAIL, FLAG_DUP, FLAG_SUPP = 256, 512, 1024, 2048
CIG = {"M": 0, "I": 1, "D": 2, "N": 3, "S": 4, "H": 5, "P": 6, "=": 7, "X": 8}
CIG_CHR = {v: k for k, v in CIG.items()}


# ---------------------------------------------------------------------------
# low level writers


def random_sequence(rng, n):
    return "".join(BASES[i] for i in rng.integers(0, 4, size=n))


def write_fasta(path, contigs):
    import pysam

    with open(path, "w") as fh:
        for name, seq in contigs.items():
            fh.write(">%s\n" % name)
            for i in range(0, len(seq), 60):
                fh.write(seq[i : i + 60] + "\n")
    pysam.faidx(path)
    return path


def write_bed(path, loci, gz=False):
    """loci: list of (contig, start, stop, name)"""
    import pysam

    with open(path, "w") as fh:
        for c, s, e, n in loci:
            fh.write("%s\t%d\t%d\t%s\n" % (c, s, e, n))
    if gz:
        out = pysam.tabix_index(path, preset="bed", force=True)
        return out
    return path


def _variant_lines(contigs, v, hrng):
    """VCF lines for one SNV.  With a hostile rng the SAME allele list is spread over several records and surrounded by
    records every program must ignore: a multi-allelic SNV may be split into two records at one position (the programs merge
    them: REF + alleles in order of first appearance, which is the original order because the split is prefix / suffix with an
    optional overlap), and deletion / insertion / MNP / mixed records (not SNVs, skipped by the programs) may share its position."""
    def line(ref, alts):
        return "%s\t%d\t%s\t%s\t%s\t.\t.\t%s\n" % (v["contig"], v["pos0"] + 1, v.get("id", "."), ref, ",".join(alts) if alts else ".", v.get("info", "."))

    alts = list(v["alts"])
    if hrng is None or "id" in v or "info" in v:
        return [line(v["ref"], alts)]
    out = []
    if len(alts) >= 2 and hrng.random() < 0.5:
        k = int(hrng.integers(1, len(alts)))
        k2 = int(hrng.integers(0, k + 1))
        out += [line(v["ref"], alts[:k]), line(v["ref"], alts[k2:])]
    else:
        out.append(line(v["ref"], alts))
    seq = contigs[v["contig"]]
    p = v["pos0"]
    if hrng.random() < 0.3 and p + 3 < len(seq):
        kind = int(hrng.integers(4))
        other = [b for b in BASES if b != seq[p]]
        if kind == 0:    # deletion anchored at the SNV position
            extra = line(seq[p : p + 2], [seq[p]])
        elif kind == 1:  # insertion
            extra = line(seq[p], [seq[p] + other[0]])
        elif kind == 2:  # MNP
            extra = line(seq[p : p + 2], [other[1] + seq[p + 1]])
        else:            # mixed SNV + insertion record: not an SNV record, skipped as a whole
            extra = line(seq[p], [other[2], seq[p] + "T"])
        if hrng.random() < 0.5:
            out.insert(0, extra)
        else:
            out.append(extra)
    return out


def write_snv_vcf(path, contigs, snvs, extra_header=(), hostile_rng=None):
    """snvs: list of dict(contig, pos0, ref, alts[, id]) ; written sorted, bgzipped and tabix indexed."""
    import pysam

    order = {c: i for i, c in enumerate(contigs)}
    with open(path, "w") as fh:
        fh.write("##fileformat=VCFv4.3\n")
        for name, seq in contigs.items():
            fh.write("##contig=<ID=%s,length=%d>\n" % (name, len(seq)))
        for h in extra_header:
            fh.write(h + "\n")
        fh.write("#CHROM\tPOS\tID\tREF\tALT\tQUAL\tFILTER\tINFO\n")
        for v in sorted(snvs, key=lambda v: (order[v["contig"]], v["pos0"])):
            for ln in _variant_lines(contigs, v, hostile_rng):
                fh.write(ln)
    return pysam.tabix_index(path, preset="vcf", force=True)


def write_text_vcf(path, text, index=True):
    import pysam

    with open(path, "w") as fh:
        fh.write(text)
    if index:
        return pysam.tabix_index(path, preset="vcf", force=True)
    return path


def md_tag(ref, pos0, cigar, seq):
    """MD tag for an alignment (cigar: list of (op_char, len))."""
    out = []
    run = 0
    r = pos0
    q = 0
    for op, ln in cigar:
        if op in "M=X":
            for _ in range(ln):
                if seq[q].upper() == ref[r].upper():
                    run += 1
                else:
                    out.append(str(run))
                    out.append(ref[r].upper())
                    run = 0
                q += 1
                r += 1
        elif op == "I" or op == "S":
            q += ln
        elif op == "D":
            out.append(str(run))
            out.append("^" + ref[r : r + ln].upper())
            run = 0
            r += ln
        elif op == "N":
            r += ln
        elif op in "HP":
            pass
    out.append(str(run))
    return "".join(out)


def write_bam(path, contigs, read_groups, alignments):
    """read_groups: list of dict(ID=..., SM=...); alignments: list of alignment dicts (see make_alignment)."""
    import pysam

    header = {"HD": {"VN": "1.6", "SO": "unsorted"}, "SQ": [{"SN": n, "LN": len(s)} for n, s in contigs.items()], "RG": read_groups}
    tmp = path + ".unsorted.bam"
    names = list(contigs)
    with pysam.AlignmentFile(tmp, "wb", header=header) as out:
        for a in alignments:
            seg = pysam.AlignedSegment(out.header)
            seg.query_name = a["qname"]
            seg.flag = a["flag"]
            seg.reference_id = names.index(a["contig"])
            seg.reference_start = a["pos0"]
            seg.mapping_quality = a["mapq"]
            seg.cigartuples = [(CIG[op], ln) for op, ln in a["cigar"]]
            seg.query_sequence = a["seq"]
            seg.query_qualities = pysam.qualitystring_to_array(a["qual"])
            seg.next_reference_id = names.index(a["contig"]) if a.get("mate_pos0") is not None else -1
            seg.next_reference_start = a["mate_pos0"] if a.get("mate_pos0") is not None else -1
            seg.template_length = 0
            tags = [("RG", a["rg"])]
            if not (a["flag"] & FLAG_UNMAP):
                tags.append(("MD", a.get("md") or md_tag(contigs[a["contig"]], a["pos0"], a["cigar"], a["seq"])))
                tags.append(("NM", 0))
            seg.set_tags(tags)
            out.write(seg)
    pysam.sort("-o", path, tmp)
    os.remove(tmp)
    pysam.index(path)
    return path


# ---------------------------------------------------------------------------
# independent alignment walker (oracle side)


def walk_alignment(a):
    """{ref_pos0: base} for every position aligned to a base (M/=/X) + reference span (start, end)."""
    out = {}
    r = a["pos0"]
    q = 0
    for op, ln in a["cigar"]:
        if op in "M=X":
            for _ in range(ln):
                out[r] = (a["seq"][q], ord(a["qual"][q]) - 33)
                r += 1
                q += 1
        elif op in "IS":
            q += ln
        elif op in "DN":
            r += ln
    return out, (a["pos0"], r)


def ref_span(a):
    r = a["pos0"]
    for op, ln in a["cigar"]:
        if op in "M=XDN":
            r += ln
    return a["pos0"], r


# ---------------------------------------------------------------------------
# dataset generation


def make_contigs(rng, n_contigs=1, length=400):
    return {"chr%d" % (i + 1): random_sequence(rng, int(length)) for i in range(n_contigs)}


def make_loci(rng, contigs, n_loci, min_len=20, max_len=60, snv_range=(0, 6), multi_allelic=0.3, gap=8):
    """Non-overlapping loci per contig, each with some SNVs.  Returns (loci, snvs).

    loci: list of dict(contig,start,stop,name,snvs=[snv dicts]); snvs: flat list."""
    loci, snvs = [], []
    names = list(contigs)
    cursor = {c: int(rng.integers(5, 25)) for c in names}
    k = 0
    for i in range(n_loci):
        c = names[i % len(names)]
        ln = int(rng.integers(min_len, max_len + 1))
        start = cursor[c]
        stop = start + ln
        if stop + 30 > len(contigs[c]):
            continue
        cursor[c] = stop + int(rng.integers(gap, gap + 25))
        n_snv = int(rng.integers(snv_range[0], snv_range[1] + 1))
        pos = sorted(rng.choice(np.arange(start, stop), size=min(n_snv, ln), replace=False).tolist())
        lsnvs = []
        for p in pos:
            ref = contigs[c][p]
            others = [b for b in BASES if b != ref]
            n_alt = 1 if rng.random() > multi_allelic else int(rng.integers(2, 4))
            alts = [others[j] for j in rng.permutation(3)[:n_alt]]
            v = {"contig": c, "pos0": int(p), "ref": ref, "alts": alts}
            lsnvs.append(v)
            snvs.append(v)
        loci.append({"contig": c, "start": start, "stop": stop, "name": "locus%03d" % k, "snvs": lsnvs})
        k += 1
    return loci, snvs


def make_genotype(rng, locus, ploidy, n_founder_haps=3):
    """Genotype = list of haplotypes; haplotype = tuple of bases at the locus' SNVs."""
    pool = []
    for _ in range(max(1, n_founder_haps)):
        pool.append(tuple(([v["ref"]] + v["alts"])[int(rng.integers(0, 1 + len(v["alts"])))] if rng.random() < 0.6 else v["ref"] for v in locus["snvs"]))
    return [pool[int(rng.integers(len(pool)))] for _ in range(ploidy)]


def hap_sequence(contigs, locus, hap, lo, hi):
    """Reference sequence [lo,hi) of the locus' contig with the haplotype's SNV bases substituted."""
    seq = list(contigs[locus["contig"]][lo:hi])
    for v, b in zip(locus["snvs"], hap):
        if lo <= v["pos0"] < hi:
            seq[v["pos0"] - lo] = b
    return "".join(seq)


def make_alignment(qname, contig, pos0, cigar, seq, rg, flag=0, mapq=60, qual=None, mate_pos0=None):
    return {"qname": qname, "contig": contig, "pos0": int(pos0), "cigar": [(op, int(ln)) for op, ln in cigar], "seq": seq,
            "qual": qual if qual is not None else "I" * len(seq), "rg": rg, "flag": int(flag), "mapq": int(mapq), "mate_pos0": mate_pos0}


def simulate_read(rng, contigs, locus, hap, qname, rg, read_len=(15, 45), hostile=0.0, err=0.0, flag=0, mapq=60, anchor=None):
    """One alignment sampled from `hap` overlapping the locus; with probability `hostile` the CIGAR carries
    indels / clips / skips / =X operators."""
    c = locus["contig"]
    L = len(contigs[c])
    ln = int(rng.integers(read_len[0], read_len[1] + 1))
    if anchor is None:
        lo = int(rng.integers(max(0, locus["start"] - ln + 1), min(L - ln, locus["stop"] - 1) + 1))
    else:
        lo = int(max(0, min(L - ln, anchor)))
    hi = lo + ln
    ref_seq = hap_sequence(contigs, locus, hap, lo, hi)
    seq = list(ref_seq)
    for i in range(len(seq)):
        if err and rng.random() < err:
            seq[i] = BASES[int(rng.integers(4))]
    cigar = [("M", ln)]
    seqs = "".join(seq)
    pos0 = lo
    if rng.random() < hostile and ln >= 12:
        kind = str(rng.choice(["D", "I", "S", "N", "EQX", "SD", "H"]))
        k = int(rng.integers(3, ln - 6))
        if kind == "D":
            d = int(rng.integers(1, 4))
            if hi + d <= L:
                # delete d reference bases after k: query = ref[lo:lo+k] + ref[lo+k+d : hi+d]
                tail = hap_sequence(contigs, locus, hap, lo + k + d, hi + d)
                seqs = seqs[:k] + tail
                cigar = [("M", k), ("D", d), ("M", ln - k)]
        elif kind == "I":
            ins = random_sequence(rng, int(rng.integers(1, 4)))
            seqs = seqs[:k] + ins + seqs[k:]
            cigar = [("M", k), ("I", len(ins)), ("M", ln - k)]
        elif kind == "S":
            s = int(rng.integers(1, min(6, ln - 6)))
            if rng.random() < 0.5:
                # soft clip the first s bases: alignment starts s later
                junk = random_sequence(rng, s)
                seqs = junk + seqs[s:]
                cigar = [("S", s), ("M", ln - s)]
                pos0 = lo + s
            else:
                junk = random_sequence(rng, s)
                seqs = seqs[: ln - s] + junk
                cigar = [("M", ln - s), ("S", s)]
        elif kind == "N":
            d = int(rng.integers(2, 8))
            if hi + d <= L:
                tail = hap_sequence(contigs, locus, hap, lo + k + d, hi + d)
                seqs = seqs[:k] + tail
                cigar = [("M", k), ("N", d), ("M", ln - k)]
        elif kind == "EQX":
            # express matches / mismatches with = and X
            ref = contigs[c][lo:hi]
            ops = []
            for q, r in zip(seqs, ref):
                op = "=" if q == r else "X"
                if ops and ops[-1][0] == op:
                    ops[-1][1] += 1
                else:
                    ops.append([op, 1])
            cigar = [(op, n) for op, n in ops]
        elif kind == "SD":
            s = int(rng.integers(1, 4))
            d = int(rng.integers(1, 3))
            if hi + d <= L and k > s + 1:
                tail = hap_sequence(contigs, locus, hap, lo + k + d, hi + d)
                junk = random_sequence(rng, s)
                seqs = junk + seqs[s:k] + tail
                cigar = [("S", s), ("M", k - s), ("D", d), ("M", ln - k)]
                pos0 = lo + s
        elif kind == "H":
            cigar = [("H", 3), ("M", ln)]
    quals = "".join(chr(33 + int(q)) for q in rng.integers(30, 41, size=len(seqs)))
    return make_alignment(qname, c, pos0, cigar, seqs, rg, flag=flag, mapq=mapq, qual=quals)


class Dataset:
    def __init__(self, root):
        self.root = root
        os.makedirs(root, exist_ok=True)
        self.contigs = {}
        self.loci = []
        self.snvs = []
        self.samples = []          # sample names
        self.sample_rgs = {}       # sample -> [rg ids]
        self.sample_bam = {}       # sample -> bam path
        self.bams = []             # bam paths
        self.bam_alignments = {}   # bam path -> list of alignment dicts
        self.bam_rgs = {}          # bam path -> list of {"ID","SM"}
        self.genotypes = {}        # (sample, locus name) -> genotype
        self.ploidy = {}

    def path(self, name):
        return os.path.join(self.root, name)

    def write_reference(self):
        self.fasta = write_fasta(self.path("ref.fa"), self.contigs)
        # the variants file carries split multi-allelic records and non-SNV records in about half of the datasets; the choice
        # derives from the reference text, not from the caller's rng, so that no other part of a dataset changes with it
        import zlib

        hrng = np.random.default_rng(zlib.crc32("".join(self.contigs.values()).encode()))
        self.hostile_variants = bool(hrng.random() < 0.5)
        self.vcf = write_snv_vcf(self.path("snvs.vcf"), self.contigs, self.snvs, hostile_rng=hrng if self.hostile_variants else None)
        self.bed = write_bed(self.path("targets.bed"), [(l["contig"], l["start"], l["stop"], l["name"]) for l in self.loci])

    def rg_to_sample(self, bam, field="SM"):
        return {rg["ID"]: rg[field] for rg in self.bam_rgs[bam]}


def make_dataset(rng, root, n_samples=2, n_loci=4, ploidy=(2, 4), depth=(6, 20), n_contigs=1, contig_len=500, hostile=0.0, err=0.0,
                 flags=False, mapq_values=(60,), paired=0.0, rgs_per_sample=(1, 1), samples_per_bam=1, snv_range=(0, 6),
                 multi_allelic=0.3, read_len=(15, 45), mapq_threshold=20, mate_disagree=0.3, locus_len=(20, 60)):
    """General purpose dataset.  With flags=True a fraction of alignments carry filterable flags and MAPQ values around the
    threshold; with paired>0 that fraction of reads are pairs with overlapping mates sharing a qname."""
    ds = Dataset(root)
    ds.contigs = make_contigs(rng, n_contigs, contig_len)
    ds.loci, ds.snvs = make_loci(rng, ds.contigs, n_loci, min_len=locus_len[0], max_len=locus_len[1], snv_range=snv_range, multi_allelic=multi_allelic)
    ds.samples = ["S%d" % (i + 1) for i in range(n_samples)]
    ploidies = list(ploidy) if isinstance(ploidy, (list, tuple)) else [ploidy]
    groups = [ds.samples[i : i + samples_per_bam] for i in range(0, n_samples, samples_per_bam)]
    for bi, group in enumerate(groups):
        bam = ds.path("bam%d.bam" % bi)
        rgs, alns = [], []
        for s in group:
            ds.ploidy[s] = int(ploidies[int(rng.integers(len(ploidies)))])
            n_rg = int(rng.integers(rgs_per_sample[0], rgs_per_sample[1] + 1))
            ids = ["%s_rg%d" % (s, j) for j in range(n_rg)]
            ds.sample_rgs[s] = ids
            rgs += [{"ID": i, "SM": s} for i in ids]
            ds.sample_bam[s] = bam
            qn = 0
            for locus in ds.loci:
                g = make_genotype(rng, locus, ds.ploidy[s])
                ds.genotypes[(s, locus["name"])] = g
                n_reads = int(rng.integers(depth[0], depth[1] + 1))
                for _ in range(n_reads):
                    hap = g[int(rng.integers(len(g)))]
                    rg = ids[int(rng.integers(len(ids)))]
                    flag, mapq = 0, int(mapq_values[int(rng.integers(len(mapq_values)))])
                    if flags and rng.random() < 0.35:
                        flag |= int(rng.choice([FLAG_DUP, FLAG_QCFAIL, FLAG_SUPP, FLAG_SECONDARY, FLAG_DUP | FLAG_QCFAIL, FLAG_UNMAP]))
                    if flags and rng.random() < 0.35:
                        mapq = int(rng.choice([0, max(0, mapq_threshold - 1), mapq_threshold, mapq_threshold + 1, 255]))
                    qname = "%s_%s_r%04d" % (s, locus["name"], qn)
                    qn += 1
                    a = simulate_read(rng, ds.contigs, locus, hap, qname, rg, read_len=read_len, hostile=hostile, err=err, flag=flag, mapq=mapq)
                    if rng.random() < paired:
                        a["flag"] |= FLAG_PAIRED | FLAG_READ1
                        # mate overlaps the first read; sometimes from a different haplotype or with an error so that calls disagree
                        hap2 = hap if rng.random() > mate_disagree else g[int(rng.integers(len(g)))]
                        m = simulate_read(rng, ds.contigs, locus, hap2, qname, rg, read_len=read_len, hostile=hostile * 0.5, err=err,
                                          flag=(flag & ~FLAG_READ1) | FLAG_PAIRED | FLAG_READ2 | FLAG_REVERSE, mapq=mapq,
                                          anchor=a["pos0"] + int(rng.integers(-5, 10)))
                        if flags and rng.random() < 0.2:
                            m["flag"] ^= int(rng.choice([FLAG_DUP, FLAG_QCFAIL]))
                        a["mate_pos0"], m["mate_pos0"] = m["pos0"], a["pos0"]
                        alns += [a, m]
                    else:
                        alns.append(a)
        write_bam(bam, ds.contigs, rgs, alns)
        ds.bams.append(bam)
        ds.bam_alignments[bam] = alns
        ds.bam_rgs[bam] = rgs
    ds.write_reference()
    return ds
