"""Brute-force reference model of MCHap's pedigree inheritance (no mchap imports).

Gamete model for one pedigree edge (parent genotype, tau, lambda, error, allele frequencies):
  * with probability (1 - error) the gamete is drawn from the parent: tau of the parent's allele copies
    chosen without replacement, every subset of copies equally likely; for diploid gametes, with
    probability lambda the gamete instead consists of two copies of one uniformly chosen parental copy
    (double reduction);
  * with probability error (always, when the parent is unknown) the gamete is tau i.i.d. draws from the
    population allele frequencies;
  * tau = 0 is the empty gamete (clone edge of the other parent).
The progeny genotype is the multiset union of its two gametes.
"""

import itertools
import math


def multinomial_pmf(ms, freqs):
    d = {}
    for a in ms:
        d[a] = d.get(a, 0) + 1
    p = float(math.factorial(len(ms)))
    for a, c in d.items():
        p *= freqs[a] ** c / math.factorial(c)
    return p


def gamete_from_parent(parent, tau, lam):
    """{multiset: prob} of a gamete drawn from a known parent (tuple of alleles)."""
    out = {}
    ploidy = len(parent)
    if tau > ploidy:
        return out
    combos = list(itertools.combinations(range(ploidy), tau))
    w = (1.0 - lam) / len(combos)
    for cmb in combos:
        ms = tuple(sorted(parent[i] for i in cmb))
        out[ms] = out.get(ms, 0.0) + w
    if lam > 0:
        if tau != 2:
            raise ValueError("lambda only for diploid gametes")
        for a in parent:
            ms = (a, a)
            out[ms] = out.get(ms, 0.0) + lam / ploidy
    return {k: v for k, v in out.items() if v > 0}


def gamete_from_population(tau, freqs):
    out = {}
    n = len(freqs)
    for ms in itertools.combinations_with_replacement(range(n), tau):
        p = multinomial_pmf(ms, freqs)
        if p > 0:
            out[ms] = p
    return out


def gamete_pmf(parent, tau, lam, err, freqs):
    """parent None = unknown."""
    if tau == 0:
        return {(): 1.0}
    if parent is None:
        err = 1.0
    out = {}
    if err < 1.0:
        for ms, p in gamete_from_parent(tuple(parent), tau, lam).items():
            out[ms] = out.get(ms, 0.0) + (1.0 - err) * p
    if err > 0.0:
        for ms, p in gamete_from_population(tau, freqs).items():
            out[ms] = out.get(ms, 0.0) + err * p
    return out


def progeny_pmf(parent_p, parent_q, tau_p, tau_q, lam_p, lam_q, err_p, err_q, freqs):
    """{sorted progeny genotype: prob}."""
    dp = gamete_pmf(parent_p, tau_p, lam_p, err_p, freqs)
    dq = gamete_pmf(parent_q, tau_q, lam_q, err_q, freqs)
    out = {}
    for a, pa in dp.items():
        for b, pb in dq.items():
            g = tuple(sorted(a + b))
            out[g] = out.get(g, 0.0) + pa * pb
    return out


class TrioCache:
    """Memoised progeny pmfs keyed by the edge parameters."""

    def __init__(self, freqs):
        self.freqs = [float(f) for f in freqs]
        self.memo = {}

    def pmf(self, parent_p, parent_q, tau_p, tau_q, lam_p, lam_q, err_p, err_q):
        kp = None if parent_p is None else tuple(sorted(parent_p))
        kq = None if parent_q is None else tuple(sorted(parent_q))
        key = (kp, kq, tau_p, tau_q, lam_p, lam_q, err_p, err_q)
        if key not in self.memo:
            self.memo[key] = progeny_pmf(kp, kq, tau_p, tau_q, lam_p, lam_q, err_p, err_q, self.freqs)
        return self.memo[key]

    def prob(self, progeny, *args):
        return self.pmf(*args).get(tuple(sorted(progeny)), 0.0)
