#!/bin/bash
# Validates MANIFEST.json and every evidence/*.json against the harness schemas (uses the tooling venv's jsonschema).
cd /verif && python3-vt - <<'PY'
import json, glob, jsonschema, sys
ok=True
try:
    jsonschema.validate(json.load(open('MANIFEST.json')), json.load(open('/root/.vp/MANIFEST.schema.json'))); print("MANIFEST ok")
except Exception as e:
    ok=False; print("MANIFEST INVALID", str(e)[:300])
sch=json.load(open('/root/.vp/EVIDENCE.schema.json'))
man=json.load(open('MANIFEST.json'))
for c in man['checks']:
    p=c['evidence_file']
    try:
        e=json.load(open(p)); jsonschema.validate(e, sch)
        print(c['property_id'], 'ok', e['tier'], 'seed', e['seed'], 'eval', e['coverage']['evaluations'], 'distinct', e['coverage']['distinct_nontrivial'], 'samples', len(e['coverage']['samples']), e['coverage'].get('verdict'))
    except Exception as ex:
        ok=False; print(c['property_id'], 'INVALID', str(ex)[:200])
sys.exit(0 if ok else 1)
PY
