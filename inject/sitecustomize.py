"""Env-guarded fault / delay injection for MCHap CLI subprocesses (no edit of the repository).

Inert unless MCHAP_VERIF_INJECT is set.  Put this directory on PYTHONPATH of a `mchap` subprocess:
  MCHAP_VERIF_INJECT="delay=<seed>:<max_ms>"          seeded pseudo-random sleep before each locus is processed
                                                        (different per locus and per seed) -> schedule diversity for
                                                        the worker pool / writer queue
  MCHAP_VERIF_INJECT="fail=<locus-name>"               raise RuntimeError while that locus is processed (inside the worker)
  MCHAP_VERIF_INJECT="slow=<locus-name>:<ms>"          sleep before that locus is processed (makes its block finish late)
  MCHAP_VERIF_INJECT="slowothers=<locus-name>:<ms>"    sleep before every OTHER locus (makes that locus' block finish early)
Several directives may be joined with ','.
"""
import os
import sys

_spec = os.environ.get("MCHAP_VERIF_INJECT")
if _spec:
    import importlib.abc
    import importlib.util

    _cfg = {}
    for _item in _spec.split(","):
        if "=" in _item:
            _k, _v = _item.split("=", 1)
            _cfg[_k.strip()] = _v.strip()

    def _patch(module):
        import hashlib
        import time

        cls = module.program
        orig = cls.call_locus

        def call_locus(self, locus, sample_bams):
            name = str(getattr(locus, "name", ""))
            if "delay" in _cfg:
                seed, max_ms = _cfg["delay"].split(":")
                h = hashlib.blake2b(("%s|%s|%s|%s" % (seed, name, locus.contig, locus.start)).encode(), digest_size=4).digest()
                frac = int.from_bytes(h, "big") / 2**32
                time.sleep(frac * float(max_ms) / 1000.0)
            if "slow" in _cfg:
                nm, ms = _cfg["slow"].rsplit(":", 1)
                if nm == name:
                    time.sleep(float(ms) / 1000.0)
            if "slowothers" in _cfg:
                nm, ms = _cfg["slowothers"].rsplit(":", 1)
                if nm != name:
                    time.sleep(float(ms) / 1000.0)
            if _cfg.get("fail") == name:
                raise RuntimeError("MCHAP_VERIF_INJECT: injected failure at locus %s" % name)
            return orig(self, locus, sample_bams)

        cls.call_locus = call_locus

    class _Loader(importlib.abc.Loader):
        def __init__(self, real):
            self.real = real

        def create_module(self, spec):
            return self.real.create_module(spec)

        def exec_module(self, module):
            self.real.exec_module(module)
            _patch(module)

    class _Finder(importlib.abc.MetaPathFinder):
        busy = False

        def find_spec(self, name, path, target=None):
            if name != "mchap.application.baseclass" or self.busy:
                return None
            self.busy = True
            try:
                spec = importlib.util.find_spec(name)
            finally:
                self.busy = False
            if spec is None or spec.loader is None:
                return None
            spec.loader = _Loader(spec.loader)
            return spec

    sys.meta_path.insert(0, _Finder())
