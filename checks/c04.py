"""C04 - read likelihood: documented mixture semantics and symmetries.

Monitor: return values of the compiled kernels (and their .py_func twins)
  assemble.likelihood.log_likelihood / log_likelihood_structural_change(_cached)
  calling.likelihood.log_likelihood_alleles(_cached)
  pedigree.likelihood.log_likelihood_alleles_cached
Oracle: independent mixture likelihood (vlib.oracles.model) + metamorphic relations.
"""

import math

import numpy as np

from vlib import gen
from vlib.oracles import model as M
from vlib.report import unjson_array

ID = "C04"
TECHNIQUE = "runtime monitoring: compiled likelihood kernels observed on generated inputs; independent mixture-model oracle + metamorphic relations"
LEVEL_TEXT = "Exploration: every observed return value of the real compiled likelihood kernels (assemble, calling, pedigree, cached and uncached, structural) on thousands of generated read tensors (NaN gaps, zero-probability non-alleles, weighted reads, duplicated haplotypes, all interval shapes) equals an independent implementation of the documented mixture likelihood and satisfies the stated symmetries. It says nothing outside the generated classes (ploidy 1-8, <=8 sites, <=12 reads)."
LEVEL_TEXT += ' Session 3: long loci (25-120 SNVs) with reads whose probability under the genotype is 1e-60..1e-280 (representable, while products of two are not); every symmetry, count, structural, cached and allele-indexed monitor runs on them.'
LEVEL_TEXT += ' Session 4: one cache over streams of pooled ploidies 8-12 with 70-500 candidate haplotypes (ploidy x bits per allele beyond 64).'
LEVEL_NOTE = "Trusts the oracle in vlib/oracles/model.py, numpy, and that numba executes the cached code compiled from the hashed tree."
LEVEL = "exploration"
RULE = (
    "seeded random (reads tensor, counts, genotype, rearrangement index vector, interval) cases; "
    "a case is non-trivial when it has >=1 read and >=1 site; distinct = hash of the full case"
)
ASSUMPTIONS = [
    "oracle likelihood in vlib/oracles/model.py is the documented mixture model",
    "float64 agreement judged at 1e-9 relative + 1e-10 absolute; -inf must match exactly",
    "reads with count 0 and probability 0 (0*log 0) are outside the statement and not generated",
]
RTOL = 1e-9
ATOL = 1e-10


def plan(tier, seed):
    n = 16
    per = 4000 if tier == "quick" else 40000
    specs = [{"name": "s%02d" % i, "shard": i, "cases": per, "timeout": 3000} for i in range(n)]
    specs += [{"name": "stream%d" % i, "kind": "stream", "shard": 30 + i, "streams": 10 if tier == "quick" else 100, "timeout": 3000} for i in range(4)]
    return specs


def required(tier):
    return {"llk_vs_oracle": 1000, "structural_vs_oracle": 1000, "gap_cases": 100, "neg_inf_cases": 5,
            "alleles_vs_oracle": 500, "pedigree_alleles_vs_oracle": 300, "cached_hits": 100, "long_locus_tiny_read_probability_cases": 500,
            "stream_lookups_checked": 8000, "stream_lookups_hit": 1500, "stream_lookups_allele_index_ge_64": 500, "stream_pedigree_lookups_checked": 2000, "stream_high_ploidy_many_haplotypes": 6}


def close(a, b):
    if math.isinf(a) or math.isinf(b):
        return a == b
    if math.isnan(a) or math.isnan(b):
        return False
    return abs(a - b) <= ATOL + RTOL * max(abs(a), abs(b))


def py_structural_change(genotype, idx, interval):
    g = [list(map(int, h)) for h in genotype]
    n_base = len(g[0]) if g else 0
    lo, hi = (0, n_base) if interval is None else interval
    new = [row[:] for row in g]
    for j in range(lo, hi):
        for h in range(len(g)):
            new[h][j] = g[idx[h]][j]
    return new


def min_read_log10(reads, genotype):
    """log10 of the smallest per-read probability under the genotype, computed in log space (no underflow)."""
    out = 0.0
    ploidy = len(genotype)
    for r in range(len(reads)):
        logs = []
        for h in genotype:
            t = 0.0
            for j, a in enumerate(h):
                v = reads[r, j, int(a)]
                if not np.isnan(v):
                    t += math.log10(v) if v > 0 else -1e9
            logs.append(t)
        mx = max(logs)
        tot = mx + math.log10(sum(10 ** (x - mx) for x in logs) / ploidy)
        out = min(out, tot)
    return out


def make_long_case(rng):
    """Long locus (25-120 SNVs) with reads that mismatch every haplotype of the genotype at many sites: each read's
    probability is tiny (1e-60 .. 1e-280) yet representable, while products of two or more of them are not - the sum over
    reads must be taken in log space, read by read, exactly as the statement is written."""
    ploidy = int(rng.integers(1, 7))
    n_pos = int(rng.integers(25, 121))
    n_nucl = int(rng.integers(2, 5))
    n_alleles = rng.integers(2, n_nucl + 1, size=n_pos)
    genotype = gen.gen_genotype(rng, ploidy, n_alleles)
    n_reads = int(rng.integers(2, 8))
    err = float(rng.choice([1e-6, 1e-4, 2.4e-3, 1e-2]))
    per_site = -math.log10(err / 3)
    reads = np.zeros((n_reads, n_pos, n_nucl))
    for r in range(n_reads):
        # start from a haplotype of the genotype and flip m sites so that log10 P(read | that haplotype) ~ -target
        target = float(rng.uniform(60, 280))
        m = int(min(n_pos, max(1, target // per_site)))
        h = genotype[int(rng.integers(ploidy))].astype(int).copy()
        for j in rng.permutation(n_pos)[:m]:
            h[j] = (h[j] + 1 + int(rng.integers(n_alleles[j] - 1))) % n_alleles[j]
        for j in range(n_pos):
            na = int(n_alleles[j])
            reads[r, j, :na] = err / (na - 1)
            reads[r, j, h[j]] = 1 - err
        if rng.random() < 0.3:
            reads[r, rng.permutation(n_pos)[: int(rng.integers(1, 6))], :] = np.nan
    counts = None if rng.random() < 0.3 else (np.ones(n_reads, dtype=np.int64) if rng.random() < 0.6 else rng.integers(1, 4, size=n_reads).astype(np.int64))
    idx = rng.integers(0, ploidy, size=ploidy).astype(np.int8)
    lo = int(rng.integers(0, n_pos))
    interval = None if rng.random() < 0.2 else (lo, int(rng.integers(lo, n_pos + 1)))
    # the statement is about real arithmetic; double arithmetic can follow it only while every read's probability is a
    # NORMAL double (below 2.2e-308 products lose bits, and the kernel and the oracle multiply in different orders).  The
    # rearranged genotype must satisfy that as well, otherwise the rearrangement is replaced by the identity.
    if min_read_log10(reads, py_structural_change(genotype, idx, interval)) < -290:
        idx = np.arange(ploidy).astype(np.int8)
    assert min_read_log10(reads, genotype) >= -290
    return dict(reads=reads, counts=counts, genotype=genotype, idx=idx, interval=interval, long=True)


def make_case(rng):
    if rng.random() < 0.06:
        return make_long_case(rng)
    ploidy = int(rng.integers(1, 9)) if rng.random() < 0.85 else int(rng.choice([9, 10, 12, 16]))
    n_pos = int(rng.integers(0, 9))
    n_nucl = int(rng.integers(2, 5))
    n_alleles = rng.integers(2, n_nucl + 1, size=n_pos)
    n_reads = int(rng.integers(0, 13))
    reads = gen.gen_reads(rng, n_reads, n_alleles, n_nucl=n_nucl, gap_rate=float(rng.choice([0, 0.15, 0.5])))
    counts = gen.gen_counts(rng, n_reads)
    genotype = gen.gen_genotype(rng, ploidy, n_alleles)
    idx = rng.integers(0, ploidy, size=ploidy).astype(np.int8)
    if n_pos > 0 and rng.random() < 0.8:
        lo = int(rng.integers(0, n_pos))
        hi = int(rng.integers(lo, n_pos + 1))
        interval = (lo, hi)
    else:
        interval = None
    return dict(reads=reads, counts=counts, genotype=genotype, idx=idx, interval=interval)


def check_case(c, col, K):
    reads, counts, genotype, idx, interval = c["reads"], c["counts"], c["genotype"], c["idx"], c["interval"]
    ploidy, n_pos = genotype.shape
    n_reads = len(reads)
    has_gap = bool(np.isnan(reads).any())
    expect = M.log_likelihood(reads, genotype, counts)
    if math.isnan(expect):
        col.count("ambiguous_skipped")
        return
    if has_gap:
        col.count("gap_cases")
    if c.get("long"):
        col.count("long_locus_tiny_read_probability_cases")
    if expect == -math.inf:
        col.count("neg_inf_cases")
    bad = []

    def cmp(name, got, want, mech):
        got = float(got)
        col.count(name)
        if not math.isinf(want) and not math.isinf(got) and not math.isnan(got):
            col.maxv("max_rel_err", abs(got - want) / max(1.0, abs(want)))
        if not close(got, want):
            bad.append((mech, "%s: got %r want %r" % (name, got, want)))

    # 1. kernels vs oracle (compiled and py_func)
    got = K["log_likelihood"](reads, genotype, counts)
    cmp("llk_vs_oracle", got, expect, "likelihood-differs-from-mixture-model")
    if c.get("pyfunc", False):
        got = K["log_likelihood"].py_func(reads, genotype, counts)
        cmp("llk_pyfunc_vs_oracle", got, expect, "likelihood-differs-from-mixture-model")

    # 2. symmetries (compared against the same oracle value => also pairwise equal)
    if ploidy > 1:
        perm = c["perm_h"]
        got = K["log_likelihood"](reads, np.ascontiguousarray(genotype[perm]), counts)
        cmp("hap_permutation", got, expect, "likelihood-depends-on-haplotype-order")
    if n_reads > 1:
        perm = c["perm_r"]
        got = K["log_likelihood"](np.ascontiguousarray(reads[perm]), genotype, None if counts is None else counts[perm])
        cmp("read_permutation", got, expect, "likelihood-depends-on-read-order")
    if n_reads > 0:
        cc = np.ones(n_reads, dtype=np.int64) if counts is None else counts
        rep = np.repeat(np.arange(n_reads), cc)
        got = K["log_likelihood"](np.ascontiguousarray(reads[rep]), genotype, None)
        cmp("count_equals_copies", got, expect, "read-count-not-equal-to-copies")
        if counts is None:
            got = K["log_likelihood"](reads, genotype, np.ones(n_reads, dtype=np.int64))
            cmp("none_equals_ones", got, expect, "read-count-not-equal-to-copies")

    # 3. structural rearrangement
    if n_pos > 0:
        newg = py_structural_change(genotype, idx, interval)
        want = M.log_likelihood(reads, newg, counts)
        iv = None if interval is None else np.array(interval, dtype=np.int64)
        got = K["llk_struct"](reads, genotype, idx, iv, counts)
        cmp("structural_vs_oracle", got, want, "structural-likelihood-differs-from-rearranged-genotype")
        g2 = genotype.copy()
        K["structural_change"](g2, idx, iv)
        col.count("structural_change_vs_model")
        if g2.tolist() != newg:
            bad.append(("structural-change-not-as-documented", "structural_change gave %s want %s" % (g2.tolist(), newg)))
        got = K["log_likelihood"](reads, g2, counts)
        cmp("structural_then_llk", got, want, "structural-likelihood-differs-from-rearranged-genotype")
        # cached wrappers, twice (miss then hit)
        cache = K["new_cache"](ploidy, n_pos, int(reads.shape[2]))
        v1, cache = K["llk_struct_cached"](reads, genotype, idx, iv, counts, cache)
        v2, cache = K["llk_struct_cached"](reads, genotype, idx, iv, counts, cache)
        cmp("structural_cached_miss", v1, want, "cache-returns-wrong-likelihood")
        cmp("structural_cached_hit", v2, want, "cache-returns-wrong-likelihood")
        v3, cache = K["llk_cached"](reads, np.array(newg, dtype=np.int8), counts, cache)
        cmp("cached_hits", v3, want, "cache-returns-wrong-likelihood")
        v4, cache = K["llk_cached"](reads, genotype, counts, cache)
        cmp("cached_miss", v4, expect, "cache-returns-wrong-likelihood")

    # 4. allele-indexed likelihoods
    if n_pos > 0 and n_reads > 0:
        haps = c["haps"]
        alleles = c["alleles"]
        cc = np.ones(n_reads, dtype=np.int64) if counts is None else counts
        want = M.log_likelihood(reads, haps[alleles], cc)
        got = K["llk_alleles"](reads, cc, haps, alleles)
        cmp("alleles_vs_oracle", got, want, "allele-indexed-likelihood-differs")
        d = K["typed_dict"]()
        got1 = K["llk_alleles_cached"](reads, cc, haps, alleles, d)
        got2 = K["llk_alleles_cached"](reads, cc, haps, alleles[c["perm_a"]], d)
        cmp("alleles_cached_miss", got1, want, "allele-indexed-likelihood-differs")
        cmp("alleles_cached_hit_permuted", got2, want, "allele-indexed-likelihood-differs")
        # pedigree flavour: zero-count reads are excluded
        cz = cc.copy()
        zero = c["zero_mask"]
        cz[zero] = 0
        keep = ~zero
        want_p = M.log_likelihood(reads[keep], haps[np.sort(alleles)], cz[keep])
        dp = K["typed_dict_ped"]()
        srt = np.sort(alleles)
        got = K["ped_llk"](reads, cz, haps, 3, srt, dp)
        cmp("pedigree_alleles_vs_oracle", got, want_p, "pedigree-likelihood-differs")
        got = K["ped_llk"](reads, cz, haps, 3, srt, dp)
        cmp("pedigree_alleles_cached_hit", got, want_p, "pedigree-likelihood-differs")
        got = K["ped_llk"](reads, cz, haps, 3, srt, None)
        cmp("pedigree_alleles_nocache", got, want_p, "pedigree-likelihood-differs")

    for mech, msg in bad:
        col.violation(mech, msg, replay=pack(c))


def pack(c):
    d = {k: (None if v is None else (v.tolist() if isinstance(v, np.ndarray) else v)) for k, v in c.items()}
    d["reads_shape"] = list(c["reads"].shape)
    return d


def unpack(d):
    c = dict(d)
    c["reads"] = unjson_array(d["reads"], float).reshape(d["reads_shape"])
    c["counts"] = None if d["counts"] is None else np.array(d["counts"], dtype=np.int64)
    c["genotype"] = np.array(d["genotype"], dtype=np.int8).reshape(len(d["genotype"]), -1)
    c["idx"] = np.array(d["idx"], dtype=np.int8)
    c["interval"] = None if d["interval"] is None else tuple(d["interval"])
    for k in ("perm_h", "perm_r", "perm_a"):
        c[k] = np.array(d[k], dtype=np.int64)
    c["haps"] = np.array(d["haps"], dtype=np.int8).reshape(len(d["haps"]), -1)
    c["alleles"] = np.array(d["alleles"], dtype=np.int64)
    c["zero_mask"] = np.array(d["zero_mask"], dtype=bool)
    return c


def kernels():
    import numba
    from numba import types
    from numba.typed import Dict

    from mchap import jitutils
    from mchap.assemble import likelihood as AL
    from mchap.calling import likelihood as CL
    from mchap.pedigree import likelihood as PL

    def typed_dict():
        d = Dict.empty(key_type=types.int64, value_type=types.float64)
        d[-1] = np.nan
        return d

    ped_kind = []

    def typed_dict_ped():
        """A cache as the pedigree sampler creates it.  The key type is the sampler's business: the (sample, genotype index)
        tuple key is tried first, then a plain integer key, whichever the compiled wrapper accepts."""
        def make(kind):
            if kind == "tuple":
                d = Dict.empty(key_type=types.UniTuple(types.int64, 2), value_type=types.float64)
                d[(-1, -1)] = np.nan
            else:
                d = Dict.empty(key_type=types.int64, value_type=types.float64)
                d[-1] = np.nan
            return d

        if not ped_kind:
            probe_reads = np.full((1, 1, 2), 0.5)
            for kind in ("tuple", "int"):
                try:
                    PL.log_likelihood_alleles_cached(probe_reads, np.ones(1, dtype=np.int64), np.zeros((1, 1), dtype=np.int8), 0, np.zeros(2, dtype=np.int64), make(kind))
                    ped_kind.append(kind)
                    break
                except Exception:  # noqa: BLE001  (typing error: not this key type)
                    continue
            if not ped_kind:
                ped_kind.append("tuple")
        return make(ped_kind[0])

    return {
        "log_likelihood": AL.log_likelihood,
        "llk_struct": AL.log_likelihood_structural_change,
        "llk_struct_cached": AL.log_likelihood_structural_change_cached,
        "llk_cached": AL.log_likelihood_cached,
        "new_cache": AL.new_log_likelihood_cache,
        "structural_change": jitutils.structural_change,
        "llk_alleles": CL.log_likelihood_alleles,
        "llk_alleles_cached": CL.log_likelihood_alleles_cached,
        "ped_llk": PL.log_likelihood_alleles_cached,
        "typed_dict": typed_dict,
        "typed_dict_ped": typed_dict_ped,
    }


def complete_case(rng, c):
    ploidy, n_pos = c["genotype"].shape
    n_reads = len(c["reads"])
    c["perm_h"] = rng.permutation(ploidy)
    c["perm_r"] = rng.permutation(n_reads)
    c["pyfunc"] = bool(rng.random() < 0.15)
    # haplotype set that contains the genotype's haplotypes plus a few others
    rows = [tuple(r) for r in c["genotype"].tolist()]
    extra = gen.gen_genotype(rng, int(rng.integers(1, 4)), np.maximum(1, c["genotype"].max(axis=0) + 1) if n_pos else [], dup_rate=0)
    haps = list(dict.fromkeys(rows + [tuple(r) for r in extra.tolist()]))
    order = rng.permutation(len(haps))
    haps = [haps[i] for i in order]
    c["haps"] = np.array(haps, dtype=np.int8).reshape(len(haps), n_pos)
    c["alleles"] = np.array([haps.index(r) for r in rows], dtype=np.int64)
    c["perm_a"] = rng.permutation(ploidy)
    z = rng.random(n_reads) < 0.3
    c["zero_mask"] = z
    return c


def run_stream(tier, seed, spec, col):
    """ONE cache fed a long stream of genotypes over a LARGE set of candidate haplotypes (40-250, i.e. allele numbers far
    beyond 32 / 64 / 127) at every ploidy 1-8: each value the calling-level and pedigree-level cached likelihoods serve -
    miss, hit, single-allele neighbour, permuted order - must be the mixture likelihood of exactly that genotype."""
    K = kernels()
    for si in range(spec["streams"]):
        rng = gen.rng_for(seed, ID, spec["shard"], si)
        ploidy = int(1 + (si + spec["shard"]) % 8)
        n_pos = 8
        n_haps = int(rng.choice([40, 70, 130, 200, 250]))
        if si % 5 == 4:
            # session 4: pooled ploidies with hundreds of haplotypes (ploidy x bits-per-allele beyond 64)
            ploidy = int(rng.choice([8, 10, 12]))
            n_pos = 9
            n_haps = int(rng.choice([70, 130, 300, 400, 500]))
            col.count("stream_high_ploidy_many_haplotypes")
        codes = rng.permutation(1 << n_pos)[:n_haps]
        haps = np.array([[(int(c_) >> j) & 1 for j in range(n_pos)] for c_ in codes], dtype=np.int8)
        n_reads = int(rng.integers(2, 7))
        truth = haps[rng.integers(0, n_haps, size=ploidy)]
        reads = gen.gen_reads_from_haps(rng, truth, n_reads, np.full(n_pos, 2), n_nucl=2, gap_rate=0.2, err=0.02)
        counts = rng.integers(1, 4, size=n_reads).astype(np.int64)
        Mx = M.hap_read_matrix(reads, haps)
        d = K["typed_dict"]()
        cur = np.sort(rng.integers(0, n_haps, size=ploidy)).astype(np.int64)
        seen = set()
        case = {"kind": "stream", "seed": seed, "shard": spec["shard"], "stream": si, "ploidy": ploidy, "n_haplotypes": n_haps}
        col.case("STREAM|%d|%d" % (spec["shard"], si), nontrivial=True)
        bad = None
        for k in range(250):
            r = rng.random()
            if r < 0.5:
                g = cur.copy()
                g[int(rng.integers(ploidy))] = int(rng.integers(n_haps))     # single-allele neighbour (what a Gibbs sweep looks up)
            elif r < 0.8:
                g = rng.integers(0, n_haps, size=ploidy).astype(np.int64)
            else:
                g = cur.copy()                                                 # repeat: a hit
            if rng.random() < 0.3:
                cur = np.sort(g)
            key = tuple(sorted(int(a) for a in g))
            col.count("stream_lookups_checked")
            if key in seen:
                col.count("stream_lookups_hit")
            seen.add(key)
            if max(key) >= 64:
                col.count("stream_lookups_allele_index_ge_64")
            want = M.log_likelihood_alleles_fast(Mx, key, counts)
            got = float(K["llk_alleles_cached"](reads, counts, haps, np.ascontiguousarray(g[rng.permutation(ploidy)]), d))
            if not close(got, want):
                bad = "lookup %d: genotype %s served %.10g, its mixture likelihood is %.10g (ploidy %d, %d haplotypes, %d entries cached)" % (k, list(key), got, want, ploidy, n_haps, len(d) - 1)
                break
        if bad:
            col.violation("cache-returns-wrong-likelihood", "calling.log_likelihood_alleles_cached, one cache over a stream: " + bad, replay=case)
        # pedigree flavour: several samples of different ploidy share one cache
        dp = K["typed_dict_ped"]()
        ploidies = [int(x) for x in rng.choice([2, 3, 4, 6], size=3)]
        sreads = [gen.gen_reads_from_haps(rng, haps[rng.integers(0, n_haps, size=pl)], int(rng.integers(1, 5)), np.full(n_pos, 2), n_nucl=2, gap_rate=0.2, err=0.02) for pl in ploidies]
        scounts = [rng.integers(1, 3, size=len(x)).astype(np.int64) for x in sreads]
        sM = [M.hap_read_matrix(x, haps) for x in sreads]
        bad = None
        pool = [np.sort(rng.integers(0, n_haps, size=pl)).astype(np.int64) for pl in ploidies for _ in range(6)]
        for k in range(120):
            smp = int(rng.integers(3))
            cand = [g for g in pool if len(g) == ploidies[smp]]
            g = cand[int(rng.integers(len(cand)))].copy()
            if rng.random() < 0.5:
                g[int(rng.integers(len(g)))] = int(rng.integers(n_haps))
                g = np.sort(g)
            col.count("stream_pedigree_lookups_checked")
            want = M.log_likelihood_alleles_fast(sM[smp], tuple(int(a) for a in g), scounts[smp])
            got = float(K["ped_llk"](sreads[smp], scounts[smp], haps, smp, g, dp))
            if not close(got, want):
                bad = "lookup %d: sample %d (ploidy %d) genotype %s served %.10g, that sample's reads give %.10g" % (k, smp, ploidies[smp], g.tolist(), got, want)
                break
        if bad:
            col.violation("pedigree-likelihood-differs", "pedigree.log_likelihood_alleles_cached, one cache over samples of ploidy %s: %s" % (ploidies, bad), replay=case)


def run_shard(tier, seed, spec, col):
    if spec.get("kind") == "stream":
        return run_stream(tier, seed, spec, col)
    K = kernels()
    for i in range(spec["cases"]):
        rng = gen.rng_for(seed, ID, spec["shard"], i)
        c = complete_case(rng, make_case(rng))
        ploidy, n_pos = c["genotype"].shape
        col.case(pack(c), nontrivial=(len(c["reads"]) > 0 and n_pos > 0))
        if i < 2 and spec["shard"] == 0:
            col.sample(pack(c))
        check_case(c, col, K)


def replay(obj, col):
    if obj["case"].get("kind") == "stream":
        c = obj["case"]
        return run_stream(obj.get("tier", "quick"), int(c["seed"]), {"kind": "stream", "shard": c["shard"], "streams": c["stream"] + 1}, col)
    K = kernels()
    c = unpack(obj["case"])
    check_case(c, col, K)
