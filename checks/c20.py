"""C20 - atomize emits the per-SNV projection of every haplotype record.

Monitor
  stdout of the real `mchap atomize <vcf>` (run in-process through mchap.application.cli.main) and the exception it
  raises, if any, on
    (1) generated haplotype VCFs whose content is known by construction (ALT-less records with and without SNVPOS
        sites, sites monomorphic among the listed haplotypes, multi-allelic sites, REFMASKED, '.' alleles in GT,
        FORMAT ACP / AFP that sum to the ploidy / one or to less, SNVDP present or absent, 1-4 samples of mixed ploidy);
    (2) haplotype VCFs produced by the real `mchap assemble` on generated BAM datasets and by `call-exact` / `call`
        re-calling that assemble output.
Oracle (this file; vlib.vcfparse only, never mchap / pysam): the INPUT text is parsed independently and for every record
  and SNVPOS offset the demanded line is derived (POS, REF, ALT by first appearance, projected phased GT, PS, AC,
  DS / INFO ACP as the marginal of the haplotype-level ACP (or AFP x ploidy), raw or ploidy-normalised, FORMAT DP / INFO
  DP from SNVDP) and compared with the OUTPUT text parsed by the same independent parser; every output line is checked
  against the emitted header.  A file on which atomize raises is split: every record of a hostile shape is run in a file
  of its own (to attribute the exception) and the remaining records are run together so that the oracle still sees them.
"""

import os
import re
import shutil

import numpy as np

from vlib import gen, vcfparse

ID = "C20"
TECHNIQUE = "runtime monitoring: stdout and exceptions of the real atomize program run in-process on generated and on pipeline-produced (assemble / call / call-exact) haplotype VCFs; output parsed by an independent VCF parser and compared with an independent per-site projection of the input text"
LEVEL = "exploration"
LEVEL_TEXT = (
    "Exploration: the real `mchap atomize` was run on generated haplotype VCFs (1-6 non-overlapping records of 1-30 bp, 0-6 ALT "
    "haplotypes, 0-5 SNVPOS sites with 2-4 bases, ALT-less records with and without SNVPOS sites, sites monomorphic among the "
    "listed haplotypes, REFMASKED, 1-4 samples of ploidy 1-6, '.' alleles, FORMAT ACP and/or AFP summing to the ploidy / one or to "
    "less, with and without SNVDP) and on the output of real assemble / call-exact / call runs over generated BAM datasets. Every "
    "output line was observed and compared with the projection derived independently from the input text (POS, REF/ALT by first "
    "appearance, phased projected GT, PS, AC, DS and INFO ACP as raw or ploidy-normalised marginal within 0.0015, DP) and with the "
    "emitted header; every exception was attributed to a single input record. Holds only on what was observed; overlapping "
    "records, non-ACGT bases, missing FORMAT/SQ and '.' entries inside ACP/AFP/SNVDP were not generated."
)
LEVEL_TEXT += ' Session 3: records listing 129-300 haplotypes (allele numbers beyond int8 / uint8 in GT, AC, ACP).'
LEVEL_NOTE = (
    "Trusts vlib/vcfparse.py (independent VCF text parser), the projection oracle in this file and vlib/datasets.py / vlib/hapvcf.py "
    "writers; pipeline inputs are whatever the real assemble / call / call-exact of the same tree emitted (their correctness is "
    "not judged here, only that atomize accepts and projects them). FORMAT GQ/PQ and the ID column are not judged."
)
RULE = (
    "case = one atomize run on one haplotype VCF file (generated, pipeline-produced, or a single-record / remainder split of a "
    "file that made atomize raise); non-trivial = the file contains at least one record with an SNVPOS site; distinct by hash of "
    "the input record lines"
)
ASSUMPTIONS = [
    "records of one input file do not overlap, so an output line is identified by (CHROM, POS)",
    "FORMAT/SQ is present in every input record (atomize reads it for PQ; its absence is outside the statement)",
    "the help text documents normalisation of ACP/AFP, so both the raw marginal and the ploidy-normalised marginal are accepted for DS and INFO/ACP",
    "a sample whose listed ACP/AFP sum to zero has no defined normalised marginal: '.' and the raw zeros are both accepted",
    "a site without an alternative base among the listed haplotypes may be omitted or written with ALT '.' (A-length fields then '.')",
]
TOL = 0.0015
BASES = "ACGT"

K_NOALT = "atomize-rejects-record-without-alt"
K_MONO = "atomize-rejects-site-monomorphic-among-listed-haplotypes"
K_EMPTY_ALT = "atomize-emits-empty-alt-column"
K_RAISED = "atomize-raised-on-record"

SAMPLE_NAMES = ["S1", "smpl_B", "c-3", "D4"]


# ---------------------------------------------------------------------------------------------------------------------
# plan


def plan(tier, seed):
    k = 1 if tier == "quick" else 10
    return [{"name": "s%02d" % i, "shard": i, "gen_files": 250 * k, "pipelines": 5 * k, "timeout": 3000 if tier == "quick" else 14000} for i in range(16)]


def required(tier):
    q = {
        "atomize_runs": 2500, "files_generated": 3500, "files_pipeline": 120, "pipeline_assemble_files": 60, "pipeline_call_exact_files": 50,
        "pipeline_call_files": 25, "pipeline_records": 400, "pipeline_shape_mono_records": 20, "pipeline_shape_noalt_snv_records": 3,
        "pipeline_shape_plain_records": 200, "records_seen": 6000, "records_without_sites": 600, "shape_noalt_with_snvpos_records": 400,
        "shape_monomorphic_site_records": 400, "shape_plain_records": 3000, "refmasked_records": 700, "sites_decided": 8000,
        "sites_polymorphic_checked": 8000, "sites_multiallelic": 2000, "sites_alphabetical_numbering_differs": 4000, "gt_checked": 20000,
        "gt_with_missing_allele": 5000, "ps_checked": 8000, "ac_checked": 8000, "ds_checked": 12000, "ds_input_sums_below_ploidy": 6000,
        "ds_from_afp": 3000, "ds_absent_checked": 1200, "info_acp_checked": 4000, "dp_checked": 4000, "dp_absent_checked": 1500,
        "dp_site_order_matters": 1000, "output_lines_wellformed_checked": 8000, "multi_record_runs_ok": 800,
        "records_listing_more_than_128_haplotypes": 100,
    }
    k = 1 if tier == "quick" else 8
    return {name: v * k for name, v in q.items()}


# ---------------------------------------------------------------------------------------------------------------------
# oracle: projection of the input text (no mchap, no pysam)


def snvpos_of(rec):
    v = rec.info.get("SNVPOS")
    if v is None or v is True:
        return []
    return [int(x) for x in v.split(",") if x not in (".", "")]


def site_alleles(rec, k):
    """bases of REF, ALT1, ALT2... at 1-based offset k; distinct bases by first appearance; allele number of each haplotype"""
    bases = [rec.ref[k - 1]] + [a[k - 1] for a in rec.alts]
    order = []
    idx = []
    for b in bases:
        if b not in order:
            order.append(b)
        idx.append(order.index(b))
    return order, idx


def shape_of(rec):
    sp = snvpos_of(rec)
    if not sp:
        return "nosnv"
    if not rec.alts:
        return "noalt-snv"
    for k in sp:
        if len(site_alleles(rec, k)[0]) == 1:
            return "mono"
    return "plain"


def sample_counts(rec, sample, ploidy):
    """haplotype-level posterior counts of a sample: FORMAT ACP, else FORMAT AFP x ploidy, else None. ('how', list)"""
    for key, scale in (("ACP", 1.0), ("AFP", float(ploidy))):
        if key in rec.format:
            txt = rec.samples[sample].get(key)
            if txt is None or txt == "." or txt == "":
                continue
            vals = txt.split(",")
            if any(v == "." for v in vals):
                return "partial-missing", None
            return key, [float(v) * scale for v in vals]
    return "absent", None


class Site:
    pass


def expected_sites(rec, header):
    """list of Site for one input record"""
    out = []
    sp = snvpos_of(rec)
    for j, k in enumerate(sp):
        s = Site()
        s.rec, s.j, s.k = rec, j, k
        s.chrom, s.pos = rec.chrom, rec.pos + k - 1
        order, idx = site_alleles(rec, k)
        s.ref, s.alts, s.idx = order[0], order[1:], idx
        s.mono = len(order) == 1
        s.gt, s.ploidy, s.counts_how, s.raw, s.norm, s.dp = {}, {}, {}, {}, {}, {}
        ac = [0] * len(s.alts)
        for name in header.samples:
            g, _ = rec.gt(name)
            g = g or []
            proj = [None if a is None else idx[a] for a in g]
            s.gt[name] = proj
            s.ploidy[name] = len(g)
            for a in proj:
                if a is not None and a > 0:
                    ac[a - 1] += 1
            how, cnt = sample_counts(rec, name, len(g))
            s.counts_how[name] = how
            if cnt is not None and len(cnt) == len(idx):
                raw = [0.0] * len(order)
                for h, c in enumerate(cnt):
                    raw[idx[h]] += c
                tot = sum(cnt)
                s.raw[name] = raw
                s.norm[name] = [x * len(g) / tot for x in raw] if tot > 0 else None
            elif cnt is not None:
                s.counts_how[name] = "wrong-length"
            dp = None
            if "SNVDP" in rec.format:
                txt = rec.samples[name].get("SNVDP")
                if txt not in (None, ".", ""):
                    vals = txt.split(",")
                    if len(vals) == len(sp) and vals[j] != ".":
                        dp = int(vals[j])
                    else:
                        dp = "odd"
            s.dp[name] = dp
        s.ac = ac
        out.append(s)
    return out


def close_vec(got, want):
    return len(got) == len(want) and all(g is not None and abs(g - w) <= TOL for g, w in zip(got, want))


def floats_or_none(txt):
    out = []
    for t in txt.split(","):
        if t == ".":
            out.append(None)
        else:
            try:
                out.append(float(t))
            except ValueError:
                return "bad"
    return out


def check_site(s, o, hin, col):
    """s: expected Site, o: observed output Record at (chrom,pos).  Returns list of (mechanism, message)."""
    found = []
    rec = s.rec
    where = "input record %s:%d SNVPOS offset %d -> site %s:%d" % (rec.chrom, rec.pos, s.k, s.chrom, s.pos)
    col.count("sites_decided")
    if s.mono:
        col.count("mono_sites_emitted_with_line")
    else:
        col.count("sites_polymorphic_checked")
        if len(s.alts) >= 2:
            col.count("sites_multiallelic")
        if [s.ref] + s.alts != sorted([s.ref] + s.alts):
            col.count("sites_alphabetical_numbering_differs")
    # REF / ALT
    if o.fields[4] == "" or any(a == "" for a in o.alts):
        found.append((K_EMPTY_ALT, "%s: output line has an empty ALT field (%r); a site without an alternative base must be omitted or carry ALT '.'. Output line: %s"
                      % (where, o.fields[4], o.line[:300])))
        return found
    if o.ref != s.ref:
        found.append(("site-ref-base-wrong", "%s: output REF %r, base of the record's REF at that offset is %r (REF %s)" % (where, o.ref, s.ref, rec.ref)))
        return found
    if o.alts != s.alts:
        if sorted(o.alts) == sorted(s.alts):
            found.append(("site-alleles-not-numbered-by-first-appearance", "%s: output ALT %s, bases of the listed haplotypes by first appearance are %s (haplotype bases %s)"
                          % (where, o.alts, s.alts, [rec.ref[s.k - 1]] + [a[s.k - 1] for a in rec.alts])))
        else:
            found.append(("site-alt-alleles-wrong", "%s: output ALT %s, distinct non-REF bases of the listed haplotypes are %s (haplotype bases %s)"
                          % (where, o.alts or ".", s.alts or ".", [rec.ref[s.k - 1]] + [a[s.k - 1] for a in rec.alts])))
        return found
    # PS
    col.count("ps_checked")
    if o.info.get("PS") != str(rec.pos):
        found.append(("ps-not-haplotype-record-pos", "%s: INFO PS=%s, haplotype record POS is %d" % (where, o.info.get("PS"), rec.pos)))
    # GT
    for name in hin.samples:
        txt = o.samples.get(name, {}).get("GT")
        want = "|".join("." if a is None else str(a) for a in s.gt[name])
        col.count("gt_checked")
        if any(a is None for a in s.gt[name]):
            col.count("gt_with_missing_allele")
        if txt != want:
            if txt is not None and txt.replace("/", "|") == want:
                found.append(("gt-not-phased", "%s: sample %s GT %r is not phased with '|' (want %r)" % (where, name, txt, want)))
            else:
                found.append(("gt-not-projection-of-haplotype-gt", "%s: sample %s haplotype GT %s projects allele-by-allele to %r (site allele of each haplotype: %s) but output GT is %r"
                              % (where, name, rec.samples[name].get("GT"), want, s.idx, txt)))
    # AC
    if s.alts:
        col.count("ac_checked")
        got = o.info.get("AC")
        gl = floats_or_none(got) if isinstance(got, str) else None
        if gl is None or gl == "bad" or gl != [float(x) for x in s.ac]:
            found.append(("ac-not-count-of-projected-alleles", "%s: INFO AC=%s, projected GT alleles over all samples count %s per ALT %s" % (where, got, s.ac, s.alts)))
    # DS / ACP
    hows = set(s.counts_how.values())
    if hows <= {"ACP", "AFP"}:
        sum_raw = [0.0] * (1 + len(s.alts))
        sum_norm = [0.0] * (1 + len(s.alts))
        norm_defined = True
        for name in hin.samples:
            raw, norm = s.raw[name], s.norm[name]
            sum_raw = [a + b for a, b in zip(sum_raw, raw)]
            if norm is None:
                norm_defined = False
            else:
                sum_norm = [a + b for a, b in zip(sum_norm, norm)]
            if not s.alts:
                continue
            txt = o.samples.get(name, {}).get("DS")
            got = floats_or_none(txt) if isinstance(txt, str) else None
            if norm is None:
                col.count("ds_zero_mass_ambiguous_skipped")
                continue
            col.count("ds_checked")
            if s.counts_how[name] == "AFP":
                col.count("ds_from_afp")
            tot = sum(raw)
            if tot < s.ploidy[name] - 0.01:
                col.count("ds_input_sums_below_ploidy")
            ok = got not in (None, "bad") and (close_vec(got, raw[1:]) or close_vec(got, norm[1:]))
            if not ok:
                found.append(("ds-not-marginal-of-haplotype-posterior-counts",
                              "%s: sample %s FORMAT DS=%s; haplotype-level counts (%s) %s marginalised over site alleles %s give raw %s / ploidy-normalised %s for the ALT alleles"
                              % (where, name, txt, s.counts_how[name], rec.samples[name].get(s.counts_how[name]), s.idx,
                                 ["%.4f" % x for x in raw[1:]], ["%.4f" % x for x in norm[1:]])))
        txt = o.info.get("ACP")
        got = floats_or_none(txt) if isinstance(txt, str) else None
        if not norm_defined:
            col.count("info_acp_zero_mass_ambiguous_skipped")
        else:
            col.count("info_acp_checked")
            ok = got not in (None, "bad") and (close_vec(got, sum_raw) or close_vec(got, sum_norm))
            if not ok:
                found.append(("info-acp-not-marginal-of-haplotype-posterior-counts", "%s: INFO ACP=%s; per-sample marginals summed over samples give raw %s / ploidy-normalised %s (R-length, site alleles %s)"
                              % (where, txt, ["%.4f" % x for x in sum_raw], ["%.4f" % x for x in sum_norm], [s.ref] + s.alts)))
    elif hows == {"absent"}:
        col.count("ds_absent_checked")
        bad = []
        for name in hin.samples:
            txt = o.samples.get(name, {}).get("DS")
            if txt is not None and set(txt.split(",")) != {"."}:
                bad.append("sample %s DS=%s" % (name, txt))
        txt = o.info.get("ACP")
        if txt is not None and (txt is True or set(txt.split(",")) != {"."}):
            bad.append("INFO ACP=%s" % txt)
        if bad:
            found.append(("ds-or-acp-reported-without-input-acp-or-afp", "%s: the input has neither FORMAT ACP nor AFP but the output carries %s" % (where, "; ".join(bad))))
    else:
        col.count("ds_odd_input_skipped")
    # DP
    dps = [s.dp[name] for name in hin.samples]
    if "odd" in dps or (any(d is None for d in dps) and any(d is not None for d in dps)):
        col.count("dp_odd_input_skipped")
    elif all(d is None for d in dps):
        col.count("dp_absent_checked")
        bad = []
        for name in hin.samples:
            txt = o.samples.get(name, {}).get("DP")
            if txt not in (None, "."):
                bad.append("sample %s DP=%s" % (name, txt))
        if o.info.get("DP") not in (None, "."):
            bad.append("INFO DP=%s" % o.info.get("DP"))
        if bad:
            found.append(("dp-reported-without-input-snvdp", "%s: the input has no FORMAT SNVDP but the output carries %s" % (where, "; ".join(bad))))
    else:
        col.count("dp_checked")
        for name in hin.samples:
            txt = o.samples.get(name, {}).get("DP")
            try:
                ok = txt is not None and float(txt) == s.dp[name]
            except ValueError:
                ok = False
            if not ok:
                found.append(("format-dp-not-snvdp-at-site", "%s: sample %s FORMAT DP=%s, its SNVDP=%s has %d at that site (index %d)"
                              % (where, name, txt, rec.samples[name].get("SNVDP"), s.dp[name], s.j)))
        txt = o.info.get("DP")
        try:
            ok = isinstance(txt, str) and float(txt) == sum(dps)
        except ValueError:
            ok = False
        if not ok:
            found.append(("info-dp-not-sum-of-sample-depths", "%s: INFO DP=%s, the samples' SNVDP at that site sum to %d" % (where, txt, sum(dps))))
    return found


IGNORED_WELLFORMED = {"gt-not-sorted", "gt-missing-allele-not-last"}  # projected phased GTs are in haplotype order


def judge(text_in, hin, recs, out_text, col, origin, multi):
    """Compare the output of one successful atomize run with the projection of the input records."""
    found = []
    try:
        hout, outs = vcfparse.parse(out_text)
        if not hasattr(hout, "columns"):
            raise ValueError("no #CHROM line")
    except Exception as ex:  # noqa: BLE001
        report(col, [("output-not-parseable", "output of atomize could not be parsed as VCF text: %s: %s" % (type(ex).__name__, ex))], text_in, origin)
        return
    if hout.samples != hin.samples:
        found.append(("sample-columns-differ-from-input", "output header samples %s, input header samples %s" % (hout.samples, hin.samples)))
    by_pos = {}
    for o in outs:
        by_pos.setdefault((o.chrom, o.pos), []).append(o)
    expected = {}
    clash = set()
    per_rec = []
    for rec in recs:
        sites = expected_sites(rec, hin)
        per_rec.append((rec, sites))
        for s in sites:
            key = (s.chrom, s.pos)
            if key in expected:
                clash.add(key)
            expected[key] = s
    for rec, sites in per_rec:
        col.count("records_judged")
        if not sites:
            col.count("records_without_sites")
        if "REFMASKED" in rec.info:
            col.count("refmasked_records")
        dps = set()
        for s in sites:
            key = (s.chrom, s.pos)
            if key in clash:
                col.count("sites_overlapping_skipped")
                continue
            lines = by_pos.get(key, [])
            if len(lines) > 1:
                found.append(("site-emitted-more-than-once", "input record %s:%d SNVPOS offset %d: %d output lines at %s:%d" % (rec.chrom, rec.pos, s.k, len(lines), s.chrom, s.pos)))
                continue
            if not lines:
                if s.mono:
                    col.count("sites_decided")
                    col.count("mono_sites_omitted")
                else:
                    col.count("sites_decided")
                    found.append(("site-line-missing", "input record %s:%d lists SNVPOS offset %d with bases %s among the listed haplotypes but there is no output line at %s:%d"
                                  % (rec.chrom, rec.pos, s.k, [s.ref] + s.alts, s.chrom, s.pos)))
                continue
            found += check_site(s, lines[0], hin, col)
            dps.add(tuple(s.dp[n] for n in hin.samples))
        if len(dps) >= 2 and len(sites) >= 2:
            col.count("dp_site_order_matters")
    for key, lines in by_pos.items():
        if key not in expected:
            found.append(("unexpected-output-line", "output line at %s:%d corresponds to no SNVPOS site of any input record: %s" % (key[0], key[1], lines[0].line[:300])))
    for o in outs:
        col.count("output_lines_wellformed_checked")
        if o.fields[4] == "":
            found.append((K_EMPTY_ALT, "output line has an empty ALT column: %r" % o.line[:300]))
            continue
        for mech, msg in vcfparse.check_record_wellformed(o, hout):
            if mech in IGNORED_WELLFORMED:
                continue
            found.append(("output-line-" + mech, "%s in output line %r" % (msg, o.line[:300])))
    if multi and not found:
        col.count("multi_record_runs_ok")
    report(col, found, text_in, origin)


def report(col, found, text_in, origin):
    seen = set()
    for mech, msg in found:
        if mech in seen:
            continue
        seen.add(mech)
        col.violation(mech, "[input from %s] %s" % (origin, msg), {"text": text_in, "origin": origin})


# ---------------------------------------------------------------------------------------------------------------------
# running the real program


class Runner:
    def __init__(self, wd, rng):
        self.wd = wd
        self.rng = rng
        self.n = 0

    def atomize(self, text, col):
        from vlib import cli, datasets

        body = split_text(text)[1]
        col.case(body, nontrivial=any(re.search(r"[\t;]SNVPOS=[0-9]", l) for l in body))
        self.n += 1
        path = os.path.join(self.wd, "in%06d.vcf" % self.n)
        compress = bool(self.rng.random() < 0.5)
        p = datasets.write_text_vcf(path, text, index=compress)
        col.count("atomize_runs")
        col.count("atomize_runs_bgzip_input" if compress else "atomize_runs_plain_input")
        try:
            out, exc = cli.run_inproc(["atomize", p])
        finally:
            for q in (path, path + ".gz", path + ".gz.tbi"):
                if os.path.exists(q):
                    os.remove(q)
        return out, exc


def split_text(text):
    lines = text.splitlines()
    head = [l for l in lines if l.startswith("#")]
    body = [l for l in lines if l and not l.startswith("#")]
    return head, body


def check_text(text, origin, col, runner):
    """One input file: run atomize; on an exception attribute it to single records and still judge the rest."""
    hin, recs = vcfparse.parse(text)
    head, body = split_text(text)
    shapes = [shape_of(r) for r in recs]
    for sh, r_ in zip(shapes, recs):
        col.count("records_seen")
        if len(r_.alts) >= 128:
            col.count("records_listing_more_than_128_haplotypes")
        col.count({"nosnv": "shape_no_snvpos_records", "noalt-snv": "shape_noalt_with_snvpos_records", "mono": "shape_monomorphic_site_records", "plain": "shape_plain_records"}[sh])
    if origin != "generated":
        col.count("pipeline_records", len(recs))
        for sh in shapes:
            col.count("pipeline_shape_" + sh.replace("-", "_") + "_records")
    out, exc = runner.atomize(text, col)
    if exc is None:
        col.count("files_accepted")
        judge(text, hin, recs, out, col, origin, multi=len(recs) >= 2)
        return
    col.count("files_raised")
    hostile = [i for i, sh in enumerate(shapes) if sh in ("noalt-snv", "mono")]
    rest = [i for i in range(len(recs)) if i not in hostile]

    def single(i, exc_known=None):
        t = "\n".join(head + [body[i]]) + "\n"
        if exc_known is None:
            o, e = runner.atomize(t, col)
        else:
            o, e = None, exc_known
        if e is None:
            h1, r1 = vcfparse.parse(t)
            judge(t, h1, r1, o, col, origin, multi=False)
            return
        sh = shapes[i]
        mech = K_NOALT if sh == "noalt-snv" else (K_MONO if sh == "mono" else K_RAISED)
        what = {"noalt-snv": "a record without ALT alleles that lists SNVPOS sites", "mono": "a record with an SNVPOS site at which all listed haplotypes carry the same base",
                "plain": "a record with only polymorphic SNVPOS sites", "nosnv": "a record without SNVPOS sites"}[sh]
        col.count("records_rejected_" + sh.replace("-", "_"))
        if origin != "generated":
            col.count("pipeline_records_rejected")
        col.violation(mech, "[input from %s] atomize raised %s: %s on %s (run alone in a file of its own). Record: %s"
                      % (origin, type(e).__name__, str(e)[:200], what, clip_record(body[i])), {"text": t, "origin": origin})

    if len(recs) == 1:
        single(0, exc_known=exc)
        return
    for i in hostile:
        single(i)
    if rest:
        if hostile:
            t = "\n".join(head + [body[i] for i in rest]) + "\n"
            o, e = runner.atomize(t, col)
        else:
            t, o, e = text, out, exc
        if e is None:
            col.count("remainder_files_accepted")
            h1, r1 = vcfparse.parse(t)
            judge(t, h1, r1, o, col, origin, multi=len(rest) >= 2)
        else:
            for i in rest:
                single(i)


def clip_record(line, n=900):
    f = line.split("\t")
    if len(line) <= n:
        return line.replace("\t", " ")
    # keep POS, shortened REF/ALT, INFO, FORMAT and samples
    f[3] = f[3] if len(f[3]) < 80 else f[3][:40] + "...(%d bp)" % len(f[3])
    f[4] = f[4] if len(f[4]) < 200 else f[4][:150] + "...(%d ALT)" % (f[4].count(",") + 1)
    return " ".join(f)[:n]


# ---------------------------------------------------------------------------------------------------------------------
# generated haplotype VCFs


FORMAT_DEFS = [
    {"ID": "GT", "Number": "1", "Type": "String"}, {"ID": "GQ", "Number": "1", "Type": "Integer"}, {"ID": "SQ", "Number": "1", "Type": "Integer"},
    {"ID": "DP", "Number": "1", "Type": "Integer"}, {"ID": "ACP", "Number": "R", "Type": "Float"}, {"ID": "AFP", "Number": "R", "Type": "Float"},
    {"ID": "SNVDP", "Number": ".", "Type": "Integer"},
]


def fmt3(x):
    s = ("%.3f" % x).rstrip("0").rstrip(".")
    return s if s not in ("", "-0") else "0"


def gen_record(rng, contigs, contig, start, length, shape, name):
    ref = contigs[contig][start : start + length]
    rec = {"contig": contig, "pos0": int(start), "id": name, "ref": ref, "alts": [], "filter": "PASS" if rng.random() < 0.8 else "."}
    cols = []
    if shape == "mono" and length < 2:
        shape = "plain"
    if shape != "nosnv":
        lo = 2 if shape == "mono" else 1
        n_sites = int(rng.integers(lo, max(lo, min(length, 5)) + 1))
        if shape == "wide":
            n_sites = min(length, 10)
        cols = sorted(int(c) for c in rng.choice(np.arange(length), size=n_sites, replace=False))
        pools = []
        for c in cols:
            others = [b for b in BASES if b != ref[c]]
            others = [others[int(i)] for i in rng.permutation(3)]
            n_other = int(rng.choice([1, 2, 3], p=[0.45, 0.3, 0.25]))
            pools.append([ref[c]] + others[:n_other])
        forced = set()
        if shape == "mono":
            n_forced = int(rng.integers(1, len(cols)))
            forced = set(int(i) for i in rng.permutation(len(cols))[:n_forced])
        if shape != "noalt-snv":
            n_alts = int(rng.integers(1, 7))
            p_ref = float(rng.choice([0.2, 0.5, 0.7]))
            tries = 0
            max_tries = 60
            if shape == "wide":
                # large haplotype panel: allele numbers beyond 127 / 255 in GT, AC, ACP (call / call-exact write such records)
                n_alts = int(rng.choice([129, 140, 200, 256, 300]))
                p_ref = 0.5
                max_tries = 20000
            while len(rec["alts"]) < n_alts and tries < max_tries:
                tries += 1
                s = list(ref)
                for i, c in enumerate(cols):
                    if i in forced or rng.random() < p_ref:
                        continue
                    s[c] = pools[i][int(rng.integers(1, len(pools[i])))]
                s = "".join(s)
                if s != ref and s not in rec["alts"]:
                    rec["alts"].append(s)
        seqs = [ref] + rec["alts"]
        poly = [c for c in cols if len({s[c] for s in seqs}) > 1]
        if shape in ("plain", "wide"):
            cols = poly
    info = {}
    if rng.random() < 0.5:
        info["END"] = str(start + length)
    refmasked = bool(rng.random() < 0.2)
    if refmasked and rng.random() < 0.5:
        info["REFMASKED"] = True
    info["NVAR"] = str(len(cols))
    info["SNVPOS"] = ",".join(str(c + 1) for c in cols) if cols else "."
    if refmasked and "REFMASKED" not in info:
        info["REFMASKED"] = True
    rec["info"] = info
    rec["cols"] = cols
    rec["refmasked"] = refmasked
    return rec


def gen_sample_fields(rng, rec, ploidy, fmt, mass_mode):
    n_all = 1 + len(rec["alts"])
    allowed = list(range(1, n_all)) if rec["refmasked"] else list(range(n_all))
    r = rng.random()
    n_missing = 0 if r < 0.7 else (ploidy if r < 0.78 else int(rng.integers(1, ploidy + 1)))
    if not allowed:
        n_missing = ploidy
    if len(allowed) > 2 and rng.random() < 0.5:
        allowed = [allowed[int(i)] for i in rng.permutation(len(allowed))[: int(rng.integers(1, len(allowed)))]]
    called = sorted(int(allowed[int(rng.integers(len(allowed)))]) for _ in range(ploidy - n_missing))
    d = {"GT": "/".join([str(a) for a in called] + ["."] * n_missing), "GQ": str(int(rng.integers(0, 61))), "SQ": str(int(rng.integers(0, 61))), "DP": str(int(rng.integers(0, 80)))}
    # posterior weights over listed haplotypes: around the called genotype plus noise
    w = rng.dirichlet(np.ones(n_all) * float(rng.choice([0.2, 1.0, 3.0])))
    g = np.zeros(n_all)
    for a in called:
        g[a] += 1.0
    if called:
        w = 0.6 * g / g.sum() + 0.4 * w
    if rec["refmasked"]:
        w[0] = 0.0
        w = w / w.sum() if w.sum() > 0 else w
    mass = {"full": 1.0, "partial": float(rng.uniform(0.3, 0.97)), "zero": 0.0}[mass_mode]
    if mass_mode == "partial" and rng.random() < 0.2:
        # very uneven: one listed haplotype lost most of its mass
        w[int(rng.integers(n_all))] *= 0.05
    w = w * mass
    if "ACP" in fmt:
        d["ACP"] = ",".join(fmt3(x * ploidy) for x in w)
    if "AFP" in fmt:
        d["AFP"] = ",".join(fmt3(x) for x in w)
    if "SNVDP" in fmt:
        d["SNVDP"] = ",".join(str(int(x)) for x in rng.integers(0, 60, size=len(rec["cols"]))) if rec["cols"] else "."
    return d


def gen_file(rng, kind):
    """kind: 'clean' (only plain / SNV-less records), 'hostile-single' (one hostile record alone), 'mixed'."""
    from vlib import datasets, hapvcf

    n_contigs = int(rng.integers(1, 3))
    contigs = datasets.make_contigs(rng, n_contigs, 400)
    names = list(contigs)
    n_samples = int(rng.integers(1, 5))
    samples = SAMPLE_NAMES[:n_samples]
    same = rng.random() < 0.3
    p0 = int(rng.integers(1, 7))
    ploidy = {s: (p0 if same else int(rng.integers(1, 7))) for s in samples}
    fmt = ["GT", "GQ", "SQ", "DP"]
    post = str(rng.choice(["none", "ACP", "AFP", "both"], p=[0.2, 0.3, 0.25, 0.25]))
    if post in ("ACP", "both"):
        fmt.append("ACP")
    if post in ("AFP", "both"):
        fmt.append("AFP")
    if rng.random() < 0.7:
        fmt.append("SNVDP")
    if rng.random() < 0.3:
        # GT stays first; the rest in arbitrary order
        rest = fmt[1:]
        fmt = ["GT"] + [rest[int(i)] for i in rng.permutation(len(rest))]
    if kind == "hostile-single":
        shapes = [str(rng.choice(["noalt-snv", "mono"]))]
    else:
        n = int(rng.integers(1, 7))
        if kind == "clean":
            shapes = [str(rng.choice(["plain", "nosnv"], p=[0.85, 0.15])) for _ in range(n)]
        else:
            shapes = [str(rng.choice(["plain", "nosnv", "noalt-snv", "mono"], p=[0.45, 0.1, 0.2, 0.25])) for _ in range(n)]
    if kind != "hostile-single" and rng.random() < 0.12:
        shapes[int(rng.integers(len(shapes)))] = "wide"
    cursor = {c: int(rng.integers(1, 30)) for c in names}
    records = []
    for i, sh in enumerate(shapes):
        c = names[int(rng.integers(len(names)))]
        ln = int(rng.integers(1, 31)) if rng.random() < 0.85 else int(rng.integers(1, 4))
        if sh == "wide":
            ln = int(rng.integers(12, 31))
        st = cursor[c]
        if st + ln + 2 > len(contigs[c]):
            continue
        cursor[c] = st + ln + int(rng.integers(0, 12))
        rec = gen_record(rng, contigs, c, st, ln, sh, "hap%03d" % i if rng.random() < 0.7 else ".")
        rec["format"] = fmt
        rec["samples"] = {}
        for s in samples:
            mm = str(rng.choice(["full", "partial", "zero"], p=[0.45, 0.52, 0.03]))
            rec["samples"][s] = gen_sample_fields(rng, rec, ploidy[s], fmt, mm)
        records.append(rec)
    info_defs = [d for d in hapvcf.STD_INFO if d["ID"] in ("END", "NVAR", "SNVPOS", "REFMASKED")]
    fdefs = [d for d in FORMAT_DEFS if d["ID"] in fmt or rng.random() < 0.5]
    text = hapvcf.render(contigs, records, info_defs=info_defs, samples=samples, format_defs=fdefs,
                         extra_meta=['##FILTER=<ID=PASS,Description="All filters passed">'])
    return text


# ---------------------------------------------------------------------------------------------------------------------
# pipeline-produced haplotype VCFs


REPORT_SETS = [["AFP", "ACP", "SNVDP"], [], ["AFP"], ["ACP", "SNVDP"], ["AFP", "ACP", "SNVDP", "AOP", "GP"], ["SNVDP"]]


def run_pipeline(rng, root, idx, col, runner):
    from vlib import cli, datasets

    if os.path.isdir(root):
        shutil.rmtree(root, ignore_errors=True)
    n_samples = int(rng.integers(1, 4))
    pl = [int(x) for x in rng.choice([2, 3, 4], size=2)]
    ds = datasets.make_dataset(rng, os.path.join(root, "ds"), n_samples=n_samples, n_loci=int(rng.integers(3, 6)), ploidy=pl,
                               depth=(0 if rng.random() < 0.3 else 4, int(rng.integers(8, 18))), snv_range=(0, 5), multi_allelic=0.4,
                               err=float(rng.choice([0.0, 0.01])), contig_len=600)
    pfile = ds.path("ploidy.txt")
    with open(pfile, "w") as fh:
        for s in ds.samples:
            fh.write("%s\t%d\n" % (s, ds.ploidy[s]))
    rep = REPORT_SETS[idx % len(REPORT_SETS)] if idx < 2 * len(REPORT_SETS) else REPORT_SETS[int(rng.integers(len(REPORT_SETS)))]
    args = ["assemble", "--bam"] + ds.bams + ["--targets", ds.bed, "--variants", ds.vcf, "--reference", ds.fasta, "--ploidy", pfile,
                                            "--mcmc-steps", "200", "--mcmc-burn", "100", "--mcmc-seed", str(int(rng.integers(1, 10**6)))]
    if rng.random() < 0.3:
        args += ["--haplotype-posterior-threshold", str(float(rng.choice([0.05, 0.5, 0.9])))]
    if rep:
        args += ["--report"] + rep
    out, exc = cli.run_inproc(args)
    cli.relax_warnings()
    if exc is not None or not out.strip():
        col.count("pipeline_assemble_failed")
        col.add_to_set("pipeline_errors", "assemble %s: %s" % (type(exc).__name__, str(exc)[:120]))
        shutil.rmtree(root, ignore_errors=True)
        return
    col.count("files_pipeline")
    col.count("pipeline_assemble_files")
    col.count("pipeline_assemble_with_" + ("_".join(rep) if rep else "default_fields"))
    check_text(out, "mchap assemble" + (" --report " + " ".join(rep) if rep else ""), col, runner)
    asm = datasets.write_text_vcf(ds.path("assembled.vcf"), out, index=True)
    # re-calling programs on the assembled haplotypes
    rep2 = REPORT_SETS[int(rng.integers(len(REPORT_SETS)))]
    for prog in (["call-exact"], ["call", "--mcmc-steps", "200", "--mcmc-burn", "100", "--mcmc-seed", str(int(rng.integers(1, 10**6)))]):
        if prog[0] == "call" and idx % 2 == 1 and idx >= 2:
            continue
        a2 = prog + ["--haplotypes", asm, "--bam"] + ds.bams + ["--ploidy", pfile]
        if rep2:
            a2 += ["--report"] + rep2
        o2, e2 = cli.run_inproc(a2)
        cli.relax_warnings()
        if e2 is not None or not o2.strip():
            col.count("pipeline_%s_failed" % prog[0].replace("-", "_"))
            col.add_to_set("pipeline_errors", "%s %s: %s" % (prog[0], type(e2).__name__, str(e2)[:120]))
            continue
        col.count("files_pipeline")
        col.count("pipeline_%s_files" % prog[0].replace("-", "_"))
        check_text(o2, "mchap %s" % prog[0] + (" --report " + " ".join(rep2) if rep2 else "") + " on assemble output", col, runner)
    shutil.rmtree(root, ignore_errors=True)


# ---------------------------------------------------------------------------------------------------------------------
# shard / replay


def run_shard(tier, seed, spec, col):
    from vlib import cli, env

    sh = spec["shard"]
    wd = env.workdir("c20-%s-%s-%d" % (tier, spec["name"], seed))
    runner = Runner(wd, gen.rng_for(seed, ID, 5000 + sh, 0))
    def pipeline(i):
        rng = gen.rng_for(seed, ID, 1000 + sh, i)
        run_pipeline(rng, os.path.join(wd, "pipe%03d" % i), sh * spec["pipelines"] + i, col, runner)

    try:
        # one pipeline run first, so that the witnesses kept per mechanism include program-produced records
        if spec["pipelines"]:
            pipeline(0)
        for i in range(spec["gen_files"]):
            rng = gen.rng_for(seed, ID, sh, i)
            kind = str(rng.choice(["clean", "hostile-single", "mixed"], p=[0.55, 0.2, 0.25]))
            text = gen_file(rng, kind)
            col.count("files_generated")
            col.count("files_generated_" + kind.replace("-", "_"))
            check_text(text, "generated", col, runner)
            cli.relax_warnings()
            if sh == 0 and i < 2:
                col.sample({"kind": kind, "input_records": [clip_record(l, 400) for l in split_text(text)[1]][:3]})
        for i in range(1, spec["pipelines"]):
            pipeline(i)
    finally:
        shutil.rmtree(wd, ignore_errors=True)


def replay(obj, col):
    from vlib import env

    case = obj["case"]
    wd = env.workdir("c20-replay")
    runner = Runner(wd, np.random.default_rng(0))
    try:
        check_text(case["text"], case.get("origin", "replay"), col, runner)
    finally:
        shutil.rmtree(wd, ignore_errors=True)
