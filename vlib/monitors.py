"""Monitors that look inside MCHap's jitted samplers without editing the repository.

M2 ("hybrid") extraction: call ``<dispatcher>.py_func`` - the undecorated Python body whose
globals are the real module's globals - after replacing a module-level name (for example
``mutation.random_choice``) by a recorder.  All other callees stay the real compiled kernels.
Replaced names are restored in ``finally``; compiled dispatchers are unaffected because they
bound their callees at compile time.
"""

import contextlib

import numpy as np


@contextlib.contextmanager
def patched(*triples):
    """patched((module, 'name', replacement), ...)"""
    saved = []
    try:
        for mod, name, repl in triples:
            saved.append((mod, name, getattr(mod, name)))
            setattr(mod, name, repl)
        yield
    finally:
        for mod, name, orig in reversed(saved):
            setattr(mod, name, orig)


class ForcedChoice:
    """Stands in for jitutils.random_choice: records the probability vector, returns a forced index."""

    def __init__(self, choice=None):
        self.choice = choice
        self.probs = None
        self.calls = 0

    def __call__(self, probabilities):
        self.probs = np.array(probabilities, dtype=float, copy=True)
        self.calls += 1
        if self.choice is None:
            return int(np.argmax(self.probs))
        return int(min(self.choice, len(self.probs) - 1))


def ensure_compiled():
    """Touch every kernel once so that no compilation happens while names are patched."""
    import mchap.assemble.mcmc  # noqa: F401
    from mchap.assemble import mutation, structural, tempering  # noqa: F401
    from mchap.assemble.likelihood import log_likelihood, new_log_likelihood_cache

    reads = np.full((1, 2, 2), 0.5)
    g = np.zeros((2, 2), dtype=np.int8)
    counts = np.ones(1, dtype=np.int64)
    n_alleles = np.array([2, 2], dtype=np.int8)
    for rc in (None, counts):
        for cache in (None, new_log_likelihood_cache(2, 2, 2)):
            llk = log_likelihood(reads, g, rc)
            mutation.base_step(g.copy(), reads, llk, 0, 0, n_alleles[0], np.log(4.0), 0.1, 1.0, rc, cache)
            mutation.compound_step(g.copy(), reads, llk, n_alleles, np.log(4.0), 0.1, 1.0, rc, cache)
            structural.interval_step(g.copy(), reads, llk, np.log(4.0), 0.1, np.array([0, 1]), 0, 1.0, rc, cache)
            structural.interval_step(g.copy(), reads, llk, np.log(4.0), 0.1, np.array([0, 1]), 1, 1.0, rc, cache)
            structural.compound_step(g.copy(), reads, llk, np.array([[0, 1], [1, 2]]), np.log(4.0), 0.1, 1, True, 1.0, rc, cache)
    tempering.chain_swap_step(g.copy(), -1.0, 1.0, g.copy(), -2.0, 0.5, np.log(4.0), 0.1)


def base_step_row(genotype, reads, llk, h, j, n_alleles_j, luh, F, T, counts, cache=None, force=None):
    """One exact transition row of assemble.mutation.base_step from `genotype`.

    Returns (probabilities, new_genotype, new_llk, cache)."""
    from mchap.assemble import mutation

    rec = ForcedChoice(force)
    g = np.array(genotype, dtype=np.int8, copy=True)
    with patched((mutation, "random_choice", rec)):
        new_llk, cache = mutation.base_step.py_func(
            g, reads, llk, h, j, n_alleles_j, luh, inbreeding=F, temp=T, read_counts=counts, cache=cache
        )
    if rec.calls != 1:
        raise AssertionError("base_step called random_choice %d times" % rec.calls)
    return rec.probs, g, float(new_llk), cache


def interval_step_row(genotype, reads, llk, luh, F, interval, step_type, T, counts, cache=None, force=None):
    """One exact transition row of assemble.structural.interval_step.

    Returns (probabilities or None when the kernel found no option, new_genotype, new_llk, cache)."""
    from mchap.assemble import structural

    rec = ForcedChoice(force)
    g = np.array(genotype, dtype=np.int8, copy=True)
    iv = None if interval is None else np.array(interval, dtype=np.int64)
    with patched((structural, "random_choice", rec)):
        new_llk, cache = structural.interval_step.py_func(
            g, reads, llk, luh, inbreeding=F, interval=iv, step_type=step_type, temp=T, read_counts=counts, cache=cache
        )
    if rec.calls > 1:
        raise AssertionError("interval_step called random_choice %d times" % rec.calls)
    return (rec.probs if rec.calls else None), g, float(new_llk), cache


_helpers = {}


def numba_uniform(seed):
    """The first uniform numba's RNG yields after seed_numba(seed) (used to predict jitted choices)."""
    import numba

    from mchap.jitutils import seed_numba

    if "u" not in _helpers:

        @numba.njit
        def _u():
            return np.random.random()

        _helpers["u"] = _u
    seed_numba(seed)
    return float(_helpers["u"]())


def predicted_choice(probs, u):
    return int(np.searchsorted(np.cumsum(probs), u, side="right"))


def run_forked(fn, timeout=600):
    """Run fn() in a forked child; returns ("ok", result) | ("signal", signo) | ("error", text).

    Used when a monitor has reason to believe that the compiled code under observation may crash natively
    (a crash must become a witness, not the loss of the whole shard)."""
    import os
    import pickle
    import signal

    r, w = os.pipe()
    pid = os.fork()
    if pid == 0:
        try:
            os.close(r)
            try:
                out = ("ok", fn())
            except BaseException as ex:  # noqa: BLE001
                out = ("error", repr(ex))
            with os.fdopen(w, "wb") as fh:
                pickle.dump(out, fh)
        finally:
            os._exit(0)
    os.close(w)
    data = b""
    with os.fdopen(r, "rb") as fh:
        data = fh.read()
    _, status = os.waitpid(pid, 0)
    if os.WIFSIGNALED(status):
        return ("signal", os.WTERMSIG(status))
    try:
        return pickle.loads(data)
    except Exception as ex:  # noqa: BLE001
        return ("error", "no result from child: %r" % ex)


class NeedChoice(Exception):
    def __init__(self, n):
        self.n = n


class ScriptedChoice:
    """random_choice stand-in for exhaustive path enumeration: follows a script of choice indices, records every
    probability vector, and raises NeedChoice(len(p)) when the script is exhausted."""

    def __init__(self, script):
        self.script = list(script)
        self.probs = []

    def __call__(self, p):
        p = np.array(p, dtype=float, copy=True)
        k = len(self.probs)
        if k >= len(self.script):
            raise NeedChoice(len(p))
        self.probs.append(p)
        return int(self.script[k])


def enumerate_paths(run, max_paths=200000):
    """Depth-first enumeration of every sequence of random choices of a (compound) move.

    `run(recorder)` must execute the real code with `recorder` standing in for random_choice and return the final
    state (hashable).  Yields (final_state, path_probability, recorder.probs) for every complete path."""
    stack = [[]]
    n_paths = 0
    while stack:
        script = stack.pop()
        rec = ScriptedChoice(script)
        try:
            final = run(rec)
        except NeedChoice as need:
            for c in range(need.n):
                stack.append(script + [c])
            continue
        pr = 1.0
        for vec, c in zip(rec.probs, script):
            pr *= float(vec[c])
        n_paths += 1
        if n_paths > max_paths:
            raise RuntimeError("too many paths")
        yield final, pr, rec.probs


class NpRandomProxy:
    """Stands in for a module-level `np`: np.random.shuffle / permutation return a forced order, everything else is numpy."""

    class _R:
        def __init__(self, order):
            self.order = np.asarray(order)

        def shuffle(self, arr):
            arr[:] = arr[self.order].copy() if arr.ndim > 1 else self.order

        def permutation(self, x):
            return self.order.copy()

    def __init__(self, order):
        self.random = NpRandomProxy._R(order)

    def __getattr__(self, name):
        return getattr(np, name)
