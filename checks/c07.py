"""C07 - output VCF records are well-formed and internally consistent.

Monitors
  text      (M4a) stdout of assemble / call / call-exact / call-pedigree run in-process on generated datasets x sampled
            `--report` sets (none, all 12 optional fields, every singleton in rotation, random subsets incl. un-prefixed
            names), parsed with the independent parser vlib/vcfparse.py;
  internal  the LocusAssemblyData (infodata / sampledata / columndata) of every record at the moment it is formatted,
            captured by wrapping `LocusAssemblyData.format_vcf_record` from the harness (restored afterwards);
  pysam     second opinion: pysam.VariantFile re-reads the full output and must give the same GTs.
Oracle (no mchap code): header declarations -> value counts per Number (1, A, R, G = comb(n_alleles+ploidy-1, ploidy));
GT shape/order; REF/ALT against the FASTA text and the input variants the generator wrote; AC/AN/UAN/NS/DP/RCOUNT/ACP/AFP/
AOP/AOPSUM/SNVDP recomputed from the sample columns; every emitted token against the captured internal value rounded to
three decimals.
"""

import copy
import math
import os
import re
import shutil

import numpy as np

from vlib import cli, datasets, env, gen, hapvcf, vcfparse

ID = "C07"
TECHNIQUE = "runtime monitoring: stdout of the four calling programs on generated hostile datasets x sampled --report sets, parsed by an independent VCF parser and compared with the internal record data captured at format time; pysam as second reader"
LEVEL = "exploration"
LEVEL_TEXT = (
    "Exploration: the four calling programs were run in-process on generated BAM/FASTA/VCF datasets (1-4 samples, ploidy 2/4/6 mixed "
    "through a ploidy file, loci with 0-5 SNVs, samples without reads, sample pools, trios / half-sibs with unobserved parents, "
    "REFMASKED / filtered / zero-prior input haplotypes, NOA and AF0 records, 1-7 input alleles for the call programs and up to ~20 "
    "assembled alleles with ploidy 6, i.e. G-vectors of >100000 entries) under sampled --report "
    "sets (none, the full set, every singleton in rotation, random subsets). Every emitted record was parsed independently and "
    "checked for declared keys, Number cardinalities (1/A/R/G), GT shape and order, REF/ALT against the reference text and the "
    "input variants, INFO totals recomputed from the sample columns, and every token against the captured internal value rounded "
    "to three decimals; pysam re-read every output. Datasets and report sets are sampled, not enumerated."
)
LEVEL_TEXT += ' Session 3: an extra flavour with 130-260 SNVs per locus (SNV numbers beyond int8 / uint8).'
LEVEL_NOTE = "Trusts vlib/vcfparse.py, the dataset generator's own record of what it wrote (reference text, SNVs, haplotype records) and Python's math.comb; pysam is used only as a second reader."
RULE = (
    "case = one program run (dataset, program, --report set); non-trivial = the run emitted >=1 record with >=1 ALT or >=1 optional "
    "field; distinct by hash of (dataset seed triple, program, report set)"
)
ASSUMPTIONS = [
    "three-decimal output precision (the programs' fixed default)",
    "a lone '.' for a vector-valued FORMAT field is the documented missing value only on NOA / AF0 records; INFO AFPRIOR of assemble (which has no prior) is '.'",
    "pedigrees use default gamete ploidy (half the sample's ploidy) with parents at least as polyploid as their children",
]

PROGRAMS = ["assemble", "call", "call-exact", "call-pedigree"]
INFO_OPT = ["AFPRIOR", "ACP", "AFP", "AOP", "AOPSUM", "SNVDP"]
FORMAT_OPT = ["ACP", "AFP", "AOP", "GP", "GL", "SNVDP"]
SINGLETONS = ["INFO/" + x for x in INFO_OPT] + ["FORMAT/" + x for x in FORMAT_OPT]
BARE = ["AFPRIOR", "ACP", "AFP", "AOP", "AOPSUM", "GP", "GL", "SNVDP"]
N_FLAVORS = 8
WIDE = 8   # extra flavour outside the rotation (g < 0): loci with 130-260 SNVs (SNV numbers beyond int8 / uint8)
TRAILING = "posterior-field-cardinality-wrong-when-trailing-allele-masked"
AFP_FAMILY = {"ACP", "AFP", "AOP", "AOPSUM"}
EXTRA_PLOIDY = "info-afp-denominator-counts-ploidy-file-entries-not-in-output"
PLOIDY_FILE_EXTRA_ENTRIES = True  # include the class 'ploidy file lists a sample that is not part of the run'
EXTRA_PLOIDY_VALUE = 4
N_SHARDS = 16


def plan(tier, seed):
    per = 4 if tier == "quick" else 40
    return [{"name": "s%02d" % i, "shard": i, "datasets": per, "timeout": 5400} for i in range(N_SHARDS)]


def required(tier):
    return {
        "runs_checked": 900, "records_checked": 3500, "sample_columns_checked": 7000, "tokens_compared_with_internal": 500000,
        "records_assemble": 800, "records_call": 700, "records_call_exact": 800, "records_call_pedigree": 700,
        "runs_report_none": 150, "runs_report_full": 130, "runs_report_singleton": 400, "runs_report_subset": 250,
        "values_number_A": 7000, "values_number_R": 25000, "values_number_G": 100000, "g_vectors_len_ge_100": 400,
        "records_no_snv": 600, "sample_columns_no_reads": 700, "records_refmasked_assemble": 150, "records_refmasked_call": 400,
        "records_noa": 150, "records_af0": 60, "lone_missing_vectors_on_noa_af0": 40, "records_mixed_ploidy": 900, "records_pooled": 300,
        "records_pedigree_trio": 80, "records_pedigree_halfsib": 40, "records_pedigree_unobserved_parent": 80,
        "datasets_with_loci_over_127_snvs": 3, "gt_checked": 7000, "gt_partially_missing": 300, "gt_all_missing": 500, "alts_checked_against_input": 6000,
        "info_totals_recomputed": 3500, "optional_info_sums_recomputed": 6000, "optional_info_values_seen": 4000,
        "optional_format_values_seen": 9000, "sample_acp_afp_compared": 2000, "pysam_gts_compared": 7000, "records_zero_prior_allele": 250,
    }


def coverage_extra(tier, col):
    return {"report_tokens_used": sorted(col.sets.get("report_tokens", ())), "flavors": sorted(col.sets.get("flavors", ())),
            "ploidies": sorted(col.sets.get("ploidies", ())), "allele_counts": sorted(col.sets.get("n_alleles", ()), key=int)}


# ---------------------------------------------------------------------------
# dataset / input generation


class Case:
    pass


def _pedigree(rng, names, ploidy_of, g):
    """rows (sample, p, q) with parents at least as polyploid as the child; returns rows, kinds, extra samples.

    Hexaploid children (triploid gametes) are included: an abort of call-pedigree on them (NaN in the pedigree Gibbs
    kernel) was found by this workload and repaired in f2fe59f (property C18)."""
    order = sorted(names, key=lambda s: -ploidy_of[s])
    rows = {s: [".", "."] for s in names}
    n = len(order)

    def child(i, p, q):
        rows[order[i]] = [p, q]

    if n == 2:
        child(1, order[0], ".") if rng.random() < 0.5 else child(1, ".", order[0])
    elif n == 3:
        if g % 2 == 0:
            child(2, order[0], order[1])
        else:
            child(1, order[0], ".")
            child(2, ".", order[0]) if rng.random() < 0.5 else child(2, order[0], ".")
    elif n >= 4:
        if g % 2 == 0:
            child(2, order[0], order[1])
            child(3, order[1], order[2]) if rng.random() < 0.5 else child(3, order[0], order[1])
        else:
            child(2, order[0], order[1])
            child(3, order[0], ".")
    extra = []
    kinds = set()
    if rng.random() < 0.35:
        # an unobserved parent (no BAM): appended by the program as an extra sample
        cands = [s for s in names if "." in rows[s]]
        if cands:
            s = cands[int(rng.integers(len(cands)))]
            rows[s][rows[s].index(".")] = "U1"
            extra.append("U1")
            kinds.add("unobserved")
    known = [[p for p in rows[s] if p != "."] for s in names]
    if any(len(k) == 2 for k in known):
        kinds.add("trio")
    elif any(known):
        kinds.add("duo")
    parents_used = [p for k in known for p in set(k)]
    if any(parents_used.count(p) >= 2 for p in set(parents_used)):
        kinds.add("halfsib")
    return rows, kinds, extra


def build_case(seed, shard, dI, g):
    rng = gen.rng_for(seed, ID, shard, dI)
    flavor = WIDE if g < 0 else g % N_FLAVORS
    c = Case()
    c.key = [int(seed), int(shard), int(dI), int(g)]
    c.flavor = flavor
    c.root = env.workdir("c07-s%02d-%d" % (shard, dI))
    shutil.rmtree(c.root, ignore_errors=True)
    n_samples = int(rng.integers(1, 5))
    if flavor == 4:
        n_samples = max(2, n_samples)
    if flavor == 5:
        n_samples = int(rng.integers(1, 3))
    ploidies = [6] if flavor == 5 else ([2, 4, 6] if rng.random() < 0.8 else [int(rng.choice([2, 4, 6]))])
    depth = (0, 14) if (rng.random() < 0.5 or flavor == 7) else (5, 16)
    snv_range = (3, 5) if flavor == 5 else (0, 5)
    if flavor == WIDE:
        n_samples = int(rng.integers(1, 3))
        ds = datasets.make_dataset(rng, c.root, n_samples=n_samples, n_loci=2, ploidy=[2, 4], depth=(8, 14), n_contigs=1, contig_len=1300,
                                   snv_range=(130, 260), hostile=0.05, locus_len=(280, 380), read_len=(60, 110))
    else:
        ds = datasets.make_dataset(rng, c.root, n_samples=n_samples, n_loci=int(rng.integers(3, 6)), ploidy=ploidies, depth=depth, n_contigs=int(rng.integers(1, 3)),
                                   contig_len=900, snv_range=snv_range, hostile=0.1, rgs_per_sample=(1, 2), samples_per_bam=int(rng.choice([1, 1, 2])))
    c.ds = ds
    if flavor == 7 or rng.random() < 0.1:
        # one sample without a single read (its BAM region is empty everywhere)
        victim = ds.samples[int(rng.integers(len(ds.samples)))]
        bam = ds.sample_bam[victim]
        ids = set(ds.sample_rgs[victim])
        keep = [a for a in ds.bam_alignments[bam] if a["rg"] not in ids]
        datasets.write_bam(bam, ds.contigs, ds.bam_rgs[bam], keep)
        ds.bam_alignments[bam] = keep
    # ---- output samples (pools) and ploidy
    c.pool_arg = None
    c.out_samples = list(ds.samples)
    ploidy_of = dict(ds.ploidy)
    if flavor == 4:
        if rng.random() < 0.3:
            c.pool_arg = "POOL"
            c.out_samples = ["POOL"]
        else:
            n_pools = int(rng.integers(1, len(ds.samples) + 1))
            lines = [(s, "P%d" % (1 + i % n_pools)) for i, s in enumerate(ds.samples)]
            if n_pools > 1 and rng.random() < 0.5:
                lines.append((ds.samples[0], "P%d" % n_pools))  # one sample in two pools
            c.pool_arg = os.path.join(c.root, "pools.txt")
            with open(c.pool_arg, "w") as fh:
                for s, p in lines:
                    fh.write("%s\t%s\n" % (s, p))
            c.out_samples = list(dict.fromkeys(p for _, p in lines))
        ploidy_of = {p: int(rng.choice([2, 4, 6])) for p in c.out_samples}
    rows, kinds, extra = _pedigree(rng, c.out_samples, ploidy_of, g)
    for u in extra:
        ploidy_of[u] = max(ploidy_of.values())
        rows[u] = [".", "."]
    c.ploidy_of = ploidy_of
    c.ped_kinds = kinds
    c.ped_samples = c.out_samples + extra
    # ploidy files list exactly the samples of the run, except in the dedicated class with one superfluous entry
    c.extra_ploidy_entry = bool(PLOIDY_FILE_EXTRA_ENTRIES and (g % 16 == 9 or rng.random() < 0.05))
    c.ploidy_file = os.path.join(c.root, "ploidy.txt")
    c.ploidy_file_ped = os.path.join(c.root, "ploidy_ped.txt")
    for path, names in ((c.ploidy_file, c.out_samples), (c.ploidy_file_ped, c.ped_samples)):
        with open(path, "w") as fh:
            for s in names:
                fh.write("%s\t%d\n" % (s, ploidy_of[s]))
            if c.extra_ploidy_entry:
                fh.write("NOT_IN_THIS_RUN\t%d\n" % EXTRA_PLOIDY_VALUE)
    c.parents_file = os.path.join(c.root, "parents.txt")
    with open(c.parents_file, "w") as fh:
        for s in c.ped_samples:
            fh.write("%s\t%s\t%s\n" % (s, rows[s][0], rows[s][1]))
    # ---- haplotype VCF for call / call-exact / call-pedigree
    c.call_opts = []
    use_prior = flavor in (2, 6) or rng.random() < 0.25
    use_filter = flavor == 3
    recs = []
    for li, L in enumerate(ds.loci):
        ref = ds.contigs[L["contig"]][L["start"]:L["stop"]]
        alts = []
        for s in ds.samples:
            for hap in ds.genotypes[(s, L["name"])]:
                sq = datasets.hap_sequence(ds.contigs, L, hap, L["start"], L["stop"])
                if sq != ref and sq not in alts:
                    alts.append(sq)
        if L["snvs"]:
            for _ in range(8):  # a few haplotypes nobody carries
                hap = tuple(([v["ref"]] + v["alts"])[int(rng.integers(0, 1 + len(v["alts"])))] for v in L["snvs"])
                sq = datasets.hap_sequence(ds.contigs, L, hap, L["start"], L["stop"])
                if sq != ref and sq not in alts:
                    alts.append(sq)
        alts = [alts[i] for i in rng.permutation(len(alts))]
        n_alts = int(rng.integers(4, 7)) if flavor == 5 else int(rng.integers(0, 7))
        if rng.random() < 0.08:
            n_alts = 0
        alts = alts[:n_alts]
        n = 1 + len(alts)
        fr = np.maximum(rng.dirichlet(np.ones(n)), 0.004)
        if use_filter:
            fr = np.where(rng.random(n) < 0.35, fr * 0.1, fr)
        fr = [round(float(x), 3) for x in fr]
        zero = "none"
        if flavor == 2:
            u = rng.random()
            if u < 0.3:
                fr[0], zero = 0.0, "ref"
            elif u < 0.55 and n >= 3:
                fr[int(rng.integers(1, n - 1))], zero = 0.0, "middle"
            elif u < 0.7 or li == 0:
                fr, zero = [0.0] * n, "all"
        elif flavor == 6 and n >= 2 and (li <= 1 or rng.random() < 0.5):
            fr[-1], zero = 0.0, "last"
            if n >= 3 and rng.random() < 0.3:
                fr[-2] = 0.0
        info = {"AFP": ",".join(hapvcf.fmt_float(x) for x in fr)}
        p_mask = 0.6 if flavor == 1 else 0.12
        if rng.random() < p_mask:
            info["REFMASKED"] = True
        recs.append({"contig": L["contig"], "pos0": L["start"], "id": L["name"], "ref": ref, "alts": alts, "info": info, "afp": fr, "zero": zero})
    c.hap_records = recs
    c.hap_by_pos = {(r["contig"], r["pos0"] + 1): r for r in recs}
    c.hapvcf = hapvcf.write(os.path.join(c.root, "haps.vcf"), hapvcf.render(ds.contigs, recs, info_defs=hapvcf.STD_INFO))
    if use_prior:
        c.call_opts += ["--prior-frequencies", "AFP"]
    if use_filter:
        c.call_opts += ["--filter-input-haplotypes", "AFP>=%s" % str(rng.choice(["0.05", "0.1", "0.02"]))]
    c.use_prior = use_prior
    # ---- per program options
    c.seed_arg = str(int(rng.integers(1, 10000)))
    c.chains = str(int(rng.choice([1, 1, 2])))
    c.threshold = str(rng.choice(["0.6", "0.9", "0.99"])) if flavor == 1 else str(rng.choice(["0.2", "0.2", "0.5", "0.9", "0.99"]))
    c.inbreeding = str(rng.choice(["0.1", "0.25"])) if rng.random() < 0.25 else None
    # ---- report sets: none, full, 3 rotating singletons, 2 random subsets
    c.reports = {}
    pool = SINGLETONS + BARE
    for pi, prog in enumerate(PROGRAMS):
        sets = [("none", []), ("full", list(SINGLETONS))]
        for k in range(3):
            sets.append(("singleton", [SINGLETONS[(3 * g + k + 3 * pi) % len(SINGLETONS)]]))
        for k in range(2):
            if flavor == 5 and k == 0:
                sub = ["GP", "GL"]
            else:
                sub = [pool[i] for i in rng.choice(len(pool), size=int(rng.integers(2, 7)), replace=False)]
            sets.append(("subset", sub))
        if flavor == WIDE:
            sets = [sets[0], sets[1], sets[-1]]   # wide loci are costly: no report, full report, one random subset
        c.reports[prog] = sets
    # input SNVs by position (assemble)
    c.snv_alleles = {(v["contig"], v["pos0"]): set([v["ref"]] + v["alts"]) for v in ds.snvs}
    return c


def argv_for(c, prog, report):
    ds = c.ds
    a = [prog]
    if prog == "assemble":
        a += ["--targets", ds.bed, "--variants", ds.vcf, "--reference", ds.fasta, "--haplotype-posterior-threshold", c.threshold]
    else:
        a += ["--haplotypes", c.hapvcf, "--reference", ds.fasta] + c.call_opts
    a += ["--bam"] + ds.bams + ["--ploidy", c.ploidy_file_ped if prog == "call-pedigree" else c.ploidy_file]
    if c.pool_arg:
        a += ["--sample-pool", c.pool_arg]
    if prog == "call-pedigree":
        a += ["--sample-parents", c.parents_file]
    elif c.inbreeding:
        a += ["--inbreeding", c.inbreeding]
    if prog != "call-exact":
        a += ["--mcmc-steps", "150", "--mcmc-burn", "75", "--mcmc-seed", c.seed_arg, "--mcmc-chains", c.chains]
    if report:
        a += ["--report"] + list(report)
    return a


# ---------------------------------------------------------------------------
# capture of the internal record data


class Capture:
    def __init__(self):
        self.items = []
        self.orig = None

    def __enter__(self):
        from mchap.application import baseclass

        self.cls = baseclass.LocusAssemblyData
        self.orig = self.cls.format_vcf_record
        cap = self

        def wrapped(data):
            line = cap.orig(data)
            cap.items.append((snapshot(data), line))
            return line

        self.cls.format_vcf_record = wrapped
        return self

    def __exit__(self, *exc):
        self.cls.format_vcf_record = self.orig
        return False


def snapshot(data):
    return {
        "info_ids": [f.id for f in data.infofields],
        "format_ids": [f.id for f in data.formatfields],
        "info": {f.id: copy.deepcopy(v) for f, v in data.infodata.items()},
        "sample": {f.id: {s: copy.deepcopy(v) for s, v in d.items()} for f, d in data.sampledata.items()},
        "column": copy.deepcopy(data.columndata),
        "samples": list(data.samples),
        "ploidy": dict(data.sample_ploidy),
    }


def flat(v):
    """Internal value -> flat list of python scalars (None for absent)."""
    if v is None:
        return [None]
    if isinstance(v, np.ndarray):
        return list(v.ravel().tolist())
    if isinstance(v, np.generic):
        return [v.item()]
    if isinstance(v, dict):
        return [] if not v else [repr(v)]
    if isinstance(v, (list, tuple)):
        out = []
        for u in v:
            out += flat(u)
        return out
    return [v]


_DEC = re.compile(r"^-?\d+(\.(\d+))?$")


def token_problem(tok, x):
    """None when the text token is the 3-decimal rendering of internal scalar x, else (mechanism, message)."""
    if x is None or (isinstance(x, float) and x != x):
        return None if tok == "." else ("missing-internal-value-not-rendered-as-dot", "internal value %r written as %r" % (x, tok))
    if isinstance(x, str):
        return None if tok == (x or ".") else ("text-token-differs-from-internal-value", "internal %r written as %r" % (x, tok))
    if isinstance(x, bool):
        x = int(x)
    if isinstance(x, int):
        return None if tok == str(x) else ("numeric-token-differs-from-rounded-internal-value", "internal integer %r written as %r" % (x, tok))
    if isinstance(x, float):
        if math.isinf(x):
            return ("non-finite-text-in-numeric-field", "internal value %r written as %r" % (x, tok))
        m = _DEC.match(tok)
        if not m:
            return ("numeric-token-badly-formatted", "internal %r written as %r (not a plain decimal)" % (x, tok))
        frac = m.group(2)
        if frac is not None and (len(frac) > 3 or frac.endswith("0")):
            return ("numeric-token-badly-formatted", "internal %r written as %r (more than three decimals or trailing zero)" % (x, tok))
        if abs(float(tok) - x) > 0.0005 + 1e-9 * max(1.0, abs(x)):
            return ("numeric-token-differs-from-rounded-internal-value", "internal %r written as %r (|diff| %.3g > 0.0005)" % (x, tok, abs(float(tok) - x)))
        return None
    return ("text-token-differs-from-internal-value", "internal value of unexpected type %r written as %r" % (type(x), tok))


def compare_with_internal(snap, rec, header, viol):
    """(5) every emitted token vs the captured internal value."""
    n = 0
    col = snap["column"]
    want_cols = [("CHROM", rec.chrom), ("POS", str(rec.pos)), ("ID", rec.id), ("REF", rec.ref), ("ALT", rec.fields[4]), ("QUAL", rec.qual), ("FILTER", rec.filter)]
    for name, tok in want_cols:
        xs = flat(col.get(name))
        exp = ",".join("." if (x is None or (isinstance(x, float) and x != x) or x == "") else str(x) for x in xs) if xs else "."
        n += 1
        if exp != tok:
            viol("column-text-differs-from-internal-value", "column %s internal %r written as %r" % (name, col.get(name), tok))
    if rec.info_order != [k for k in snap["info_ids"] if not (isinstance(snap["info"].get(k), bool) and not snap["info"].get(k))]:
        viol("info-keys-differ-from-internal-fields", "INFO keys %s, internal fields %s" % (rec.info_order, snap["info_ids"]))
    for k in snap["info_ids"]:
        v = snap["info"].get(k)
        if isinstance(v, bool):
            if (k in rec.info) != v:
                viol("flag-differs-from-internal-value", "flag %s internal %r, present in text: %r" % (k, v, k in rec.info))
            continue
        if k not in rec.info or rec.info[k] is True:
            continue
        n += _cmp_vector("INFO %s" % k, rec.info[k], flat(v), viol)
    if rec.format != snap["format_ids"]:
        viol("format-keys-differ-from-internal-fields", "FORMAT keys %s, internal fields %s" % (rec.format, snap["format_ids"]))
    for s in header.samples:
        for k in rec.format:
            tok = rec.samples[s].get(k)
            if tok is None:
                continue
            v = snap["sample"].get(k, {}).get(s)
            if k == "GT":
                exp = "/".join(str(int(a)) if a >= 0 else "." for a in flat(v))
                n += 1
                if tok != exp:
                    viol("gt-text-differs-from-internal-alleles", "sample %s GT internal %r written as %r" % (s, flat(v), tok))
                continue
            n += _cmp_vector("sample %s FORMAT %s" % (s, k), tok, flat(v), viol)
    return n


def _cmp_vector(where, text, xs, viol):
    toks = text.split(",")
    if not xs:
        if text != ".":
            viol("emitted-value-count-differs-from-internal", "%s: internal value is empty, text %r" % (where, text))
        return 1
    if len(toks) != len(xs):
        viol("emitted-value-count-differs-from-internal", "%s: %d tokens for %d internal values (%r vs %r)" % (where, len(toks), len(xs), text[:80], xs[:12]))
        return 1
    for t, x in zip(toks, xs):
        p = token_problem(t, x)
        if p:
            viol(p[0], "%s: %s (field text %r)" % (where, p[1], text[:120]))
            break
    return len(toks)


# ---------------------------------------------------------------------------
# oracle on the text


def nums(tokens):
    return [None if t == "." else float(t) for t in tokens]


def close(a, b, tol):
    return abs(a - b) <= tol + 1e-9


def check_run(c, prog, kind, report, out, captured, col, replay):
    """All oracle parts for one program output.  Returns number of violations raised."""
    nviol = [0]
    ds = c.ds
    header, recs = vcfparse.parse(out)
    exp_samples = c.ped_samples if prog == "call-pedigree" else c.out_samples
    ptag = prog.replace("-", "_")

    def make_viol(rec):
        def viol(mech, msg):
            nviol[0] += 1
            line = rec.line if rec is not None else ""
            col.violation(mech, "%s --report %s: %s\n  output line: %s" % (prog, " ".join(report) or "(none)", msg, line[:700]), replay)
        return viol

    v0 = make_viol(None)
    if header.samples != exp_samples:
        v0("header-samples-differ-from-command-line", "header samples %s, expected %s" % (header.samples, exp_samples))
        return nviol[0], False
    n_loci = len(ds.loci)
    if len(recs) != n_loci:
        v0("record-count-differs-from-loci", "%d records for %d loci" % (len(recs), n_loci))
    cap_by_line = {}
    for snap, line in captured:
        cap_by_line.setdefault(line, snap)
    # which INFO / FORMAT optional ids were requested
    want_info = {t.split("/")[-1] for t in report if (t.startswith("INFO/") or "/" not in t) and t.split("/")[-1] in INFO_OPT}
    want_fmt = {t.split("/")[-1] for t in report if (t.startswith("FORMAT/") or "/" not in t) and t.split("/")[-1] in FORMAT_OPT}
    for k in want_info:
        if k not in header.info:
            v0("requested-field-not-declared-in-header", "INFO %s requested but not declared" % k)
    for k in want_fmt:
        if k not in header.format:
            v0("requested-field-not-declared-in-header", "FORMAT %s requested but not declared" % k)
    nontrivial = False
    def one_record(rec):
        nonlocal nontrivial
        viol = make_viol(rec)
        col.count("records_checked")
        col.count("records_" + ptag)
        col.add_to_set("n_alleles", rec.n_alleles)
        # ---- (1) structure, declared keys, cardinalities
        errs = vcfparse.check_record_wellformed(rec, header, allow_missing_vector=True)
        fatal = False
        for mech, msg in errs:
            if mech in ("record-column-count-wrong", "sample-field-count-wrong"):
                fatal = True
            if mech in ("info-cardinality-wrong", "format-cardinality-wrong") and _trailing_context(c, prog, rec) and any((" %s " % k) in msg for k in AFP_FAMILY):
                mech = TRAILING
            viol(mech, msg)
        if fatal:
            return
        filt = set(rec.filter.replace(",", ";").split(";"))
        invalid = bool(filt & {"NOA", "AF0"})
        unknown = filt - {"PASS", "NOA", "AF0"}
        if unknown or rec.filter == "." or not all(f in header.filters for f in filt):
            viol("filter-not-declared", "FILTER %r not declared in the header" % rec.filter)
        if "NOA" in filt:
            col.count("records_noa")
        if "AF0" in filt:
            col.count("records_af0")
        ploidies = []
        for s in header.samples:
            gt, phased = rec.gt(s)
            ploidies.append(len(gt) if gt else 0)
        # lone '.' policy and value counts per Number class
        for k, v in rec.info.items():
            d = header.info.get(k)
            if d is None or v is True:
                continue
            num = d["Number"]
            if num in ("A", "R"):
                col.count("values_number_" + num, len(v.split(",")))
                want = vcfparse.expected_count(num, rec.n_alleles, 0)
                if v == "." and want > 1 and not (prog == "assemble" and k == "AFPRIOR"):
                    viol("lone-missing-value-for-vector-field", "INFO %s (Number=%s) is a lone '.' for %d alleles on a record with FILTER %s" % (k, num, rec.n_alleles, rec.filter))
                if v == "." and prog == "assemble" and k == "AFPRIOR":
                    col.count("assemble_afprior_missing")
            elif num == "1":
                col.count("values_number_1")
        for s, pl in zip(header.samples, ploidies):
            col.count("sample_columns_checked")
            for k in rec.format:
                d = header.format.get(k)
                if d is None or k == "GT":
                    continue
                v = rec.samples[s][k]
                num = d["Number"]
                if num in ("A", "R", "G"):
                    want = vcfparse.expected_count(num, rec.n_alleles, pl)
                    ntok = len(v.split(","))
                    col.count("values_number_" + num, ntok)
                    if num == "G" and v != ".":
                        col.maxv("max_G_length", ntok)
                        if ntok >= 100:
                            col.count("g_vectors_len_ge_100")
                    if v == "." and want > 1:
                        if invalid:
                            col.count("lone_missing_vectors_on_noa_af0")
                        else:
                            viol("lone-missing-value-for-vector-field", "sample %s FORMAT %s (Number=%s) is a lone '.' (%d values expected) on a record with FILTER %s" % (s, k, num, want, rec.filter))
                elif num == "1":
                    col.count("values_number_1")
        # ---- (2) GT
        for s, pl in zip(header.samples, ploidies):
            gt, phased = rec.gt(s)
            col.count("gt_checked")
            col.add_to_set("ploidies", c.ploidy_of[s])
            if gt is None or pl != c.ploidy_of[s]:
                viol("gt-ploidy-differs-from-command-line", "sample %s GT %r has %d entries, ploidy given on the command line is %d" % (s, rec.samples[s].get("GT"), pl, c.ploidy_of[s]))
            elif any(a is None for a in gt) and any(a is not None for a in gt):
                col.count("gt_partially_missing")
            elif all(a is None for a in gt):
                col.count("gt_all_missing")
        if len(set(ploidies)) > 1:
            col.count("records_mixed_ploidy")
        if c.pool_arg:
            col.count("records_pooled")
        if prog == "call-pedigree":
            for kd in c.ped_kinds:
                col.count({"trio": "records_pedigree_trio", "halfsib": "records_pedigree_halfsib", "duo": "records_pedigree_duo", "unobserved": "records_pedigree_unobserved_parent"}[kd])
        # ---- (3) REF / ALT / END / SNVPOS
        contig = ds.contigs.get(rec.chrom)
        end = rec.info_list("END", int)
        snvpos = [x for x in (rec.info_list("SNVPOS", int) or []) if x is not None]
        if contig is None or end is None or end[0] is None:
            viol("ref-differs-from-reference-interval", "unknown contig or END missing")
        else:
            if rec.ref != contig[rec.pos - 1:end[0]]:
                viol("ref-differs-from-reference-interval", "REF (%d bases) is not the reference text of [POS=%d, END=%d] = %r" % (len(rec.ref), rec.pos, end[0], contig[rec.pos - 1:end[0]][:80]))
            bad_pos = [p for p in snvpos if not (1 <= p <= len(rec.ref))]
            if bad_pos:
                viol("snvpos-outside-haplotype", "SNVPOS %s not within 1..%d" % (bad_pos, len(rec.ref)))
            if "REFMASKED" in rec.info:
                col.count("records_refmasked_assemble" if prog == "assemble" else "records_refmasked_call")
            if not snvpos:
                col.count("records_no_snv")
            inp = None if prog == "assemble" else c.hap_by_pos.get((rec.chrom, rec.pos))
            if prog != "assemble" and inp is None:
                viol("record-without-input-haplotype-record", "no input haplotype record at %s:%d" % (rec.chrom, rec.pos))
            for alt in rec.alts:
                col.count("alts_checked_against_input")
                nontrivial = True
                if len(alt) != len(rec.ref):
                    viol("alt-length-differs-from-ref", "ALT %r has %d bases, REF %d" % (alt[:60], len(alt), len(rec.ref)))
                    continue
                for off in range(len(alt)):
                    if alt[off] == rec.ref[off]:
                        continue
                    if (off + 1) not in snvpos:
                        viol("alt-differs-from-ref-outside-snvpos", "ALT differs from REF at 1-based offset %d, SNVPOS=%s" % (off + 1, snvpos))
                        break
                    if prog == "assemble":
                        allowed = c.snv_alleles.get((rec.chrom, rec.pos - 1 + off), set())
                    else:
                        allowed = {x[off] for x in [inp["ref"]] + inp["alts"] if len(x) > off} if inp else set()
                    if alt[off] not in allowed:
                        viol("alt-uses-allele-not-in-input-variants", "ALT base %r at 1-based offset %d; input variants there offer %s" % (alt[off], off + 1, sorted(allowed)))
                        break
            if prog != "assemble" and c.use_prior and inp is not None and any(x == 0.0 for x in inp["afp"]):
                col.count("records_zero_prior_allele")
                if _trailing_context(c, prog, rec):
                    col.count("records_trailing_allele_zero_prior")
        # ---- (4) INFO totals recomputed from the sample columns
        counts = [0] * rec.n_alleles
        ns = 0
        ok_gt = True
        for s in header.samples:
            gt, _ = rec.gt(s)
            called = [a for a in (gt or []) if a is not None]
            if any(not (0 <= a < rec.n_alleles) for a in called):
                ok_gt = False
                continue
            for a in called:
                counts[a] += 1
            ns += 1 if called else 0
        if ok_gt:
            col.count("info_totals_recomputed")
            want = {"AN": [sum(counts)], "UAN": [sum(1 for x in counts if x > 0)], "NS": [ns], "AC": counts[1:]}
            for k, wv in want.items():
                got = rec.info_list(k, int)
                if k == "AC" and not wv:
                    wv = [None]
                if got != wv:
                    viol("info-%s-differs-from-genotypes" % k.lower(), "INFO %s=%s, recomputed from the sample GTs: %s" % (k, rec.info.get(k), wv))
        for k in ("DP", "RCOUNT"):
            vals = [rec.sample_list(s, k, int) for s in header.samples]
            got = rec.info_list(k, int)
            if got is None or any(v is None or len(v) != 1 for v in vals):
                viol("info-%s-not-sum-of-sample-values" % k.lower(), "%s missing from INFO or FORMAT" % k)
                continue
            have = [v[0] for v in vals if v[0] is not None]
            if not have:
                if got[0] not in (None, 0):
                    viol("info-%s-not-sum-of-sample-values" % k.lower(), "INFO %s=%s but every sample value is missing" % (k, rec.info.get(k)))
            elif got[0] != sum(have):
                viol("info-%s-not-sum-of-sample-values" % k.lower(), "INFO %s=%s, sum of FORMAT %s over samples = %d (%s)" % (k, rec.info.get(k), k, sum(have), [v[0] for v in vals]))
        for s in header.samples:
            rc = rec.sample_list(s, "RCOUNT", int)
            if rc and rc[0] == 0:
                col.count("sample_columns_no_reads")
        snap = cap_by_line.get(rec.line)
        total_ploidy = sum(ploidies)
        R = rec.n_alleles
        if (want_info | want_fmt) & (AFP_FAMILY | {"SNVDP", "GP", "GL", "AFPRIOR"}):
            nontrivial = True

        def sample_vectors(key, length):
            """per-sample vectors: (from text or None, from internal or None); None entries for missing"""
            txt = None
            if key in rec.format:
                txt = [nums(rec.samples[s][key].split(",")) for s in header.samples]
                if any(len(v) != length for v in txt):
                    txt = None
            internal = None
            if snap is not None:
                internal = []
                for s in header.samples:
                    xs = flat(snap["sample"].get(key, {}).get(s))
                    internal.append([None if (x is None or x != x) else float(x) for x in xs])
                if any(len(v) != length for v in internal):
                    internal = None
            return txt, internal

        def check_sum(info_key, fmt_key, mech, combine, n_terms_tol):
            """problems [(mech, msg)] of INFO <info_key> against the per-sample <fmt_key> vectors (text and captured)"""
            probs = []
            got_txt = rec.info.get(info_key)
            if got_txt is None or got_txt is True:
                return probs
            got = nums(got_txt.split(","))
            if len(got) != R:
                return probs  # cardinality already reported
            txt, internal = sample_vectors(fmt_key, R)
            for src, vecs, tol in (("FORMAT text", txt, 0.0005 * n_terms_tol + 0.0005), ("captured sample values", internal, 0.0005)):
                if vecs is None:
                    continue
                col.count("optional_info_sums_recomputed")
                for a in range(R):
                    terms = [v[a] for v in vecs]
                    if any(t is None for t in terms):
                        if all(t is None for t in terms) and got[a] is None:
                            continue
                        if got[a] is None and invalid:
                            continue
                        probs.append((mech, "INFO %s[%d]=%s but sample %s values are %s (%s)" % (info_key, a, got[a], fmt_key, terms, src)))
                        break
                    w = combine(terms)
                    if got[a] is None or not close(got[a], w, tol):
                        probs.append((mech, "INFO %s=%s; recomputed entry %d from %s = %.6g (terms %s, tolerance %.4g)" % (info_key, got_txt, a, src, w, terms, tol)))
                        break
            return probs

        def afp_text_problems(tp):
            """INFO AFP against INFO ACP / total ploidy (both from the text)"""
            if "ACP" in rec.info and "AFP" in rec.info and tp:
                a_ = nums(rec.info["ACP"].split(","))
                f_ = nums(rec.info["AFP"].split(","))
                if len(a_) == R and len(f_) == R:
                    for i in range(R):
                        if (a_[i] is None) != (f_[i] is None) or (a_[i] is not None and not close(f_[i], a_[i] / tp, 0.0005 / tp + 0.0005)):
                            return [("info-afp-not-acp-over-total-ploidy", "INFO AFP=%s, INFO ACP=%s, total ploidy of the samples in the output %d" % (rec.info["AFP"], rec.info["ACP"], total_ploidy))]
            return []

        def afp_problems(tp):
            return check_sum("AFP", "ACP", "info-afp-not-acp-over-total-ploidy", lambda t: sum(t) / tp if tp else 0.0, n_s / max(tp, 1)) + afp_text_problems(tp)

        n_s = len(header.samples)
        probs = check_sum("ACP", "ACP", "info-acp-not-sum-of-sample-acp", lambda t: sum(t), n_s)
        probs += check_sum("AOPSUM", "AOP", "info-aopsum-not-sum-of-sample-aop", lambda t: sum(t), n_s)
        probs += check_sum("AOP", "AOP", "info-aop-not-complement-of-product", lambda t: 1.0 - math.prod(1.0 - x for x in t), n_s)
        afp = afp_problems(total_ploidy)
        if afp and c.extra_ploidy_entry and not afp_problems(total_ploidy + EXTRA_PLOIDY_VALUE):
            # the value is ACP / (ploidy of the output samples + ploidy of the ploidy-file entry that is not part of the run)
            afp = [(EXTRA_PLOIDY, "%s; it equals ACP / %d = (total ploidy + the %d of ploidy-file entry NOT_IN_THIS_RUN, which is not a sample of this run)"
                    % (afp[0][1], total_ploidy + EXTRA_PLOIDY_VALUE, EXTRA_PLOIDY_VALUE))]
        if c.extra_ploidy_entry:
            col.count("records_ploidy_file_extra_entry")
        for mech, msg in probs + afp[:1]:
            viol(mech, msg)
        # sample ACP = ploidy * AFP
        if want_info & AFP_FAMILY or want_fmt & AFP_FAMILY:
            t_acp, i_acp = sample_vectors("ACP", R)
            t_afp, i_afp = sample_vectors("AFP", R)
            for src, A, F, tol in (("text", t_acp, t_afp, None), ("captured", i_acp, i_afp, 1e-9)):
                if A is None or F is None:
                    continue
                col.count("sample_acp_afp_compared")
                for s, pl, av, fv in zip(header.samples, ploidies, A, F):
                    for i in range(R):
                        if av[i] is None or fv[i] is None:
                            continue
                        tl = tol if tol is not None else 0.0005 + pl * 0.0005
                        if not close(av[i], pl * fv[i], tl):
                            viol("sample-acp-not-ploidy-times-afp", "sample %s (ploidy %d): ACP[%d]=%r, AFP[%d]=%r (%s)" % (s, pl, i, av[i], i, fv[i], src))
                            break
        # SNVDP
        if "SNVDP" in rec.info and rec.info["SNVDP"] is not True:
            got = nums(rec.info["SNVDP"].split(","))
            txt, internal = sample_vectors("SNVDP", len(got))
            if len(got) != max(1, len(snvpos)):
                viol("snvdp-length-differs-from-snvpos", "INFO SNVDP=%s has %d entries, SNVPOS has %d" % (rec.info["SNVDP"], len(got), len(snvpos)))
            for src, vecs in (("FORMAT text", txt), ("captured sample values", internal)):
                if vecs is None:
                    continue
                col.count("optional_info_sums_recomputed")
                for a in range(len(got)):
                    terms = [v[a] for v in vecs]
                    have = [t for t in terms if t is not None]
                    if (not have and got[a] not in (None, 0.0)) or (have and (got[a] is None or len(have) != len(terms) or not close(got[a], sum(have), 1e-6))):
                        viol("info-snvdp-not-sum-of-sample-snvdp", "INFO SNVDP=%s, sample values at entry %d: %s (%s)" % (rec.info["SNVDP"], a, terms, src))
                        break
        if "SNVDP" in rec.format:
            for s in header.samples:
                nt = len(rec.samples[s]["SNVDP"].split(","))
                if nt != max(1, len(snvpos)):
                    viol("snvdp-length-differs-from-snvpos", "sample %s SNVDP=%s has %d entries, SNVPOS has %d" % (s, rec.samples[s]["SNVDP"], nt, len(snvpos)))
        # requested optional fields reach
        for k in want_info:
            if k in rec.info:
                col.count("optional_info_values_seen")
        for k in want_fmt:
            if k in rec.format:
                col.count("optional_format_values_seen", len(header.samples))
        # ---- (5) text vs captured internal values
        if snap is None:
            viol("emitted-line-not-produced-by-record-formatter", "no captured LocusAssemblyData produced this line")
        else:
            if snap["samples"] != header.samples:
                viol("header-samples-differ-from-command-line", "record formatted for samples %s, header has %s" % (snap["samples"], header.samples))
            else:
                col.count("tokens_compared_with_internal", compare_with_internal(snap, rec, header, viol))
    for rec in recs:
        try:
            one_record(rec)
        except ValueError as ex:
            # int()/float() of an emitted token failed inside the oracle: the token is not a number of the declared type
            make_viol(rec)("numeric-field-does-not-parse", "a numeric INFO/FORMAT token does not parse: %s" % ex)
    # ---- (6) pysam second opinion
    if recs:
        nviol[0] += pysam_opinion(c, prog, report, out, header, recs, col, replay)
    return nviol[0], nontrivial


def _trailing_context(c, prog, rec):
    """True when the record's LAST allele has prior frequency zero in a program that masks zero-prior alleles."""
    if prog not in ("call", "call-pedigree") or not c.use_prior:
        return False
    inp = c.hap_by_pos.get((rec.chrom, rec.pos))
    if inp is None:
        return False
    seqs = [inp["ref"]] + inp["alts"]
    last = rec.alts[-1] if rec.alts else rec.ref
    if last not in seqs:
        return False
    return inp["afp"][seqs.index(last)] == 0.0 and rec.n_alleles >= 2


def pysam_opinion(c, prog, report, out, header, recs, col, replay):
    import pysam

    path = os.path.join(c.root, "out-%s.vcf" % prog)
    with open(path, "w") as fh:
        fh.write(out)
    n = 0
    try:
        got = []
        with pysam.VariantFile(path) as vf:
            psamples = list(vf.header.samples)
            for r in vf:
                got.append((r.chrom, r.pos, r.ref, list(r.alts or ()), [tuple(r.samples[s]["GT"]) for s in psamples]))
    except Exception as ex:  # noqa: BLE001
        col.violation("pysam-rejects-output", "%s --report %s: pysam.VariantFile failed on the output: %r" % (prog, " ".join(report), ex), replay)
        return 1
    finally:
        os.remove(path)
    if psamples != header.samples or len(got) != len(recs):
        col.violation("pysam-reads-different-records", "%s: pysam sees %d records / samples %s, text parser %d / %s" % (prog, len(got), psamples, len(recs), header.samples), replay)
        return 1
    for g, r in zip(got, recs):
        if (g[0], g[1], g[2], g[3]) != (r.chrom, r.pos, r.ref, r.alts):
            col.violation("pysam-reads-different-records", "%s: pysam reads %s, text parser %s" % (prog, g[:4], (r.chrom, r.pos, r.ref, r.alts)), replay)
            n += 1
            continue
        for s, pg in zip(header.samples, g[4]):
            col.count("pysam_gts_compared")
            mine, _ = r.gt(s)
            if tuple(mine or ()) != pg:
                col.violation("pysam-gt-differs-from-text", "%s: sample %s GT text %r, pysam %r\n  output line: %s" % (prog, s, r.samples[s].get("GT"), pg, r.line[:400]), replay)
                n += 1
    return n


# ---------------------------------------------------------------------------
# running


def exc_chain(exc):
    out = []
    seen = set()
    while exc is not None and id(exc) not in seen:
        seen.add(id(exc))
        out.append("%s: %s" % (type(exc).__name__, str(exc)[:300]))
        exc = exc.__cause__ or exc.__context__
    return " <- ".join(out)


def run_one(c, prog, kind, report, col, base_ok):
    replay = {"case": c.key, "program": prog, "kind": kind, "report": list(report)}
    args = argv_for(c, prog, report)
    with Capture() as cap:
        out, exc = cli.run_inproc(args)
    col.count("runs_executed")
    for t in report:
        col.add_to_set("report_tokens", t)
    if exc is not None:
        chain = exc_chain(exc)
        asked = {t.split("/")[-1] for t in report}
        trailing = prog in ("call", "call-pedigree") and c.use_prior and any(r["zero"] == "last" for r in c.hap_records)
        what = "%s --report %s raised %s\n  argv: %s\n  input haplotype records: %s" % (
            prog, " ".join(report) or "(none)", chain, " ".join(args),
            [(r["contig"], r["pos0"] + 1, len(r["alts"]) + 1, r["info"]) for r in c.hap_records][:6] if prog != "assemble" else "n/a")
        col.case(replay, nontrivial=False)
        if trailing and (asked & AFP_FAMILY) and "broadcast" in chain:
            col.violation(TRAILING, what, replay)
        elif kind != "none" and base_ok:
            # the same dataset and options ran without --report: the report option breaks the output
            col.violation("report-option-makes-program-fail", what, replay)
        else:
            # no output to judge; not a statement about emitted records -> the run is inconclusive, not a violation
            col.count("runs_program_failed_without_report")
            col.inconclusive_note("program failed on generated input (nothing emitted to judge): " + what[:700])
        return False
    nv, nontrivial = check_run(c, prog, kind, report, out, cap.items, col, replay)
    col.count("runs_checked")
    col.count("runs_report_" + kind)
    col.case(replay, nontrivial=nontrivial)
    return True


def run_shard(tier, seed, spec, col):
    per = spec["datasets"]
    wide = 1 if spec["shard"] % 4 == 0 else 0
    for dI in range(per + wide):
        g = spec["shard"] * per + dI if dI < per else -1
        c = build_case(seed, spec["shard"], dI, g)
        col.add_to_set("flavors", c.flavor)
        col.count("datasets_built")
        if c.flavor == WIDE:
            col.count("datasets_with_loci_over_127_snvs")
        try:
            for prog in PROGRAMS:
                base_ok = True
                for kind, report in c.reports[prog]:
                    ok = run_one(c, prog, kind, report, col, base_ok)
                    if kind == "none":
                        base_ok = ok
                        if not ok:
                            break
            if dI == 0 and spec["shard"] in (0, 5):
                out, exc = cli.run_inproc(argv_for(c, "call-exact", ["GP", "AFP"]))
                lines = cli.record_lines(out)
                col.sample({"dataset": c.key, "flavor": c.flavor, "samples": c.ped_samples, "ploidy": c.ploidy_of, "call_options": c.call_opts,
                            "argv": " ".join(argv_for(c, "call-exact", ["GP", "AFP"]))[:600], "first_record": lines[0][:600] if lines else None})
        finally:
            shutil.rmtree(c.root, ignore_errors=True)


def replay(obj, col):
    p = obj["case"]
    seed, shard, dI, g = p["case"]
    c = build_case(seed, shard, dI, g)
    try:
        run_one(c, p["program"], p.get("kind", "subset"), p["report"], col, True)
    finally:
        shutil.rmtree(c.root, ignore_errors=True)
