"""C18 - every move of the call-pedigree sampler is stationary at the joint pedigree posterior.

Monitors
  * return values of the compiled gibbs_probabilities / metropolis_hastings_probabilities for
    (joint state, individual, allele position);
  * prob_accept / resulting state of pair_allele_swap_step: (M2) the function's .py_func with the module's
    `np` replaced by a proxy that forces (index_p, index_q, u) - every index pair, forward and reverse - and
    (M1) the compiled step under a seeded numba RNG with the three draws predicted by a replay helper.
Oracle: joint on ordered tuples nu(x) = prod_i L_i(G_i) T(G_i | parents) / perms(G_i), with L_i from the
sample's own positive-count reads and T the brute-force inheritance pmf (vlib.oracles.pedigree).
"""

import itertools
import math

import numpy as np

from vlib import gen, monitors, pedgen
from vlib.oracles import model as M

ID = "C18"
TECHNIQUE = "runtime monitoring: transition vectors of the compiled pedigree Gibbs/MH kernels and acceptance/state of the parental swap move (forced and seeded draws) observed on generated pedigrees; exact-conditional and detailed-balance oracle w.r.t. a brute-force joint; exact kernel of the whole sample_step; program level: arrays reaching the pedigree sampler and the PEDERR computation inside mchap call-pedigree vs arrays rebuilt from the user's --sample-parents / --gamete-* files"
LEVEL = "exploration"
LEVEL_TEXT = (
    "Exploration: on generated small pedigrees (founders, duos, trios, half/full sibs, selfing, three generations, mixed "
    "ploidy 4x2->3, unbalanced tau (3,1), clone edges, lambda>0, error in {0,0.05,0.5}, 2-4 haplotypes, samples with "
    "unequal numbers of distinct reads) and random joint states, every (individual, allele position) Gibbs vector of the "
    "real kernel is compared with the exact full conditional of the brute-force joint, every MH row and every parental "
    "allele swap (all index pairs, forward and reverse) is checked for detailed balance against the same joint. "
    "Observed executions only; pedigree shapes beyond the listed scenarios are not covered."
)
LEVEL_TEXT += " Session 3: an orchestration kind - mcmc_sampler.py_func with compound_step / pair_allele_swap_step replaced by recorders around the real compiled moves on multi-family pedigrees: every swap's Markov blanket must cover both parents and all children of either, the children matrix must be the pedigree's, the recorded trace must be the state left by the last move."
LEVEL_NOTE = "Trusts the brute-force inheritance oracle (vlib/oracles/pedigree.py, cross-checked against the kernels in C17) and the independent likelihood oracle."
RULE = (
    "case = one (pedigree instance, joint state, individual, allele position, move type) vector or one swap (state, pair, index_p, index_q); "
    "non-trivial = the individual has a known parent or a child; distinct by hash of (instance id, state, move parameters)"
)
LEVEL_TEXT += " Also observed: the exact kernel of the whole sample_step (nu P = nu); at program level the pedigree arrays (parents, gamete ploidy, lambda, error, ploidy, each sample's own reads) reaching the sampler and the PEDERR computation inside mchap call-pedigree equal arrays rebuilt from the user's files (shuffled lines, per-gamete values all different, BAM-less parents)."
LEVEL_TEXT += ' Session 4: selfing parental pairs are decided by the swap monitor; unknown-parent edges carry arbitrary user error rates including 0.'
ASSUMPTIONS = ["states of zero joint probability are unreachable and skipped", "allele frequencies strictly positive"]
TOL = 1e-9


def plan(tier, seed):
    n = 16
    per = 56 if tier == "quick" else 500
    specs = [{"name": "s%02d" % i, "shard": i, "instances": per, "timeout": 7000} for i in range(n)]
    specs += [{"name": "step%d" % i, "kind": "samplestep", "shard": 50 + i, "instances": 6 if tier == "quick" else 40, "timeout": 7000} for i in range(4)]
    specs += [{"name": "orch%d" % i, "kind": "orch", "shard": 90 + i, "instances": 20 if tier == "quick" else 150, "timeout": 7000} for i in range(2)]
    specs += [{"name": "prog%d" % i, "kind": "prog", "shard": 70 + i, "instances": 30 if tier == "quick" else 200, "timeout": 7000} for i in range(4)]
    return specs


def required(tier):
    return {"gibbs_vectors": 2000, "mh_vectors": 2000, "mh_db_edges": 3000, "swap_pairs_checked": 1000, "swap_m1_checked": 100,
            "gibbs_unbalanced": 200, "gibbs_with_children": 300, "gibbs_with_parents": 300, "vectors_lambda": 100,
            "swap_unequal_reads": 100, "vectors_error_zero": 100, "scenarios_seen": 12, "gibbs_hexaploid": 100,
            "sample_step_kernels_checked": 20, "sample_step_paths_enumerated": 1000,
            "prog_sampler_calls_checked": 150, "prog_pedigrees_with_per_gamete_files": 50, "prog_pedigrees_order_differs_from_file": 50,
            "prog_incongruence_calls_checked": 100, "prog_pedigrees_with_sample_without_bam": 8,
            "orch_sampler_runs": 25, "orch_swap_calls_checked": 300, "orch_pedigrees_with_distinct_blankets": 15, "orch_trace_steps_checked": 200}


class NpProxy:
    """Stands in for the module-level `np` of mchap.pedigree.mcmc while pair_allele_swap_step.py_func runs."""

    class _R:
        def __init__(self, ints, u):
            self.ints = list(ints)
            self.u = u

        def randint(self, n):
            v = self.ints.pop(0)
            assert 0 <= v < n
            return v

        def rand(self):
            return self.u

    def __init__(self, ints, u):
        self.random = NpProxy._R(ints, u)

    def __getattr__(self, name):
        return getattr(np, name)


_helper = {}


def predict_swap_draws(seed, ploidy_p, ploidy_q):
    import numba

    from mchap.jitutils import seed_numba

    if "f" not in _helper:

        @numba.njit
        def f(a, b):
            i = np.random.randint(a)
            j = np.random.randint(b)
            u = np.random.rand()
            return i, j, u

        _helper["f"] = f
    seed_numba(seed)
    return _helper["f"](ploidy_p, ploidy_q)


def check_instance(I, rng, col, inst_id, tier, n_states=None, states_override=None):
    from mchap.jitutils import seed_numba

    J = pedgen.Joint(I)
    K = pedgen.Kernels(I)
    PM = K.PM
    n = len(I["ploidy"])
    n_h = len(I["haps"])
    packed = pedgen.pack(I)
    col.add_to_set("scenarios", I["name"])
    has_child = [bool((K.children[i] >= 0).any()) if K.children.shape[1] else False for i in range(n)]
    has_parent = [bool((I["parents"][i] >= 0).any()) for i in range(n)]
    unbalanced = [bool(I["tau"][i, 0] != I["tau"][i, 1] and has_parent[i]) for i in range(n)]
    any_lambda = bool((I["lam"] > 0).any())

    def viol(mech, msg, state, extra=None):
        col.violation(mech, msg, {"instance": packed, "state": state.tolist(), "extra": extra})

    n_states = n_states or (6 if tier == "quick" else 10)
    states = []
    tries = 0
    while len(states) < n_states and tries < 200:
        tries += 1
        st = pedgen.random_state(rng, I)
        if J.log_nu(st) != -math.inf:
            states.append(st)
    if states_override is not None:
        states = states_override
    for st in states:
        base = J.log_nu(st)
        for t in range(n):
            for k in range(int(I["ploidy"][t])):
                cache = K.new_cache() if rng.random() < 0.5 else None
                # oracle conditional over alleles
                w = []
                for a in range(n_h):
                    y = st.copy()
                    y[t, k] = a
                    w.append(J.log_nu(y))
                want = np.array(M.normalise_logs(w))
                nontriv = has_child[t] or has_parent[t]
                col.case("G|%d|%s|%d|%d" % (inst_id, st.tolist(), t, k), nontrivial=nontriv)
                s0 = st.copy()
                try:
                    got = K.gibbs(s0, t, k, cache)
                except Exception as ex:  # noqa: BLE001
                    col.count("gibbs_vectors")
                    viol("gibbs-kernel-raises", "gibbs_probabilities raised %r for sample %d position %d [%s; ploidy %s tau %s]; exact conditional %s"
                         % (ex, t, k, I["name"], I["ploidy"].tolist(), I["tau"][t].tolist(), np.round(want, 6).tolist()), st, {"t": t, "k": k})
                    continue
                col.count("gibbs_vectors")
                if int(I["ploidy"][t]) >= 6:
                    col.count("gibbs_hexaploid")
                if unbalanced[t]:
                    col.count("gibbs_unbalanced")
                if has_child[t]:
                    col.count("gibbs_with_children")
                if has_parent[t]:
                    col.count("gibbs_with_parents")
                if any_lambda:
                    col.count("vectors_lambda")
                if has_parent[t] and float(I["err"][t][I["parents"][t] >= 0].min()) == 0.0:
                    col.count("vectors_error_zero")
                if not np.array_equal(s0, st):
                    viol("kernel-mutates-state", "gibbs_probabilities left state %s" % s0.tolist(), st, {"t": t, "k": k})
                err = float(np.abs(got - want).max()) if np.all(np.isfinite(got)) else float("inf")
                col.maxv("max_gibbs_error", min(err, 1.0))
                if not err <= TOL:
                    mech = "gibbs-not-exact-conditional-unbalanced-gametes" if unbalanced[t] else "gibbs-not-exact-conditional"
                    viol(mech, "Gibbs vector %s differs from exact conditional %s (max %.4g) for sample %d position %d [%s; tau %s]"
                         % (np.round(got, 6).tolist(), np.round(want, 6).tolist(), err, t, k, I["name"], I["tau"][t].tolist()), st, {"t": t, "k": k})
                # MH row: distribution + detailed balance
                s0 = st.copy()
                p = K.mh(s0, t, k, cache)
                col.count("mh_vectors")
                if not (np.all(np.isfinite(p)) and p.min() >= -1e-12 and abs(p.sum() - 1) <= 1e-9):
                    viol("row-not-a-distribution", "MH vector %s" % p.tolist(), st, {"t": t, "k": k})
                    continue
                cur = int(st[t, k])
                for a in range(n_h):
                    if a == cur:
                        continue
                    y = st.copy()
                    y[t, k] = a
                    ly = w[a]
                    if ly == -math.inf:
                        if p[a] > 1e-300:
                            viol("moves-into-zero-probability-state", "MH proposes an impossible joint state with prob %g" % p[a], st, {"t": t, "k": k})
                        continue
                    pb = K.mh(y.copy(), t, k, None)
                    m = max(base, ly)
                    A = math.exp(base - m) * float(p[a])
                    B = math.exp(ly - m) * float(pb[cur])
                    col.count("mh_db_edges")
                    col.maxv("max_mh_db_residual", abs(A - B) / max(A, B, 1e-300))
                    if abs(A - B) > TOL * max(A, B) + 1e-15:
                        viol("mh-detailed-balance", "nu(x)K(x,x')=%.12g != nu(x')K(x',x)=%.12g sample %d position %d allele %d->%d [%s]" % (A, B, t, k, cur, a, I["name"]), st, {"t": t, "k": k, "a": a})
        # ---- parental allele swap
        for pi in range(len(K.pairs)):
            pp, qq = int(K.pairs[pi, 0]), int(K.pairs[pi, 1])
            if pp == qq:
                # selfing: both "parents" are one individual, the move exchanges two copies inside one genotype (a permutation of the
                # ordered tuple): same generic oracle - nu(y) == nu(x), equal acceptance both ways, every other individual untouched
                col.count("swap_selfing_pairs_checked")
            np_p = int((I["counts"][pp] > 0).sum())
            np_q = int((I["counts"][qq] > 0).sum())
            for ip, iq in itertools.product(range(int(I["ploidy"][pp])), range(int(I["ploidy"][qq]))):
                ap, aq = int(st[pp, ip]), int(st[qq, iq])
                y = st.copy()
                y[pp, ip], y[qq, iq] = aq, ap
                col.case("W|%d|%s|%d|%d|%d" % (inst_id, st.tolist(), pi, ip, iq), nontrivial=True)
                fwd, s_f = run_swap(PM, K, st, pi, ip, iq, 2.0, K.new_cache() if rng.random() < 0.5 else None)
                col.count("swap_pairs_checked")
                if np_p != np_q:
                    col.count("swap_unequal_reads")
                if ap == aq:
                    if not (isinstance(fwd, float) and math.isnan(fwd)) or not np.array_equal(s_f, st):
                        viol("swap-step-wrong", "identical alleles: expected no-op, got prob %r state %s" % (fwd, s_f.tolist()), st, {"pair": pi, "ip": ip, "iq": iq})
                    continue
                if not np.array_equal(s_f, st):
                    viol("swap-step-wrong", "rejected swap (u=2) did not restore the state: %s" % s_f.tolist(), st, {"pair": pi, "ip": ip, "iq": iq})
                ly = J.log_nu(y)
                if ly == -math.inf:
                    if fwd > 1e-300:
                        viol("moves-into-zero-probability-state", "swap accepted with prob %g into an impossible state" % fwd, st, {"pair": pi, "ip": ip, "iq": iq})
                    continue
                bwd, _ = run_swap(PM, K, y, pi, ip, iq, 2.0, None)
                m = max(base, ly)
                A = math.exp(base - m) * float(fwd)
                B = math.exp(ly - m) * float(bwd)
                col.maxv("max_swap_db_residual", abs(A - B) / max(A, B, 1e-300))
                if abs(A - B) > TOL * max(A, B) + 1e-15:
                    mech = "swap-detailed-balance-unequal-read-counts" if np_p < np_q else "swap-detailed-balance"
                    viol(mech, "nu(x)A(x->x')=%.12g != nu(x')A(x'->x)=%.12g parents (%d,%d) indices (%d,%d); distinct reads p=%d q=%d [%s]"
                         % (A, B, pp, qq, ip, iq, np_p, np_q, I["name"]), st, {"pair": pi, "ip": ip, "iq": iq})
                # accepted swap really swaps
                acc, s_a = run_swap(PM, K, st, pi, ip, iq, -1.0, None)
                if not np.array_equal(s_a, y):
                    viol("swap-step-wrong", "accepted swap (u=-1) gave state %s want %s" % (s_a.tolist(), y.tolist()), st, {"pair": pi, "ip": ip, "iq": iq})
            # M1: compiled step under a seeded RNG agrees with the forced py_func run
            for _ in range(2):
                s = int(rng.integers(1, 2**31 - 1))
                ip, iq, u = predict_swap_draws(s, int(I["ploidy"][pp]), int(I["ploidy"][qq]))
                want_prob, _ = run_swap(PM, K, st, pi, int(ip), int(iq), 2.0, None)
                s1 = st.copy()
                seed_numba(s)
                got_prob, accepted = PM.pair_allele_swap_step(**K.swap_args(s1, pi, None))
                col.count("swap_m1_checked")
                if math.isnan(want_prob):
                    ok = math.isnan(got_prob) and np.array_equal(s1, st)
                else:
                    exp_acc = u < want_prob
                    y = st.copy()
                    if exp_acc:
                        y[pp, ip], y[qq, iq] = st[qq, iq], st[pp, ip]
                    ok = abs(got_prob - want_prob) <= 1e-12 and bool(accepted) == bool(exp_acc) and np.array_equal(s1, y)
                if not ok:
                    viol("compiled-kernel-disagrees-with-extracted-row", "compiled swap (seed %d): prob %r accepted %r state %s; py_func prob %r draws (%d,%d,%.4f)"
                         % (s, got_prob, accepted, s1.tolist(), want_prob, ip, iq, u), st, {"pair": pi})


def run_swap(PM, K, state, pair_idx, ip, iq, u, cache):
    s = state.copy()
    proxy = NpProxy([ip, iq], u)
    with monitors.patched((PM, "np", proxy)):
        prob, acc = PM.pair_allele_swap_step.py_func(**K.swap_args(s, pair_idx, cache))
    return float(prob), s


class _ShuffleProxy:
    class _R:
        def __init__(self, order):
            self.order = order

        def shuffle(self, arr):
            arr[:] = self.order

    def __init__(self, order):
        self.random = _ShuffleProxy._R(order)

    def __getattr__(self, name):
        return getattr(np, name)


class _Scripted:
    def __init__(self, choices):
        self.choices = list(choices)
        self.probs = []

    def __call__(self, p):
        self.probs.append(np.array(p, dtype=float, copy=True))
        return self.choices[len(self.probs) - 1]


def run_samplestep(tier, seed, spec, col):
    """Exact transition kernel of sample_step (random scan over the allele copies of one individual): every scan order and
    every sequence of choices is forced through the real sample_step.py_func / allele_step.py_func; the conditional joint
    posterior of that individual's genotype given everybody else must be stationary (pi P = pi)."""
    from mchap.pedigree import mcmc as PM

    names = ["trio2", "duo", "selfing", "halfsibs", "mixed_4x2_3", "unreduced", "trio4", "fullsibs", "threegen"]
    for i in range(spec["instances"]):
        rng = gen.rng_for(seed, ID, spec["shard"], i)
        I = pedgen.make_pedigree(rng, names[(spec["shard"] + i) % len(names)])
        if len(I["haps"]) > 3:
            I["haps"] = I["haps"][:3]
            I["freqs"] = I["freqs"][:3] / I["freqs"][:3].sum()
        J = pedgen.Joint(I)
        K = pedgen.Kernels(I)
        n_h = len(I["haps"])
        st0 = None
        for _ in range(100):
            cand = pedgen.random_state(rng, I)
            if J.log_nu(cand) != -math.inf:
                st0 = cand
                break
        if st0 is None:
            continue
        # individuals of ploidy <= 3 keep the enumeration small
        cands = [t for t in range(len(I["ploidy"])) if int(I["ploidy"][t]) <= (3 if tier == "quick" else 4)]
        if not cands:
            continue
        t = int(cands[int(rng.integers(len(cands)))])
        ploidy = int(I["ploidy"][t])
        gts = list(itertools.combinations_with_replacement(range(n_h), ploidy))
        # conditional target over unordered genotypes of t (others fixed)
        lw = []
        for g in gts:
            y = st0.copy()
            y[t, :ploidy] = g
            lw.append(J.log_nu(y) + M.log_perms(g))
        pi = np.array(M.normalise_logs(lw))
        idx = {g: k for k, g in enumerate(gts)}
        orders = list(itertools.permutations(range(ploidy)))
        real_allele_step = PM.allele_step

        def allele_step_py(**kw):
            return real_allele_step.py_func(**kw)

        for step_type in (0, 1):
            P = np.zeros((len(gts), len(gts)))
            for a, g0 in enumerate(gts):
                if pi[a] == 0:
                    continue
                for order in orders:
                    for choices in itertools.product(range(n_h), repeat=ploidy):
                        y = st0.copy()
                        y[t, :ploidy] = g0
                        rec = _Scripted(choices)
                        kw = K._common(y, None)
                        with monitors.patched((PM, "random_choice", rec), (PM, "np", _ShuffleProxy(np.array(order))), (PM, "allele_step", allele_step_py)):
                            PM.sample_step.py_func(target_index=t, sample_children=K.children, step_type=step_type, **kw)
                        col.count("sample_step_paths_enumerated")
                        pr = 1.0 / len(orders)
                        for vec, c in zip(rec.probs, choices):
                            pr *= float(vec[c])
                        if pr > 0:
                            P[a, idx[tuple(sorted(int(x) for x in y[t, :ploidy]))]] += pr
            col.count("sample_step_kernels_checked")
            col.case("SS|%d|%d|%d|%d" % (spec["shard"], i, t, step_type), nontrivial=True)
            live = pi > 0
            rep = {"instance": pedgen.pack(I), "state": st0.tolist(), "extra": {"t": t, "step_type": step_type}}
            if np.abs(P[live].sum(axis=1) - 1).max() > 1e-9:
                col.violation("row-not-a-distribution", "sample_step kernel rows sum to %s" % P[live].sum(axis=1).tolist(), rep)
                continue
            res = float(np.abs(pi @ P - pi).max())
            col.maxv("max_sample_step_stationarity_residual", res)
            if res > 1e-9:
                col.violation("sample-step-not-stationary-at-conditional-posterior", "sample_step (%s) for individual %d [%s]: max |pi P - pi| = %.3g"
                              % ("Gibbs" if step_type == 0 else "MH", t, I["name"], res), rep)



# ---------------------------------------------------------------------------
# orch: what the pedigree sampler's own loop hands to the moves (several families per pedigree)

ORCH_SHAPES = {
    # two unrelated families: disjoint blankets
    "two_families": ([2, 2, 2, 2, 2, 2], [(-1, -1), (-1, -1), (-1, -1), (-1, -1), (0, 1), (2, 3)], [(1, 1)] * 6),
    "two_families4": ([4, 4, 4, 4, 4, 4, 4], [(-1, -1), (-1, -1), (-1, -1), (-1, -1), (0, 1), (2, 3), (2, 3)], [(2, 2)] * 7),
    # three pairs sharing parents pairwise
    "diallel": ([2, 2, 2, 2, 2, 2], [(-1, -1), (-1, -1), (-1, -1), (0, 1), (1, 2), (0, 2)], [(1, 1)] * 6),
    # a family, a selfing and a cross between their progeny
    "mixed_families": ([2, 2, 2, 2, 2, 2], [(-1, -1), (-1, -1), (0, 1), (-1, -1), (3, 3), (2, 4)], [(1, 1)] * 6),
}


def run_orch(tier, seed, spec, col):
    """mcmc_sampler.py_func runs with compound_step and pair_allele_swap_step replaced by recorders that call the REAL
    compiled moves: every swap must be given a Markov blanket that covers everything whose term changes with the two
    parents (both parents and all children of either) - the move's acceptance ratio is evaluated over exactly that set, so
    a blanket that misses a member (or belongs to another family) gives a move that is not stationary at the joint
    posterior even though pair_allele_swap_step itself is untouched.  Also observed: the children matrix given to the
    allele updates, and that the recorded trace is the state left by the last move of each iteration."""
    from numba import types
    from numba.typed import Dict

    from mchap.jitutils import seed_numba
    from mchap.pedigree import mcmc as PM

    for name, shape in ORCH_SHAPES.items():
        pedgen.SCENARIOS.setdefault(name, shape)
    names = ["two_families", "diallel", "halfsibs", "threegen", "two_families4", "mixed_families", "trio4_child_parent", "backcross4", "mixed_then_child", "random"]
    real_compound, real_swap = PM.compound_step, PM.pair_allele_swap_step
    for i in range(spec["instances"]):
        rng = gen.rng_for(seed, ID, spec["shard"], i)
        I = pedgen.make_pedigree(rng, names[(spec["shard"] + i) % len(names)])
        J = pedgen.Joint(I)
        st0 = None
        for _ in range(200):
            cand = pedgen.random_state(rng, I)
            if J.log_nu(cand) != -math.inf:
                st0 = cand
                break
        if st0 is None:
            continue
        parents = I["parents"]
        n = len(parents)
        kids = {x: set() for x in range(n)}
        for c in range(n):
            for x in parents[c]:
                if x >= 0:
                    kids[int(x)].add(c)
        pairs = {tuple(sorted((int(p), int(q)))) for p, q in parents if p >= 0 and q >= 0}
        distinct_blankets = {frozenset({p, q} | kids[p] | kids[q]) for p, q in pairs}
        if len(pairs) >= 2:
            col.count("orch_pedigrees_with_several_pairs")
        if len(distinct_blankets) >= 2:
            col.count("orch_pedigrees_with_distinct_blankets")
        cache = Dict.empty(key_type=types.UniTuple(types.int64, 2), value_type=types.float64)
        cache[(-1, -1)] = np.nan
        log = {"iter": -1, "swaps": [], "bad": [], "ends": {}}

        def w_compound(**kw):
            log["iter"] += 1
            kw["llk_cache"] = cache
            ch = kw["sample_children"]
            for x in range(n):
                got = {int(c) for c in ch[x] if c >= 0}
                if got != kids[x]:
                    log["bad"].append(("children-matrix-wrong", "allele updates are told sample %d has children %s, the pedigree says %s" % (x, sorted(got), sorted(kids[x]))))
            out = real_compound(**kw)
            log["ends"][log["iter"]] = kw["sample_genotypes"].copy()
            return out

        def w_swap(**kw):
            kw["llk_cache"] = cache
            p, q = int(kw["p"]), int(kw["q"])
            bl = {int(b) for b in kw["markov_blanket"] if b >= 0}
            need = {p, q} | kids[p] | kids[q]
            log["swaps"].append((log["iter"], p, q))
            col.count("orch_swap_calls_checked")
            if not need <= bl:
                log["bad"].append(("swap-given-wrong-markov-blanket", "iteration %d: allele swap between parents %d and %d evaluated over the blanket %s, but %s carry terms that change with these two genotypes"
                                   % (log["iter"], p, q, sorted(bl), sorted(need))))
            out = real_swap(**kw)
            log["ends"][log["iter"]] = kw["sample_genotypes"].copy()
            return out

        s = int(rng.integers(1, 2**31 - 1))
        np.random.seed(s)
        seed_numba(s)
        steps = 12
        case = {"kind": "orch", "seed": seed, "shard": spec["shard"], "instance": i, "scenario": I["name"], "parents": parents.tolist()}
        col.case("ORCH|%d|%d" % (spec["shard"], i), nontrivial=len(pairs) >= 2)
        try:
            with monitors.patched((PM, "compound_step", w_compound), (PM, "pair_allele_swap_step", w_swap)):
                trace = PM.mcmc_sampler.py_func(
                    sample_genotypes=st0.copy(), sample_ploidy=I["ploidy"], sample_parents=parents, gamete_tau=I["tau"], gamete_lambda=I["lam"],
                    gamete_error=I["err"], sample_read_dists=I["reads"], sample_read_counts=I["counts"], haplotypes=I["haps"],
                    log_frequencies=np.log(I["freqs"]), n_steps=steps, annealing=0, step_type=int(rng.integers(2)), swap_parental_alleles=True)
        except Exception as ex:  # noqa: BLE001
            col.count("orch_runs_aborted")
            col.note("orch run aborted: %r" % (ex,)) if hasattr(col, "note") else None
            continue
        col.count("orch_sampler_runs")
        for mech, msg in log["bad"][:2]:
            col.violation(mech, "[%s] %s" % (I["name"], msg), case)
        # every family is offered a swap in every iteration (the documented schedule); fewer is not a stationarity defect, so only counted
        per_iter = {}
        for it, p, q in log["swaps"]:
            per_iter.setdefault(it, set()).add(tuple(sorted((p, q))))
        if all(per_iter.get(it, set()) == pairs for it in range(steps)):
            col.count("orch_runs_every_pair_each_iteration")
        # the recorded trace is the state left by the last move of each iteration (as multisets per sample)
        tr = np.asarray(trace)
        for it in range(steps):
            end = log["ends"].get(it)
            if end is None:
                continue
            col.count("orch_trace_steps_checked")
            for x in range(n):
                pl = int(I["ploidy"][x])
                a = sorted(int(v) for v in tr[it, x] if v >= 0)
                b = sorted(int(v) for v in end[x][:pl])
                if a != b:
                    col.violation("trace-differs-from-sampler-state", "[%s] iteration %d sample %d: trace holds %s, the sampler's state after the last move was %s" % (I["name"], it, x, a, b), case)
                    break
            else:
                continue
            break

# ---------------------------------------------------------------------------
# prog: the pedigree handed to the sampler by `mchap call-pedigree` is the one the user's files describe


def run_prog(tier, seed, spec, col):
    """In-process call-pedigree on generated BAMs with --sample-parents / --gamete-ploidy / --gamete-ibd / --gamete-error
    files (lines in shuffled order, per-gamete values all different, sometimes a parent without BAM).  The sampler and
    the PEDERR computation are wrapped where the program calls them and the arrays they receive are compared with
    arrays rebuilt from the files: the joint posterior whose kernels the other kinds verify is the user's pedigree."""
    import os
    import shutil
    import warnings

    from mchap.application.call_pedigree import program as P
    from mchap.pedigree import classes as pclasses

    from vlib import cli, datasets, env, hapvcf

    for inst in range(spec["instances"]):
        rng = gen.rng_for(seed, ID, spec["shard"], inst)
        while True:
            ploidies, parents, tau = pedgen.random_shape(rng)
            if max(ploidies) <= 4 and len(ploidies) <= 5 and min(min(t) for t in tau) >= 1:
                break
        n = len(ploidies)
        founders_with_children = [i for i in range(n) if parents[i] == (-1, -1) and any(i in parents[k] for k in range(n))]
        dummy = int(rng.choice(founders_with_children)) if founders_with_children and rng.random() < 0.35 else None
        with_bam = [i for i in range(n) if i != dummy]
        order = [with_bam[int(k)] for k in rng.permutation(len(with_bam))]  # BAM / program order
        name = {idx: "S%d" % (k + 1) for k, idx in enumerate(order)}
        if dummy is not None:
            name[dummy] = "D1"
        root = env.workdir("c18-%s-%d" % (spec["name"], inst))
        shutil.rmtree(root, ignore_errors=True)
        ds = datasets.make_dataset(rng, root, n_samples=len(order), n_loci=2, ploidy=[2], depth=(1, 9), contig_len=400, snv_range=(1, 3), hostile=0.0)
        recs = []
        for L in ds.loci:
            ref = ds.contigs[L["contig"]][L["start"]:L["stop"]]
            alts = []
            for smp in ds.samples:
                for hap in ds.genotypes[(smp, L["name"])]:
                    sq = datasets.hap_sequence(ds.contigs, L, hap, L["start"], L["stop"])
                    if sq != ref and sq not in alts:
                        alts.append(sq)
            recs.append({"contig": L["contig"], "pos0": L["start"], "id": L["name"], "ref": ref, "alts": alts[:3]})
        recs.sort(key=lambda r: (r["contig"], r["pos0"]))
        hv = hapvcf.write(os.path.join(root, "haps.vcf"), hapvcf.render(ds.contigs, recs))
        lam = {(i, j): (float(rng.choice([0.05, 0.1, 0.25])) + 0.001 * (2 * i + j) if tau[i][j] == 2 and parents[i][j] >= 0 and ploidies[parents[i][j]] >= 4 and rng.random() < 0.6 else 0.0)
               for i in range(n) for j in range(2)}
        err = {(i, j): round(0.02 + 0.013 * (2 * i + j) + float(rng.choice([0.0, 0.2])), 4) for i in range(n) for j in range(2)}
        balanced = all(tau[i][0] == tau[i][1] for i in range(n))
        use_tau_file = (not balanced) or rng.random() < 0.5
        use_lam_file = any(v > 0 for v in lam.values()) or rng.random() < 0.3
        use_err_file = rng.random() < 0.75
        if not use_err_file:
            e0 = float(rng.choice([0.01, 0.1, 0.5]))
            err = {k: e0 for k in err}

        def write_lines(fname, rows):
            rows = [rows[int(k)] for k in rng.permutation(len(rows))]
            path = os.path.join(root, fname)
            with open(path, "w") as fh:
                for r in rows:
                    fh.write("\t".join(str(x) for x in r) + "\n")
            return path

        pn = lambda k: "." if k < 0 else name[k]  # noqa: E731
        f_par = write_lines("parents.txt", [(name[i], pn(parents[i][0]), pn(parents[i][1])) for i in range(n)])
        f_pl = write_lines("ploidy.txt", [(name[i], ploidies[i]) for i in range(n)])
        argv = ["call-pedigree", "--haplotypes", hv, "--bam"] + ds.bams + ["--ploidy", f_pl, "--sample-parents", f_par,
                "--mcmc-steps", "40", "--mcmc-burn", "20", "--mcmc-seed", str(inst % 3), "--mcmc-chains", str(1 + inst % 2)]
        if use_tau_file:
            argv += ["--gamete-ploidy", write_lines("tau.txt", [(name[i], tau[i][0], tau[i][1]) for i in range(n)])]
        if use_lam_file:
            argv += ["--gamete-ibd", write_lines("lambda.txt", [(name[i], repr(lam[(i, 0)]), repr(lam[(i, 1)])) for i in range(n)])]
        argv += ["--gamete-error", write_lines("error.txt", [(name[i], repr(err[(i, 0)]), repr(err[(i, 1)])) for i in range(n)]) if use_err_file else repr(e0)]
        case = {"kind": "prog", "seed": seed, "shard": spec["shard"], "instance": inst, "names": [name[i] for i in range(n)], "ploidy": ploidies,
                "parents": [list(x) for x in parents], "tau": [list(x) for x in tau], "argv": argv[1:]}
        col.case(case, nontrivial=True)
        calls, inc_calls = [], []
        real_sampler, real_inc = pclasses.mcmc_sampler, pclasses._trace_incongruence

        def spy_sampler(*a, **kw):
            calls.append({k: np.array(v, copy=True) for k, v in kw.items() if k in ("sample_ploidy", "sample_parents", "gamete_tau", "gamete_lambda", "gamete_error", "sample_read_dists", "sample_read_counts")})
            calls[-1]["positional"] = len(a)
            return real_sampler(*a, **kw)

        def spy_inc(trace, sample_ploidy, sample_parents, gamete_tau, gamete_lambda):
            inc_calls.append({"sample_ploidy": np.array(sample_ploidy), "sample_parents": np.array(sample_parents), "gamete_tau": np.array(gamete_tau), "gamete_lambda": np.array(gamete_lambda)})
            return real_inc(trace, sample_ploidy, sample_parents, gamete_tau, gamete_lambda)

        datas = []
        try:
            with warnings.catch_warnings():
                warnings.simplefilter("error", RuntimeWarning)
                with monitors.patched((pclasses, "mcmc_sampler", spy_sampler), (pclasses, "_trace_incongruence", spy_inc)):
                    po = P.cli(["mchap"] + argv)
                    seen_data = []
                    real_csg = po.call_sample_genotypes

                    def spy_csg(data):
                        seen_data.append(data)
                        return real_csg(data)

                    po.call_sample_genotypes = spy_csg
                    for locus in po.loci():
                        before = len(calls)
                        po.call_locus(locus, po.sample_bams)
                        datas.append((seen_data[-1], before, len(calls)))
        except Exception as ex:  # noqa: BLE001  (C18 is not about which inputs the program accepts)
            col.count("prog_runs_raised")
            col.add_to_set("prog_exceptions", "%s: %s" % (type(ex).__name__, str(ex)[:120]))
            cli.relax_warnings()
            shutil.rmtree(root, ignore_errors=True)
            continue
        cli.relax_warnings()
        col.count("prog_pedigrees_run")
        if use_tau_file or use_lam_file or use_err_file:
            col.count("prog_pedigrees_with_per_gamete_files")
        if dummy is not None:
            col.count("prog_pedigrees_with_sample_without_bam")
        by_name = {name[i]: i for i in range(n)}
        for d, lo, hi in datas:
            S = list(d.samples)
            if sorted(S) != sorted(by_name):
                col.violation("program-pedigree-differs-from-files", "call-pedigree works on samples %s, the input files name %s" % (S, sorted(by_name)), case)
                break
            if S != [name[i] for i in range(n)]:
                col.count("prog_pedigrees_order_differs_from_file")
            idx = [by_name[x] for x in S]
            pos = {x: k for k, x in enumerate(S)}
            want = {
                "sample_ploidy": np.array([ploidies[i] for i in idx]),
                "sample_parents": np.array([[pos[name[p]] if p >= 0 else -1 for p in parents[i]] for i in idx]),
                "gamete_tau": np.array([list(tau[i]) for i in idx]),
                "gamete_lambda": np.array([[lam[(i, 0)], lam[(i, 1)]] for i in idx]),
                "gamete_error": np.array([[err[(i, 0)], err[(i, 1)]] for i in idx]),
            }
            bad = None
            if hi == lo:
                col.count("prog_loci_without_sampler_call")
            for c in calls[lo:hi]:
                col.count("prog_sampler_calls_checked")
                if c["positional"]:
                    col.inconclusive_note("mcmc_sampler was called with positional arguments; the spy reads keywords only")
                    continue
                for k, w in want.items():
                    g = c.get(k)
                    if g is None or g.shape != w.shape or not np.allclose(g, w, rtol=0, atol=1e-12):
                        bad = bad or "%s given to the sampler is %s, the files say %s (sample order %s)" % (k, None if g is None else g.tolist(), w.tolist(), S)
                # reads: row i must be sample i's own de-duplicated reads, padded with zero counts
                g_r, g_c = c.get("sample_read_dists"), c.get("sample_read_counts")
                for k2, smp in enumerate(S):
                    rd, rc = np.asarray(d.read_dists[smp]), np.asarray(d.read_counts[smp])
                    m = len(rc)
                    if g_c is None or g_r is None or not (np.array_equal(g_c[k2, :m], rc) and np.all(g_c[k2, m:] == 0) and np.array_equal(g_r[k2, :m], rd, equal_nan=True)):
                        bad = bad or "row %d of the reads given to the sampler is not sample %s's own reads" % (k2, smp)
                        break
            for c in inc_calls[-(1 if hi > lo else 0):] if hi > lo else []:
                col.count("prog_incongruence_calls_checked")
                for k in ("sample_ploidy", "sample_parents", "gamete_tau", "gamete_lambda"):
                    if c[k].shape != want[k].shape or not np.allclose(c[k], want[k], rtol=0, atol=1e-12):
                        bad = bad or "%s given to the PEDERR computation is %s, the files say %s" % (k, c[k].tolist(), want[k].tolist())
            if bad:
                col.violation("program-pedigree-differs-from-files", "call-pedigree locus %s: %s" % (d.locus.name, bad), case)
                break
        if inst == 0 and spec["shard"] == 70:
            col.sample({"prog": {"argv": argv[1:6] + ["..."], "samples": [name[i] for i in range(n)], "parents": [list(x) for x in parents], "tau": [list(x) for x in tau]}})
        shutil.rmtree(root, ignore_errors=True)


def run_shard(tier, seed, spec, col):
    if spec.get("kind") == "prog":
        return run_prog(tier, seed, spec, col)
    if spec.get("kind") == "samplestep":
        return run_samplestep(tier, seed, spec, col)
    if spec.get("kind") == "orch":
        return run_orch(tier, seed, spec, col)
    names = sorted(pedgen.SCENARIOS)
    for i in range(spec["instances"]):
        rng = gen.rng_for(seed, ID, spec["shard"], i)
        name = names[(spec["shard"] * spec["instances"] + i) % len(names)]
        if i % 4 == 3:
            name = "random"  # random pedigree DAG (selfing, unknown parents, mixed ploidy, unbalanced / clonal gametes)
        I = pedgen.make_pedigree(rng, name)
        check_instance(I, rng, col, spec["shard"] * 100000 + i, tier)
        if i == 0 and spec["shard"] == 0:
            col.sample({"instance": pedgen.pack(I)})
    col.count("scenarios_seen", len(col.sets.get("scenarios", ())))


def replay(obj, col):
    c = obj["case"]
    I = pedgen.unpack(c["instance"])
    rng = np.random.default_rng(0)
    check_instance(I, rng, col, 0, "thorough", states_override=[np.array(c["state"], dtype=np.int16)])
