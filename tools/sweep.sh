#!/bin/bash
# tools/sweep.sh <tier> <seed> [<seed> ...]   runs every registered check serially; appends verdicts to .work/sweep.log
cd /verif; tier="$1"; shift
mkdir -p .work
for seed in "$@"; do
  for id in $(cat checks/REGISTERED); do
    t0=$(date +%s)
    out=$(VERIF_SEED=$seed timeout ${SWEEP_TIMEOUT:-5400} ./check $id $tier 2>&1); rc=$?
    t1=$(date +%s)
    echo "$(date +%H:%M) $id $tier seed=$seed rc=$rc wall=$((t1-t0))s $(echo "$out" | grep -E '^(VIOLATION|INCONCLUSIVE|KNOWN-FINDING)' | head -3 | cut -c1-200 | tr '\n' ' ')" >> .work/sweep.log
  done
done
