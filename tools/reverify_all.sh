#!/bin/bash
# Re-runs every seeded change and every mutant against the check of its property (quick tier); appends to .work/reverify.log
cd /verif; mkdir -p .work; : > .work/reverify.log
run() { tools/run_mutant.sh "$1" "$2" 2>&1 | cut -c1-260 >> .work/reverify.log; }
export -f run
{
for d in seeded/*/; do p=$(python3 -c "import json;print(json.load(open('$d/meta.json'))['breaks_property'])"); echo "$d/patch.diff $p"; done
for m in mutants/*.diff; do b=$(basename $m); id=$(echo $b | cut -c1-3 | tr a-z A-Z); case $b in *candidate_fix*) continue;; esac; echo "$m $id"; done
} | xargs -P 3 -L 1 bash -c 'run $0 $1'
echo DONE >> .work/reverify.log
