"""C06 - read extraction: the matrix fed to inference is exactly the filtered pileup.

Monitors
  * function level: return values of the real extract_read_variants (read_dicts=True and matrix mode),
    encode_read_alleles and encode_read_distributions on generated BAMs, for loci built the way the programs build them
    (Locus(...).set_sequence(fasta).set_variants(vcf));
  * program level: the assemble program object built by the real argument parser (program.cli([...])), then
    prog._locus_data + prog.encode_sample_reads per locus: read_calls / read_dists / read_counts and
    sampledata DP / RCOUNT / RCALLS / SNVDP;
  * CLI level: FORMAT DP / RCOUNT / RCALLS / SNVDP text of full in-process `mchap assemble --report SNVDP` runs, parsed with the
    independent VCF parser;
  * fault injection: VCF REF != FASTA, and BAM (MD) reference base != VCF REF, must raise and emit no record for that locus.
Oracle (this file + vlib/datasets.walk_alignment, never imports mchap): the generator keeps every alignment it wrote; the
filter cascade, read-group -> sample map, merge by read name, base -> listed allele map, probability encoding, multiset
de-duplication and the four counts are recomputed from those records.
"""

import math
import os
import shutil
import warnings
from collections import Counter

import numpy as np

from vlib import datasets as D
from vlib import cli, env, gen
from vlib.report import digest

ID = "C06"
TECHNIQUE = "runtime monitoring: return values of extract_read_variants / encode_read_alleles / encode_read_distributions, the read arrays and DP/RCOUNT/RCALLS/SNVDP left by the real assemble program's encode_sample_reads, and the FORMAT text of in-process CLI runs, on generated hostile BAMs; independent pileup oracle from the generator's own alignment records; base-quality runs with the de-duplicated (row, count) pairs matched one-to-one against per-read quality intervals"
LEVEL = "exploration"
LEVEL_TEXT = (
    "Exploration: on generated datasets (1-3 contigs, loci with 0-8 SNVs of 2-4 alleles, 1-3 samples per BAM, 1-3 read groups "
    "per sample, single and paired reads with overlapping mates that agree / disagree / are filtered separately, CIGARs with "
    "M/I/D/S/N/=/X/H, flags 0x4/0x100/0x200/0x400/0x800 and combinations, MAPQ in {0,t-1,t,t+1,255,60} for t in {0,1,20,30}, "
    "hand-made alignments abutting / overlapping the locus boundary by one base, samples without reads) the real extraction "
    "functions were called for all 8 keep-flag combinations, both read-group fields, one / several / all samples, and the real "
    "assemble program (built by its own argument parser, with and without --sample-pool) was observed after encode_sample_reads "
    "and through its VCF text. Every returned read name, every cell, every allele index, every probability entry, the expanded "
    "multiset of de-duplicated rows, RCOUNT and RCALLS were compared exactly with the oracle; SNVDP/DP exactly where every "
    "contributing base is a listed allele and mates agree, otherwise bracketed between listed-allele calls and aligned bases. "
    "Reference-consistency faults (VCF REF != FASTA, BAM MD base != VCF REF) were injected and had to raise without a record. "
    "Held on what was observed; inputs outside the generator's envelope (CRAM, reads without RG, lower-case bases, MNP/indel "
    "records in the SNV file, the other programs' use of the same base class) were not exercised."
)
LEVEL_TEXT += " Session 3: every dataset's variants file may carry split multi-allelic records and non-SNV records (which the programs must merge / ignore); a CRAM copy of each BAM must give identical read dictionaries and identical records."
LEVEL_NOTE = (
    "Trusts pysam to write the BAM the generator describes (the oracle reads the generator's records, not the BAM), the CIGAR walker "
    "vlib/datasets.walk_alignment and the oracle in this file. Probability entries compared to 1e-9 relative. DP is taken to be "
    "round(mean SNVDP) with either rounding accepted at exact .5; DP/SNVDP of loci without SNVs are not constrained. With "
    "--use-base-phred-scores (thorough tier only) a cell merged from agreeing mates may carry any quality between the smallest "
    "single quality and the sum."
)
RULE = (
    "function case = one extract_read_variants call (dataset, BAM, locus, sample selection, read-group field, MAPQ threshold, "
    "3 keep flags); program case = one (program configuration, locus) encode_sample_reads observation; CLI case = one record; "
    "non-trivial = at least one alignment overlapping the locus is removed by the cascade or merged with its mate and at least one "
    "read contributes; distinct by hash of (overlapping alignment records, locus SNVs, configuration)"
)
LEVEL_TEXT += " With --use-base-phred-scores (half of the quick datasets) the de-duplicated (row, count) pairs expand one-to-one to the per-read probabilities the reads' own base qualities give."
LEVEL_TEXT += ' Session 4: every twelfth dataset is one wide locus of 130-200 SNVs with reads of 40-110 bases (matrix columns beyond int8).'
ASSUMPTIONS = [
    "an alignment overlaps a locus iff its reference span [pos, end) intersects [locus.start, locus.stop) (what a BAM region fetch returns)",
    "secondary alignments (0x100) are not excluded: the statement does not list them",
    "rows are per read name within one (pool member, BAM); the same name in two pool members gives two rows",
    "row order and the order of de-duplicated rows are not part of the property",
    "depth of a cell holding a non-listed base or disagreeing mates is ambiguous in the statement: SNVDP/DP are bracketed there",
    "an error is required only when a read that passes the filters has an aligned base at the inconsistent position",
]
TOL = 1e-9
THRESHOLDS = [0, 1, 20, 30]
DEFAULT_ERR = 0.0024
FILTER_FLAGS = (D.FLAG_UNMAP, D.FLAG_SECONDARY, D.FLAG_QCFAIL, D.FLAG_DUP, D.FLAG_SUPP)
FLAG_NAMES = {D.FLAG_UNMAP: "unmapped", D.FLAG_SECONDARY: "secondary", D.FLAG_QCFAIL: "qcfail", D.FLAG_DUP: "duplicate", D.FLAG_SUPP: "supplementary"}


# ---------------------------------------------------------------------------------------------------------------------
# plan


def plan(tier, seed):
    k = 1 if tier == "quick" else 10
    specs = [{"name": "s%02d" % i, "shard": i, "datasets": 30 * k, "timeout": 1500 if tier == "quick" else 7200} for i in range(16)]
    specs += [{"name": "cram%d" % i, "kind": "cram", "shard": i, "datasets": 6 * k, "timeout": 7200} for i in range(2)]
    return specs


def required(tier):
    k = 1 if tier == "quick" else 8
    req = {
        "datasets": 450, "fn_calls": 5600, "fn_calls_matrix_mode": 5600, "fn_names_checked": 55000, "fn_cells_checked": 150000,
        "fn_alleles_checked": 150000, "fn_dist_cells_checked": 150000, "fn_select_all": 2200, "fn_select_one": 2500, "fn_select_subset": 730,
        "prog_configs": 320, "prog_sample_loci": 4400, "prog_rows_checked": 29000, "prog_dedup_with_count_gt1": 4400,
        "prog_rcount_checked": 4400, "prog_rcount_includes_all_gap_rows": 2500, "prog_rcalls_checked": 4400, "prog_snvdp_exact": 2500,
        "prog_snvdp_bracketed": 1100, "prog_dp_checked": 3700, "prog_pool_configs": 140, "prog_pool_sample_in_two_pools": 70,
        "prog_pool_single_name": 28, "prog_pool_multi_member_loci": 930,
        "cli_runs": 160, "cli_records": 630, "cli_sample_fields_checked": 2200, "cli_snvdp_exact": 1100, "cli_snvdp_bracketed": 620,
        "inject_vcf_ref_locus_raised": 100, "inject_vcf_ref_cli_raised": 26, "inject_md_ref_fn_raised": 490, "inject_md_ref_cli_raised": 26, "inject_md_ref_partial_raised": 300,
        "cigar_I": 6100, "cigar_D": 11000, "cigar_S": 11000, "cigar_N": 5900, "cigar_EQ": 6000, "cigar_X": 3500, "cigar_H": 5700,
        "cells_deleted": 860, "cells_skipped": 1100, "cells_clipped": 1100,
        "flag_unmapped_excluded": 7100, "flag_secondary_kept": 7800, "flag_qcfail_excluded": 13000, "flag_qcfail_kept": 6300,
        "flag_duplicate_excluded": 13000, "flag_duplicate_kept": 6400, "flag_supplementary_excluded": 7600, "flag_supplementary_kept": 3800,
        "flag_combination_seen": 14000,
        "abut_left_excluded": 10000, "abut_right_excluded": 12000, "overlap_one_base_contributes": 13000, "rows_all_gap": 17000,
        "softclip_reaches_into_locus_excluded": 10000,
        "cells_mates_agree": 8800, "cells_mates_disagree": 2200, "names_one_mate_filtered": 3200, "cells_non_listed_base": 2100,
        "field_SM": 2900, "field_ID": 2900, "loci_zero_snvs": 1000, "sample_loci_no_reads": 2300,
        "samples_per_bam_1": 53, "samples_per_bam_2": 53, "samples_per_bam_3": 53,
        "rgs_per_sample_1": 150, "rgs_per_sample_2": 150, "rgs_per_sample_3": 150,
        "datasets_rg_id_equals_other_sample_name": 50, "same_name_in_two_read_groups_or_files": 820,
    }
    for c in range(8):
        req["keep_combo_%d" % c] = 700
    for t in THRESHOLDS:
        req["minq_%d_eq" % t] = 1500
        req["minq_%d_plus1" % t] = 1500
        req["minq_%d_255" % t] = 1500
        if t > 0:
            req["minq_%d_minus1" % t] = 1500
            req["minq_%d_zero" % t] = 1500
    req["cram_runs_compared"] = 10
    req["cram_records_compared"] = 20
    req["cram_read_dicts_compared"] = 30
    if tier == "thorough":
        req = {n: v * k for n, v in req.items()}
        req.update({"phred_fn_cells_checked": 500000, "phred_fn_merged_cells": 80000, "phred_prog_rows_checked": 80000,
                    "phred_prog_dedup_columns_matched": 20000, "phred_prog_dedup_groups_with_unequal_qualities": 5000})
    else:
        req.update({"phred_fn_cells_checked": 20000, "phred_fn_merged_cells": 2000, "phred_prog_rows_checked": 3000,
                    "phred_prog_dedup_columns_matched": 1000, "phred_prog_dedup_groups_with_unequal_qualities": 200})
    return req


# ---------------------------------------------------------------------------------------------------------------------
# oracle (no mchap)


def passes(a, cfg):
    """The documented cascade for one alignment record."""
    f = a["flag"]
    if f & D.FLAG_UNMAP:
        return False
    if a["mapq"] < cfg["minq"]:
        return False
    if (f & D.FLAG_DUP) and not cfg["keep_dup"]:
        return False
    if (f & D.FLAG_QCFAIL) and not cfg["keep_qcf"]:
        return False
    if (f & D.FLAG_SUPP) and not cfg["keep_sup"]:
        return False
    return True


def why_excluded(a, cfg):
    f = a["flag"]
    if f & D.FLAG_UNMAP:
        return "unmapped-read-used"
    if a["mapq"] < cfg["minq"]:
        return "low-mapq-read-used"
    if (f & D.FLAG_DUP) and not cfg["keep_dup"]:
        return "duplicate-read-used"
    if (f & D.FLAG_QCFAIL) and not cfg["keep_qcf"]:
        return "qcfail-read-used"
    if (f & D.FLAG_SUPP) and not cfg["keep_sup"]:
        return "supplementary-read-used"
    return None


class Pre:
    """Per dataset: every alignment walked once; per (bam, locus) the overlapping alignments with their SNV cells."""

    def __init__(self, ds):
        self.ds = ds
        self.walked = {}
        for bam, alns in ds.bam_alignments.items():
            self.walked[bam] = [(a,) + D.walk_alignment(a) for a in alns]
        self.cand = {}
        self.near = {}
        for bam in ds.bams:
            for li, loc in enumerate(ds.loci):
                pos = [v["pos0"] for v in loc["snvs"]]
                c, n = [], []
                for a, bases, span in self.walked[bam]:
                    if a["contig"] != loc["contig"]:
                        continue
                    s, e = span[0], max(span[1], span[0] + 1)
                    if s < loc["stop"] and e > loc["start"]:
                        c.append((a, [bases.get(p) for p in pos], (s, e)))
                    elif e == loc["start"] or s == loc["stop"]:
                        n.append((a, (s, e)))
                self.cand[(bam, li)] = c
                self.near[(bam, li)] = n

    def alleles(self, li):
        return [tuple([v["ref"]] + list(v["alts"])) for v in self.ds.loci[li]["snvs"]]

    def keys(self, bam, field):
        """sample keys of a BAM in header order (unique)."""
        out = []
        for rg in self.ds.bam_rgs[bam]:
            if rg[field] not in out:
                out.append(rg[field])
        return out

    def rows(self, bam, li, field, member, cfg):
        """dict qname -> list over SNVs of [(base, qual), ...] from contributing alignments of `member`."""
        rg2s = {rg["ID"]: rg[field] for rg in self.ds.bam_rgs[bam]}
        n = len(self.ds.loci[li]["snvs"])
        rows = {}
        for a, cells, _ in self.cand[(bam, li)]:
            if rg2s.get(a["rg"]) != member or not passes(a, cfg):
                continue
            r = rows.setdefault(a["qname"], [[] for _ in range(n)])
            for j, c in enumerate(cells):
                if c is not None:
                    r[j].append(c)
        return rows


def classify(obs, alleles):
    """('gap'|'call'|'other'|'conflict', allele index or -1, base or None) for one cell."""
    if not obs:
        return "gap", -1, None
    bases = {b for b, _ in obs}
    if len(bases) > 1:
        return "conflict", -1, None
    b = next(iter(bases))
    if b in alleles:
        return "call", alleles.index(b), b
    return "other", -1, b


def match_points_to_intervals(points, intervals):
    """None if the points can be matched one-to-one with intervals containing them (greedy, optimal for intervals on a line)."""
    if len(points) != len(intervals):
        return "%d probabilities for %d reads" % (len(points), len(intervals))
    free = sorted(((lo * (1 - TOL), hi * (1 + TOL)) for lo, hi in intervals), key=lambda iv: iv[1])
    for x in sorted(points):
        pick = None
        for i, (lo, hi) in enumerate(free):
            if lo <= x <= hi:
                pick = i
                break
        if pick is None:
            return "probability %r (expanded %s) fits no remaining read; per-read ranges %s" % (x, sorted(points)[:6], sorted(intervals)[:6])
        free.pop(pick)
    return None


def call_row(row, alleles):
    return tuple(classify(o, al)[1] for o, al in zip(row, alleles))


def depth_bounds(rows, alleles):
    """per SNV (lo, hi): listed-allele calls, any aligned base."""
    n = len(alleles)
    lo, hi = [0] * n, [0] * n
    for row in rows:
        for j in range(n):
            kind = classify(row[j], alleles[j])[0]
            if kind != "gap":
                hi[j] += 1
            if kind == "call":
                lo[j] += 1
    return lo, hi


def expected_prob(call, na, width, e):
    if call < 0:
        return None
    v = [0.0] * width
    for k in range(na):
        v[k] = e / 3
    v[call] = 1 - e
    return v


def close(a, b):
    return abs(a - b) <= TOL * max(abs(a), abs(b), 1e-300) + 1e-15


def check_prob_cell(v, call, na, e, p_called=None):
    """v: observed vector for one cell.  Returns None or message."""
    width = len(v)
    if width < na:
        return "vector of width %d for a SNV with %d alleles" % (width, na)
    if call < 0:
        if not all(math.isnan(x) for x in v[:na]):
            return "no-call cell is not NaN: %s" % list(v)
        if not all(math.isnan(x) or x == 0 for x in v[na:]):
            return "no-call cell has mass beyond the allele count: %s" % list(v)
        return None
    p = (1 - e) if p_called is None else p_called
    for k in range(width):
        want = p if k == call else ((1 - p) / 3 if k < na else 0.0)
        x = v[k]
        if math.isnan(x) or not close(x, want):
            return "entry %d is %r, want %r (called allele %d of %d, correct-call probability %r): %s" % (k, x, want, call, na, p, list(v))
    return None


def decode_cell(v, na):
    """observed vector -> call (argmax within the allele count) or -1 for NaN."""
    if all(math.isnan(x) for x in v[:na]):
        return -1
    if any(math.isnan(x) for x in v[:na]):
        return None
    return int(np.argmax(v[:na]))


def dp_interval(mean_lo, mean_hi):
    return math.ceil(mean_lo - 0.5 - 1e-9), math.floor(mean_hi + 0.5 + 1e-9)


def as_number(x):
    """float or None (missing) from an observed python / numpy / text value."""
    if x is None:
        return None
    if isinstance(x, str):
        if x == ".":
            return None
        return float(x)
    x = float(x)
    return x


def check_counts(obs, rows, alleles, where, col, prefix):
    """obs: dict DP/RCOUNT/RCALLS/SNVDP (numbers, list or None).  rows: list of expected rows.  Returns findings."""
    out = []
    n = len(alleles)
    want_rcount = len(rows)
    want_rcalls = sum(1 for r in rows for j in range(n) if classify(r[j], alleles[j])[0] == "call")
    rc = as_number(obs["RCOUNT"])
    col.count(prefix + "_rcount_checked")
    if rc is None or rc != want_rcount:
        out.append(("rcount-wrong", "%s: RCOUNT %r, filtered pileup has %d read names" % (where, obs["RCOUNT"], want_rcount)))
    rl = as_number(obs["RCALLS"])
    col.count(prefix + "_rcalls_checked")
    if rl is None or rl != want_rcalls:
        out.append(("rcalls-wrong", "%s: RCALLS %r, filtered pileup has %d listed-allele calls (%d rows x %d SNVs)" % (where, obs["RCALLS"], want_rcalls, want_rcount, n)))
    if n == 0:
        col.count(prefix + "_zero_snv_depth_unconstrained")
        return out
    lo, hi = depth_bounds(rows, alleles)
    exact = lo == hi
    sd = obs["SNVDP"]
    sd_ok = False
    if sd is None:
        col.count(prefix + "_snvdp_not_reported")
    else:
        vals = [as_number(x) for x in (sd if isinstance(sd, (list, tuple, np.ndarray)) else [sd])]
        col.count(prefix + ("_snvdp_exact" if exact else "_snvdp_bracketed"))
        if len(vals) != n or any(v is None or math.isnan(v) for v in vals):
            out.append(("snvdp-outside-bounds", "%s: SNVDP %r for %d SNVs" % (where, sd, n)))
        else:
            bad = [j for j in range(n) if not (lo[j] <= vals[j] <= hi[j]) or vals[j] != int(vals[j])]
            if bad:
                j = bad[0]
                out.append(("snvdp-outside-bounds", "%s: SNVDP %s; at SNV %d the filtered pileup has %d listed-allele calls and %d aligned bases%s"
                            % (where, [float(v) for v in vals], j, lo[j], hi[j], " (unambiguous)" if lo[j] == hi[j] else "")))
            else:
                sd_ok = True
    dp = as_number(obs["DP"])
    col.count(prefix + "_dp_checked")
    a, b = dp_interval(sum(lo) / n, sum(hi) / n)
    if dp is None or math.isnan(dp) or dp != int(dp) or not (a <= dp <= b):
        out.append(("dp-outside-bounds", "%s: DP %r; mean depth over the %d SNVs is between %.4g (listed-allele calls) and %.4g (aligned bases)" % (where, obs["DP"], n, sum(lo) / n, sum(hi) / n)))
    elif sd_ok:
        m = sum(vals) / n
        a, b = dp_interval(m, m)
        if not (a <= dp <= b):
            out.append(("dp-not-mean-of-snvdp", "%s: DP %r but SNVDP %s has mean %.4g" % (where, obs["DP"], vals, m)))
    return out


# ---------------------------------------------------------------------------------------------------------------------
# dataset generation


def position_status(a, p):
    """'M' aligned, 'D' deleted, 'N' skipped, 'S' where a soft clip would lie, None outside (counters only)."""
    cig = [(op, ln) for op, ln in a["cigar"] if op != "H"]
    r = a["pos0"]
    if cig and cig[0][0] == "S" and r - cig[0][1] <= p < r:
        return "S"
    for i, (op, ln) in enumerate(cig):
        if op in "M=X":
            if r <= p < r + ln:
                return "M"
            r += ln
        elif op in "DN":
            if r <= p < r + ln:
                return op
            r += ln
        elif op == "S" and i > 0:
            if r <= p < r + ln:
                return "S"
    return None


def query_indices_at_snvs(a, snvs):
    """[(query index, snv)] for SNVs at which the alignment has an aligned base (generator side)."""
    want = {v["pos0"]: v for v in snvs if v["contig"] == a["contig"]}
    out = []
    r, q = a["pos0"], 0
    for op, ln in a["cigar"]:
        if op in "M=X":
            for i in range(ln):
                if r + i in want:
                    out.append((q + i, want[r + i]))
            r += ln
            q += ln
        elif op in "IS":
            q += ln
        elif op in "DN":
            r += ln
    return out


def random_quals(rng, n):
    return "".join(chr(33 + int(q)) for q in rng.choice([2, 3, 5, 10, 20, 30, 37, 40, 41], size=n))


def case_params(seed, shard, index):
    rng = gen.rng_for(seed, ID, shard, index)
    g = shard * 1000 + index
    spb = 1 + g % 3
    p = {
        "t": THRESHOLDS[(g // 3) % 4],
        "samples_per_bam": spb,
        "n_bams": int(rng.integers(1, 3)),
        "rgs": (1, 3),
        "n_contigs": int(rng.integers(1, 4)),
        "n_loci": int(rng.integers(3, 6)),
        "snv_hi": int(rng.choice([3, 6, 8])),
        "clean": bool(rng.random() < 0.2),
        "empty_sample": bool(spb <= 2 and rng.random() < 0.6),
        "cross_ids": bool(spb >= 2 and rng.random() < 0.5),
    }
    # session 4: every twelfth dataset is one wide locus of 130-200 SNVs (column numbers beyond int8 in the read matrix)
    p["wide"] = bool(g % 12 == 7)
    if p["wide"]:
        p.update(n_contigs=1, n_loci=1, n_bams=1)
    return rng, p


def build_dataset(rng, p, root):
    clean = p["clean"]
    wide = bool(p.get("wide"))
    ds = D.make_dataset(
        rng, root, n_samples=p["samples_per_bam"] * p["n_bams"], n_loci=p["n_loci"], ploidy=(2, 4), depth=(3, 12), n_contigs=p["n_contigs"],
        contig_len=1300 if wide else 420, hostile=0.3 if clean else 0.6, err=0.0 if clean else 0.03, flags=True, paired=0.0 if clean else 0.45,
        rgs_per_sample=p["rgs"], samples_per_bam=p["samples_per_bam"], snv_range=(130, 200) if wide else (0, p["snv_hi"]), multi_allelic=0.4,
        read_len=(40, 110) if wide else (12, 45), mapq_threshold=p["t"], mate_disagree=0.4, **({"locus_len": (280, 380)} if wide else {}),
    )
    info = {"boundary": {}}
    for bi, bam in enumerate(ds.bams):
        alns = ds.bam_alignments[bam]
        rgs = ds.bam_rgs[bam]
        # extra flag combinations and base qualities (make_dataset writes 30-40 only)
        for a in alns:
            if rng.random() < 0.06:
                a["flag"] |= int(rng.choice([D.FLAG_SUPP | D.FLAG_DUP, D.FLAG_SECONDARY | D.FLAG_QCFAIL, D.FLAG_SUPP | D.FLAG_QCFAIL, D.FLAG_SECONDARY | D.FLAG_DUP,
                                             D.FLAG_SUPP | D.FLAG_SECONDARY, D.FLAG_DUP | D.FLAG_QCFAIL | D.FLAG_SUPP, D.FLAG_SECONDARY]))
            a["qual"] = random_quals(rng, len(a["seq"]))
            if not p["clean"] and rng.random() < 0.12:
                # a base that is not a listed allele (or an N) at one SNV the alignment covers
                hits = query_indices_at_snvs(a, ds.snvs)
                if hits:
                    qi, v = hits[int(rng.integers(len(hits)))]
                    free = [b for b in "ACGTN" if b not in [v["ref"]] + list(v["alts"])]
                    a["seq"] = a["seq"][:qi] + free[int(rng.integers(len(free)))] + a["seq"][qi + 1 :]
        if p.get("cross_ids"):
            # read-group ID of one sample equals the NAME of another sample of the same BAM (SM / ID confusion must show)
            sms = []
            for rg in rgs:
                if rg["SM"] not in sms:
                    sms.append(rg["SM"])
            sa, sb = sms[0], sms[1]
            ren = {"%s_rg0" % sa: sb, "%s_rg0" % sb: sa}
            for rg in rgs:
                rg["ID"] = ren.get(rg["ID"], rg["ID"])
            for a in alns:
                a["rg"] = ren.get(a["rg"], a["rg"])
            for sname in (sa, sb):
                ds.sample_rgs[sname] = [ren.get(i, i) for i in ds.sample_rgs[sname]]
            info["cross"] = True
        # hand-made alignments around the locus boundaries
        k = 0
        for loc in ds.loci:
            c = loc["contig"]
            ref = ds.contigs[c]
            rg = rgs[int(rng.integers(len(rgs)))]["ID"]
            for kind in ("abut_left", "abut_right", "one_left", "one_right", "clip_left", "clip_right"):
                ln = int(rng.integers(6, 16))
                if kind == "abut_left":
                    pos0, cigar = loc["start"] - ln, [("M", ln)]
                elif kind == "abut_right":
                    pos0, cigar = loc["stop"], [("M", ln)]
                elif kind == "one_left":
                    pos0, cigar = loc["start"] - ln + 1, [("M", ln)]
                elif kind == "one_right":
                    pos0, cigar = loc["stop"] - 1, [("M", ln)]
                elif kind == "clip_left":
                    # aligned part ends at locus.start, the soft clip would reach into the locus
                    s = int(rng.integers(2, 6))
                    pos0, cigar = loc["start"] - ln, [("M", ln), ("S", s)]
                else:
                    s = int(rng.integers(2, 6))
                    pos0, cigar = loc["stop"], [("S", s), ("M", ln)]
                if pos0 < 0 or pos0 + ln > len(ref):
                    continue
                seq = ref[pos0 : pos0 + ln]
                if kind == "clip_left":
                    seq = seq + D.random_sequence(rng, s)
                elif kind == "clip_right":
                    seq = D.random_sequence(rng, s) + seq
                # the same names are used in every BAM: pool members from different files must not be merged by name
                q = "bnd_%s_%s" % (loc["name"], kind)
                k += 1
                alns.append(D.make_alignment(q, c, pos0, cigar, seq, rg, flag=0, mapq=60, qual=random_quals(rng, len(seq))))
                if kind == "one_left":
                    # a second alignment with the SAME name inside the locus, in any read group of this BAM: merged into the
                    # same row when it belongs to the same sample under the chosen field, a separate row otherwise
                    rg2 = rgs[int(rng.integers(len(rgs)))]["ID"]
                    ln2 = int(rng.integers(10, 30))
                    p2 = int(rng.integers(loc["start"], max(loc["start"] + 1, loc["stop"] - 5)))
                    if p2 + ln2 <= len(ref):
                        alns.append(D.make_alignment(q, c, p2, [("M", ln2)], ref[p2 : p2 + ln2], rg2, flag=0, mapq=60, qual=random_quals(rng, ln2)))
                        info["twins"] = info.get("twins", 0) + 1
        if p["empty_sample"]:
            rgs.append({"ID": "EMPTY%d_rg0" % bi, "SM": "EMPTY%d" % bi})
        D.write_bam(bam, ds.contigs, rgs, alns)
    return ds, info


def draw_cfg(rng, t, combo=None):
    if combo is None:
        combo = int(rng.integers(8))
    minq = t if rng.random() < 0.7 else int(rng.choice(THRESHOLDS))
    return {"minq": int(minq), "keep_dup": bool(combo & 1), "keep_qcf": bool(combo & 2), "keep_sup": bool(combo & 4)}


def combo_of(cfg):
    return int(cfg["keep_dup"]) + 2 * int(cfg["keep_qcf"]) + 4 * int(cfg["keep_sup"])


# ---------------------------------------------------------------------------------------------------------------------
# hostile class accounting (oracle side, counters only)


def count_hostile(col, pre, bam, li, field, cfg):
    ds = pre.ds
    loc = ds.loci[li]
    pos = [v["pos0"] for v in loc["snvs"]]
    t = cfg["minq"]
    col.count("keep_combo_%d" % combo_of(cfg))
    col.count("field_%s" % field)
    by_name = {}
    for a, cells, span in pre.cand[(bam, li)]:
        ok = passes(a, cfg)
        by_name.setdefault(a["qname"], []).append(ok)
        f = a["flag"]
        nset = 0
        for bit in FILTER_FLAGS:
            if f & bit:
                nset += 1
                col.count("flag_%s_%s" % (FLAG_NAMES[bit], "kept" if ok else "excluded"))
        if nset >= 2:
            col.count("flag_combination_seen")
        m = a["mapq"]
        if m == t:
            col.count("minq_%d_eq" % t)
        if m == t + 1:
            col.count("minq_%d_plus1" % t)
        if m == t - 1:
            col.count("minq_%d_minus1" % t)
        if m == 0 and t > 0:
            col.count("minq_%d_zero" % t)
        if m == 255:
            col.count("minq_%d_255" % t)
        if ok:
            ops = {op for op, _ in a["cigar"]}
            for op in ops:
                if op != "M":
                    col.count("cigar_%s" % {"=": "EQ"}.get(op, op))
            for p in pos:
                st = position_status(a, p)
                if st == "D":
                    col.count("cells_deleted")
                elif st == "N":
                    col.count("cells_skipped")
                elif st == "S":
                    col.count("cells_clipped")
            ov = min(span[1], loc["stop"]) - max(span[0], loc["start"])
            if ov == 1:
                col.count("overlap_one_base_contributes")
    for name, oks in by_name.items():
        if len(oks) >= 2 and any(oks) and not all(oks):
            col.count("names_one_mate_filtered")
    for a, span in pre.near[(bam, li)]:
        if passes(a, cfg):
            if span[1] == loc["start"]:
                col.count("abut_left_excluded")
                if a["cigar"][-1][0] == "S":
                    col.count("softclip_reaches_into_locus_excluded")
            else:
                col.count("abut_right_excluded")
                if a["cigar"][0][0] == "S":
                    col.count("softclip_reaches_into_locus_excluded")


def case_canon(pre, bam, li, field, cfg, extra):
    ds = pre.ds
    loc = ds.loci[li]
    recs = [(a["qname"], a["flag"], a["mapq"], a["rg"], a["pos0"], a["cigar"], a["seq"]) for a, _, _ in pre.cand[(bam, li)]]
    return digest([recs, [(v["pos0"], v["ref"], v["alts"]) for v in loc["snvs"]], loc["start"], loc["stop"], field, cfg, extra,
                   [(rg["ID"], rg["SM"]) for rg in ds.bam_rgs[bam]]])


def nontrivial(pre, bam, li, cfg):
    c = pre.cand[(bam, li)]
    oks = [passes(a, cfg) for a, _, _ in c]
    names = [a["qname"] for a, _, _ in c]
    return any(oks) and (not all(oks) or len(set(names)) < len(names))


# ---------------------------------------------------------------------------------------------------------------------
# function level


def build_locus(ds, loc, vcf=None, fasta=None, order="sv"):
    from mchap.io.loci import Locus

    l0 = Locus(loc["contig"], loc["start"], loc["stop"], loc["name"], None, None)
    if order == "sv":
        return l0.set_sequence(fasta or ds.fasta).set_variants(vcf or ds.vcf)
    return l0.set_variants(vcf or ds.vcf).set_sequence(fasta or ds.fasta)


def check_locus_object(locus, loc, ds):
    """The locus handed to extraction must describe the generator's SNVs (harness sanity + reference consistency)."""
    want = [(v["pos0"], tuple([v["ref"]] + list(v["alts"]))) for v in loc["snvs"]]
    got = [(int(v.start), tuple(v.alleles)) for v in locus.variants]
    return want == got and locus.sequence == ds.contigs[loc["contig"]][loc["start"] : loc["stop"]]


def run_fn(pre, bam, li, locus, field, cfg, select, col, err, phred, found):
    """One extract_read_variants observation (dict mode + matrix mode) against the oracle."""
    import pysam

    from mchap.io.bam import encode_read_alleles, encode_read_distributions, extract_read_variants

    ds = pre.ds
    loc = ds.loci[li]
    alleles = pre.alleles(li)
    n = len(alleles)
    keys = pre.keys(bam, field)
    if select == "all":
        samples_arg, want_keys = None, list(keys)
    elif select[0] == "one":
        samples_arg, want_keys = select[1], [select[1]]
    else:
        samples_arg, want_keys = list(select[1]), [k for k in keys if k in select[1]]
    kw = dict(samples=samples_arg, id=field, min_quality=cfg["minq"], skip_duplicates=not cfg["keep_dup"], skip_qcfail=not cfg["keep_qcf"], skip_supplementary=not cfg["keep_sup"])
    where = "extract_read_variants(%s %s:%d-%d, %s, samples=%r, id=%s, min_quality=%d, skip_duplicates=%s, skip_qcfail=%s, skip_supplementary=%s)" % (
        loc["name"], loc["contig"], loc["start"], loc["stop"], os.path.basename(bam), samples_arg, field, cfg["minq"], not cfg["keep_dup"], not cfg["keep_qcf"], not cfg["keep_sup"])
    try:
        with pysam.AlignmentFile(bam) as af:
            got = extract_read_variants(locus, af, read_dicts=True, **kw)
        with pysam.AlignmentFile(bam) as af:
            gotm = extract_read_variants(locus, af, read_dicts=False, **kw)
    except Exception as ex:  # noqa: BLE001
        found.append(("extraction-raised-on-consistent-input", "%s raised %s: %s" % (where, type(ex).__name__, ex)))
        return
    col.count("fn_calls")
    col.count("fn_calls_matrix_mode")
    col.count("fn_select_" + (select if select == "all" else select[0]))
    if sorted(got) != sorted(want_keys) or sorted(gotm) != sorted(want_keys):
        found.append(("sample-keys-wrong", "%s returned samples %s / %s, read groups map to %s" % (where, sorted(got), sorted(gotm), sorted(want_keys))))
    rg2s = {rg["ID"]: rg[field] for rg in ds.bam_rgs[bam]}
    for key in want_keys:
        if key not in got or key not in gotm:
            continue
        rows = pre.rows(bam, li, field, key, cfg)
        obs = got[key]
        if not rows:
            col.count("sample_loci_no_reads")
        col.count("fn_names_checked", len(rows))
        # --- read names
        for name in obs:
            if name in rows:
                continue
            recs = [a for a, _, _ in pre.cand[(bam, li)] if a["qname"] == name]
            mine = [a for a in recs if rg2s.get(a["rg"]) == key]
            abut = [a for a, _ in pre.near[(bam, li)] if a["qname"] == name and rg2s.get(a["rg"]) == key and passes(a, cfg)]
            if abut:
                found.append(("non-overlapping-read-used", "%s: read %s only abuts the locus (reference span %s) but is in the result for sample %s" % (where, name, D.ref_span(abut[0]), key)))
            elif mine:
                mech = why_excluded(mine[0], cfg) or "filtered-read-used"
                found.append((mech, "%s: read %s (flag %d, MAPQ %d) is in the result for sample %s but the cascade excludes it" % (where, name, mine[0]["flag"], mine[0]["mapq"], key)))
            elif recs:
                found.append(("read-of-other-sample-used", "%s: read %s of read group %s (%s=%s) is in the result for sample %s" % (where, name, recs[0]["rg"], field, rg2s.get(recs[0]["rg"]), key)))
            else:
                near = [a for a, _ in pre.near[(bam, li)] if a["qname"] == name]
                found.append(("non-overlapping-read-used", "%s: read %s does not overlap the locus but is in the result for sample %s%s" % (
                    where, name, key, " (it abuts the boundary: reference span %s)" % (D.ref_span(near[0]),) if near else "")))
        for name in rows:
            if name not in obs:
                recs = [a for a, _, _ in pre.cand[(bam, li)] if a["qname"] == name and passes(a, cfg) and rg2s.get(a["rg"]) == key]
                a = recs[0]
                found.append(("contributing-read-dropped", "%s: read %s (flag %d, MAPQ %d, span %s, read group %s) overlaps the locus and passes the cascade but sample %s has no row for it"
                              % (where, name, a["flag"], a["mapq"], D.ref_span(a), a["rg"], key)))
        # --- cells
        names = [nm for nm in rows if nm in obs]
        for name in names:
            row = rows[name]
            chars = obs[name][0]
            if len(chars) != n:
                found.append(("row-length-wrong", "%s: row of read %s has %d cells for %d SNVs" % (where, name, len(chars), n)))
                continue
            if len(sum(row, [])) == 0 and n > 0:
                col.count("rows_all_gap")
            for j in range(n):
                kind, idx, base = classify(row[j], alleles[j])
                c = str(chars[j])
                col.count("fn_cells_checked")
                if kind == "call":
                    if len(row[j]) > 1:
                        col.count("cells_mates_agree")
                    if c != base:
                        mech = "aligned-base-missing" if c == "-" else ("agreeing-mates-not-called" if len(row[j]) > 1 else "wrong-base-in-cell")
                        found.append((mech, "%s: read %s SNV %d (pos %d, alleles %s): cell %r, aligned base %r" % (where, name, j, loc["snvs"][j]["pos0"], alleles[j], c, base)))
                elif kind == "gap":
                    if c in alleles[j]:
                        found.append(("unaligned-position-has-call", "%s: read %s SNV %d (pos %d): cell %r but no contributing alignment has a base aligned there" % (where, name, j, loc["snvs"][j]["pos0"], c)))
                elif kind == "conflict":
                    col.count("cells_mates_disagree")
                    if c in alleles[j]:
                        found.append(("disagreeing-mates-called", "%s: read %s SNV %d (pos %d): mates carry %s but the cell is %r" % (where, name, j, loc["snvs"][j]["pos0"], sorted({b for b, _ in row[j]}), c)))
                else:
                    col.count("cells_non_listed_base")
                    if c in alleles[j]:
                        found.append(("wrong-base-in-cell", "%s: read %s SNV %d (pos %d, alleles %s): cell %r, aligned base %r" % (where, name, j, loc["snvs"][j]["pos0"], alleles[j], c, base)))
        # --- allele indices and probabilities on the observed characters, row-aligned with the names
        if names and all(len(obs[nm][0]) == n for nm in names):
            chars = np.array([obs[nm][0] for nm in names]).reshape(len(names), n)
            quals = np.array([obs[nm][1] for nm in names]).reshape(len(names), n)
            try:
                calls = encode_read_alleles(locus, chars)
                dists = encode_read_distributions(locus, calls, None, error_rate=err)
                pd = encode_read_distributions(locus, calls, quals, error_rate=err) if phred else None
            except Exception as ex:  # noqa: BLE001
                found.append(("encoding-raised-on-consistent-input", "%s: encoding the rows of sample %s raised %s: %s" % (where, key, type(ex).__name__, ex)))
                continue
            if calls.shape != (len(names), n) or (n > 0 and (dists.ndim != 3 or dists.shape[:2] != (len(names), n))):
                found.append(("row-length-wrong", "%s: encoded arrays have shapes %s %s for %d rows x %d SNVs" % (where, calls.shape, dists.shape, len(names), n)))
                continue
            bad_a = bad_p = bad_q = 0
            for i, name in enumerate(names):
                row = rows[name]
                for j in range(n):
                    kind, idx, base = classify(row[j], alleles[j])
                    # the observed character decides what the encoders were given; the oracle's index is for the aligned base
                    c = str(chars[i, j])
                    given = alleles[j].index(c) if c in alleles[j] else -1
                    col.count("fn_alleles_checked")
                    if int(calls[i, j]) != given and not bad_a:
                        bad_a = 1
                        found.append(("allele-index-wrong", "%s: encode_read_alleles gives %d for %r at SNV %d with alleles %s (read %s)" % (where, int(calls[i, j]), c, j, alleles[j], name)))
                    col.count("fn_dist_cells_checked")
                    msg = check_prob_cell([float(x) for x in dists[i, j]], int(calls[i, j]), len(alleles[j]), err)
                    if msg and not bad_p:
                        bad_p = 1
                        found.append(("probability-encoding-wrong", "%s: encode_read_distributions(error_rate=%r) read %s SNV %d: %s" % (where, err, name, j, msg)))
                    if phred and kind == "call" and given == idx and not bad_q:
                        col.count("phred_fn_cells_checked")
                        qs = [q for _, q in row[j]]
                        if len(qs) > 1:
                            col.count("phred_fn_merged_cells")
                        v = [float(x) for x in pd[i, j]]
                        p_obs = v[idx]
                        p_hi = (1 - err) * (1 - 10 ** (-sum(qs) / 10))
                        p_lo = (1 - err) * (1 - 10 ** (-min(qs) / 10))
                        if math.isnan(p_obs) or not (p_lo * (1 - TOL) <= p_obs <= p_hi * (1 + TOL)):
                            bad_q = 1
                            found.append(("phred-probability-wrong", "%s: with base qualities, read %s SNV %d: correct-call probability %r, base qualities %s and error rate %r give [%r, %r]" % (where, name, j, p_obs, qs, err, p_lo, p_hi)))
                        else:
                            msg = check_prob_cell(v, idx, len(alleles[j]), err, p_called=p_obs)
                            if msg:
                                bad_q = 1
                                found.append(("phred-probability-wrong", "%s: with base qualities, read %s SNV %d: %s" % (where, name, j, msg)))
        # --- matrix mode returns the same rows
        mc, mq = gotm[key]
        mc = np.asarray(mc)
        if mc.ndim != 2 or mc.shape != (len(obs), n) or np.asarray(mq).shape != mc.shape:
            found.append(("matrix-mode-differs-from-read-dicts", "%s: matrix mode gives arrays of shape %s / %s for sample %s, dict mode %d reads x %d SNVs" % (where, mc.shape, np.asarray(mq).shape, key, len(obs), n)))
        else:
            a = Counter((tuple(str(x) for x in r), tuple(int(x) for x in q)) for r, q in zip(mc, np.asarray(mq)))
            b = Counter((tuple(str(x) for x in v[0]), tuple(int(x) for x in v[1])) for v in obs.values())
            if a != b:
                found.append(("matrix-mode-differs-from-read-dicts", "%s: matrix mode rows differ from dict mode rows for sample %s" % (where, key)))


# ---------------------------------------------------------------------------------------------------------------------
# program level


def sample_layout(pre, field, pool_mode, rng, root):
    """Expected {pool name: [(member, bam), ...]} and the --sample-pool argument (None / name / file path)."""
    ds = pre.ds
    members = []
    for bam in ds.bams:
        for k in pre.keys(bam, field):
            members.append((k, bam))
    if pool_mode == "none":
        return {k: [(k, b)] for k, b in members}, None, {}
    if pool_mode == "name":
        return {"POOLALL": list(members)}, "POOLALL", {"single_name": True}
    n_pools = int(rng.integers(1, max(2, len(members))))
    names = ["P%d" % i for i in range(n_pools)]
    lines = []
    for k, b in members:
        lines.append((k, names[int(rng.integers(n_pools))]))
    twice = None
    if n_pools >= 2:
        k, b = members[int(rng.integers(len(members)))]
        cur = [pn for kk, pn in lines if kk == k][0]
        other = [pn for pn in names if pn != cur]
        lines.append((k, other[int(rng.integers(len(other)))]))
        twice = k
    order = rng.permutation(len(lines))
    lines = [lines[i] for i in order]
    bam_of = dict(members)
    layout = {}
    for k, pn in lines:
        layout.setdefault(pn, []).append((k, bam_of[k]))
    path = os.path.join(root, "pools_%s_%d.tsv" % (field, int(rng.integers(1 << 30))))
    with open(path, "w") as fh:
        for k, pn in lines:
            fh.write("%s\t%s\n" % (k, pn))
    return layout, path, {"twice": twice}


def build_argv(ds, cfg, field, pool_arg, err, phred, vcf=None, bams=None):
    a = ["assemble", "--bam"] + list(bams or ds.bams) + ["--reference", ds.fasta, "--variants", vcf or ds.vcf, "--targets", ds.bed,
                                                          "--mapping-quality", str(cfg["minq"]), "--read-group-field", field,
                                                          "--mcmc-steps", "60", "--mcmc-burn", "30", "--report", "SNVDP"]
    if cfg["keep_dup"]:
        a.append("--keep-duplicate-reads")
    if cfg["keep_qcf"]:
        a.append("--keep-qcfail-reads")
    if cfg["keep_sup"]:
        a.append("--keep-supplementary-reads")
    if pool_arg is not None:
        a += ["--sample-pool", pool_arg]
    if err != DEFAULT_ERR:
        a += ["--base-error-rate", repr(err)]
    if phred:
        a.append("--use-base-phred-scores")
    return a


def expected_pool_rows(pre, li, field, members, cfg):
    rows = []
    for member, bam in members:
        rows.extend(pre.rows(bam, li, field, member, cfg).values())
    return rows


def run_prog(pre, cfg, field, layout, argv, err, phred, col, found, pool_info):
    """Program object built by the real parser; encode_sample_reads observed per locus."""
    import mchap.io.vcf.formatfields as FORMAT
    from mchap.application.assemble import program

    ds = pre.ds
    try:
        prog = program.cli(["mchap"] + argv)
    except Exception as ex:  # noqa: BLE001
        found.append(("program-construction-raised", "mchap %s: building the program raised %s: %s" % (" ".join(argv), type(ex).__name__, ex)))
        return
    col.count("prog_configs")
    col.count("keep_combo_%d" % combo_of(cfg))
    col.count("field_%s" % field)
    multi = any(len(m) > 1 for m in layout.values())
    if multi or pool_info.get("single_name"):
        col.count("prog_pool_configs")
    if pool_info.get("twice"):
        col.count("prog_pool_sample_in_two_pools")
    if pool_info.get("single_name"):
        col.count("prog_pool_single_name")
    if sorted(prog.samples) != sorted(layout):
        found.append(("sample-keys-wrong", "mchap %s: program samples %s, expected %s" % (" ".join(argv), sorted(prog.samples), sorted(layout))))
        return
    cfgtxt = "assemble program (%s)" % " ".join(x if not x.startswith("/") else os.path.basename(x) for x in argv[1:])
    by_name = {l["name"]: i for i, l in enumerate(ds.loci)}
    try:
        loci = list(prog.loci())
    except Exception as ex:  # noqa: BLE001
        found.append(("extraction-raised-on-consistent-input", "%s: building the loci raised %s: %s" % (cfgtxt, type(ex).__name__, ex)))
        return
    for locus in loci:
        li = by_name[locus.name]
        loc = ds.loci[li]
        alleles = pre.alleles(li)
        n = len(alleles)
        if not check_locus_object(locus, loc, ds):
            found.append(("locus-differs-from-inputs", "%s: locus %s built by the program has variants %s, SNV file has %s" % (cfgtxt, loc["name"], [(v.start, v.alleles) for v in locus.variants], [(v["pos0"], v["ref"], v["alts"]) for v in loc["snvs"]])))
            continue
        data = prog._locus_data(locus, prog.sample_bams)
        try:
            with warnings.catch_warnings():
                warnings.simplefilter("error", RuntimeWarning)
                prog.encode_sample_reads(data)
        except Exception as ex:  # noqa: BLE001
            cause = ex.__cause__ or ex
            found.append(("extraction-raised-on-consistent-input", "%s locus %s: encode_sample_reads raised %s: %s (cause %s: %s)" % (cfgtxt, loc["name"], type(ex).__name__, ex, type(cause).__name__, cause)))
            continue
        if n == 0:
            col.count("loci_zero_snvs")
        for pool, members in layout.items():
            where = "%s locus %s sample %s%s" % (cfgtxt, loc["name"], pool, "" if len(members) == 1 and members[0][0] == pool else " = pool of %s" % [m for m, _ in members])
            rows = expected_pool_rows(pre, li, field, members, cfg)
            col.count("prog_sample_loci")
            if len(members) > 1:
                col.count("prog_pool_multi_member_loci")
            if not rows:
                col.count("sample_loci_no_reads")
            col.case(digest([[case_canon(pre, b, li, field, cfg, m) for m, b in members], "prog", err, phred]), nontrivial=any(nontrivial(pre, b, li, cfg) for _, b in members))
            want = Counter(call_row(r, alleles) for r in rows)
            # --- read_calls (one row per read name, not de-duplicated)
            rc = np.asarray(data.read_calls[pool])
            col.count("prog_rows_checked", len(rows))
            if n and any(len(sum(r, [])) == 0 for r in rows):
                col.count("prog_rcount_includes_all_gap_rows")
            calls_ok = False
            if rc.ndim != 2 or rc.shape[1] != n:
                found.append(("row-length-wrong", "%s: read_calls has shape %s for %d SNVs" % (where, rc.shape, n)))
            else:
                got = Counter(tuple(int(x) for x in r) for r in rc)
                if got != want:
                    found.append(multiset_finding(where + " read_calls", got, want, len(members) > 1))
                else:
                    calls_ok = True
            # --- read_dists + read_counts expanded
            rd = np.asarray(data.read_dists[pool])
            cnt = np.asarray(data.read_counts[pool])
            if cnt.ndim != 1 or rd.shape[:1] != cnt.shape or (len(cnt) and (np.any(cnt != np.round(cnt)) or np.any(cnt < 1))):
                found.append(("deduplication-counts-wrong", "%s: read_dists %s with read_counts %s" % (where, rd.shape, cnt.tolist())))
            elif len(rows) and n:
                if rd.ndim != 3 or rd.shape[1] != n:
                    found.append(("row-length-wrong", "%s: read_dists %s / read_counts %s for %d SNVs" % (where, rd.shape, cnt.shape, n)))
                else:
                    got = Counter()
                    bad = None
                    obs_p = {}
                    for r, c in zip(rd, cnt):
                        key = []
                        for j in range(n):
                            v = [float(x) for x in r[j]]
                            call = decode_cell(v, len(alleles[j]))
                            if call is None:
                                bad = bad or "row with partially-NaN cell %s" % v
                                call = -1
                            elif phred and call >= 0:
                                p = v[call]
                                qmax = 41 * 4
                                msg = None
                                if not ((1 - err) * (1 - 10 ** (-2 / 10)) * (1 - TOL) <= p <= (1 - err) * (1 - 10 ** (-qmax / 10)) * (1 + TOL)):
                                    msg = "correct-call probability %r outside the range of base qualities 2..%d with error rate %r" % (p, qmax, err)
                                bad = bad or msg or check_prob_cell(v, call, len(alleles[j]), err, p_called=p)
                            else:
                                bad = bad or check_prob_cell(v, call, len(alleles[j]), err)
                            key.append(call)
                        got[tuple(key)] += int(c)
                        if c > 1:
                            col.count("prog_dedup_with_count_gt1")
                        if phred:
                            for j in range(n):
                                if key[j] >= 0:
                                    obs_p.setdefault((tuple(key), j), []).extend([float(r[j][key[j]])] * int(c))
                    if phred:
                        col.count("phred_prog_rows_checked", len(rows))
                        if got == want and calls_ok and not bad:
                            # the (row, count) pairs must expand to the per-read encodings: within each group of reads with equal
                            # calls, the correct-call probabilities of every SNV column must be matchable one-to-one with the
                            # intervals the reads' own base qualities allow (a point unless agreeing mates were merged)
                            want_iv = {}
                            for rr in rows:
                                k2 = call_row(rr, alleles)
                                for j in range(n):
                                    if k2[j] >= 0:
                                        qs = [q for _, q in rr[j]]
                                        want_iv.setdefault((k2, j), []).append(((1 - err) * (1 - 10 ** (-min(qs) / 10)), (1 - err) * (1 - 10 ** (-sum(qs) / 10))))
                            for kk, ivs in want_iv.items():
                                col.count("phred_prog_dedup_columns_matched")
                                if len(ivs) > 1 and len({iv for iv in ivs}) > 1:
                                    col.count("phred_prog_dedup_groups_with_unequal_qualities")
                                msg = match_points_to_intervals(obs_p.get(kk, []), ivs)
                                if msg:
                                    found.append(("deduplication-loses-base-qualities", "%s: with --use-base-phred-scores the %d reads with calls %s: read_dists x read_counts at SNV %d do not expand to the per-read probabilities: %s"
                                                  % (where, len(ivs), list(kk[0]), kk[1], msg)))
                                    break
                    if bad:
                        found.append(("probability-encoding-wrong", "%s: read_dists (base error rate %r%s): %s" % (where, err, ", base qualities used" if phred else "", bad)))
                    if got != want and calls_ok and not bad:
                        # read_calls is the filtered pileup but the (row, count) pairs handed to inference are not
                        miss = list((want - got).elements())[:3]
                        extra = list((got - want).elements())[:3]
                        found.append(("deduplication-counts-wrong", "%s: read_calls equals the filtered pileup (%d rows) but read_dists x read_counts expands to %d rows; missing %s, surplus %s"
                                      % (where, sum(want.values()), sum(got.values()), miss, extra)))
            elif len(rows) == 0:
                if rd.shape[0] != 0:
                    found.append(("filtered-read-used", "%s: no read passes the cascade but read_dists has shape %s and counts %s" % (where, rd.shape, cnt.tolist())))
            elif calls_ok and int(np.sum(cnt)) != len(rows):
                # reads but no SNVs: only the number of rows is meaningful
                found.append(("deduplication-counts-wrong", "%s: locus without SNVs, %d read names but read_counts sum to %d" % (where, len(rows), int(np.sum(cnt)))))
            # --- counts
            sd = data.sampledata
            obs = {"DP": sd[FORMAT.DP].get(pool), "RCOUNT": sd[FORMAT.RCOUNT].get(pool), "RCALLS": sd[FORMAT.RCALLS].get(pool)}
            s = sd[FORMAT.SNVDP].get(pool)
            obs["SNVDP"] = None if s is None else [float(x) for x in np.atleast_1d(np.asarray(s, dtype=float))]
            found.extend(check_counts(obs, rows, alleles, where, col, "prog"))


def multiset_finding(where, got, want, pooled):
    ng, nw = sum(got.values()), sum(want.values())
    miss = list((want - got).elements())[:3]
    extra = list((got - want).elements())[:3]
    if ng != nw:
        mech = "pool-not-concatenation-of-members" if pooled else "read-matrix-row-count-wrong"
        return mech, "%s: %d rows, filtered pileup has %d read names; rows missing %s, rows not in the pileup %s" % (where, ng, nw, miss, extra)
    return "read-matrix-cells-wrong", "%s: same number of rows (%d) but different content; rows missing %s, rows not in the pileup %s" % (where, ng, miss, extra)


# ---------------------------------------------------------------------------------------------------------------------
# CLI level


def run_cli(pre, cfg, field, layout, argv, col, found):
    from vlib import cli, vcfparse

    ds = pre.ds
    out, exc = cli.run_inproc(argv)
    cfgtxt = "mchap %s" % " ".join(x if not x.startswith("/") else os.path.basename(x) for x in argv)
    if exc is not None:
        cause = exc
        while getattr(cause, "__cause__", None) is not None:
            cause = cause.__cause__
        found.append(("extraction-raised-on-consistent-input", "%s raised %s: %s (root cause %s: %s)" % (cfgtxt, type(exc).__name__, exc, type(cause).__name__, cause)))
        return
    col.count("cli_runs")
    h, recs = vcfparse.parse(out)
    if sorted(h.samples) != sorted(layout):
        found.append(("sample-keys-wrong", "%s: VCF samples %s, expected %s" % (cfgtxt, h.samples, sorted(layout))))
        return
    by_name = {l["name"]: i for i, l in enumerate(ds.loci)}
    if sorted(r.id for r in recs) != sorted(by_name):
        # which records exist is not this property's subject, but the monitor cannot observe a missing one
        col.inconclusive_note("%s: records %s, targets %s" % (cfgtxt, [r.id for r in recs], sorted(by_name)))
    for r in recs:
        if r.id not in by_name:
            continue
        li = by_name[r.id]
        loc = ds.loci[li]
        alleles = pre.alleles(li)
        col.count("cli_records")
        col.case(digest([[case_canon(pre, b, li, field, cfg, m) for ms in layout.values() for m, b in ms], "cli"]), nontrivial=any(nontrivial(pre, b, li, cfg) for b in ds.bams))
        for pool, members in layout.items():
            rows = expected_pool_rows(pre, li, field, members, cfg)
            vals = r.samples[pool]
            where = "%s record %s sample %s" % (cfgtxt, r.id, pool)
            missing = [k for k in ("DP", "RCOUNT", "RCALLS", "SNVDP") if k not in vals]
            if missing:
                col.inconclusive_note("%s: FORMAT keys %s lack %s" % (where, r.format, missing))
                continue
            col.count("cli_sample_fields_checked")
            obs = {"DP": vals["DP"], "RCOUNT": vals["RCOUNT"], "RCALLS": vals["RCALLS"], "SNVDP": vals["SNVDP"].split(",")}
            found.extend(check_counts(obs, rows, alleles, where, col, "cli"))


# ---------------------------------------------------------------------------------------------------------------------
# fault injection


def inject_vcf_ref(pre, rng, root, col, found, do_cli):
    """SNV file whose REF differs from the FASTA at one SNV: building the locus / running assemble must raise."""
    ds = pre.ds
    cands = [(li, j) for li, l in enumerate(ds.loci) for j in range(len(l["snvs"]))]
    if not cands:
        col.count("inject_vcf_ref_no_snv_skipped")
        return
    li, j = cands[int(rng.integers(len(cands)))]
    loc = ds.loci[li]
    v = loc["snvs"][j]
    snvs = []
    for u in ds.snvs:
        if u is v:
            alleles = [v["ref"]] + list(v["alts"])
            free = [b for b in D.BASES if b not in alleles]
            if free and rng.random() < 0.7:
                u = dict(u, ref=free[int(rng.integers(len(free)))])
            else:
                # swap REF with the first ALT (still a legal record)
                u = dict(u, ref=v["alts"][0], alts=[v["ref"]] + list(v["alts"][1:]))
        snvs.append(u)
    bad = D.write_snv_vcf(os.path.join(root, "bad_ref.vcf"), ds.contigs, snvs)
    what = "SNV file with REF %s at %s:%d where the FASTA has %s (target %s)" % ([u for u in snvs if u["pos0"] == v["pos0"] and u["contig"] == v["contig"]][0]["ref"], v["contig"], v["pos0"] + 1, v["ref"], loc["name"])
    for order in ("sv", "vs"):
        try:
            build_locus(ds, loc, vcf=bad, order=order)
        except Exception:  # noqa: BLE001
            col.count("inject_vcf_ref_locus_raised")
        else:
            found.append(("inconsistent-reference-not-reported", "%s: Locus.%s returned a locus without an error" % (what, "set_sequence().set_variants()" if order == "sv" else "set_variants().set_sequence()")))
    if do_cli:
        from vlib import cli

        cfg = {"minq": 20, "keep_dup": False, "keep_qcf": False, "keep_sup": False}
        out, exc = cli.run_inproc(build_argv(ds, cfg, "SM", None, DEFAULT_ERR, False, vcf=bad))
        ids = [l.split("\t")[2] for l in cli.record_lines(out)]
        if exc is None:
            found.append(("inconsistent-reference-not-reported", "%s: mchap assemble finished without an error (records %s)" % (what, ids)))
        else:
            col.count("inject_vcf_ref_cli_raised")
        if loc["name"] in ids:
            found.append(("record-emitted-for-inconsistent-locus", "%s: a record for %s was written" % (what, loc["name"])))


def inject_md_ref(pre, rng, root, col, found, do_cli):
    """BAM written against a reference that differs from the SNV file's REF at one SNV."""
    import pysam

    from mchap.io.bam import extract_read_variants

    ds = pre.ds
    cfg = {"minq": 20, "keep_dup": False, "keep_qcf": False, "keep_sup": False}
    cands = []
    for bam in ds.bams:
        for li, l in enumerate(ds.loci):
            for j in range(len(l["snvs"])):
                hit = [a for a, cells, _ in pre.cand[(bam, li)] if cells[j] is not None]
                if hit:
                    cands.append((bam, li, j))
    if not cands:
        col.count("inject_md_ref_no_candidate_skipped")
        return
    bam, li, j = cands[int(rng.integers(len(cands)))]
    loc = ds.loci[li]
    v = loc["snvs"][j]
    others = [b for b in D.BASES if b != v["ref"]]
    nb = others[int(rng.integers(3))]
    contigs2 = dict(ds.contigs)
    s = contigs2[v["contig"]]
    contigs2[v["contig"]] = s[: v["pos0"]] + nb + s[v["pos0"] + 1 :]
    badbam = os.path.join(root, "bad_md.bam")
    D.write_bam(badbam, contigs2, ds.bam_rgs[bam], ds.bam_alignments[bam])
    what = "BAM whose MD tags imply reference base %s at %s:%d where the SNV file and FASTA have %s (target %s)" % (nb, v["contig"], v["pos0"] + 1, v["ref"], loc["name"])
    locus = build_locus(ds, loc)
    # second file: only SOME reads disagree (read groups of one sample aligned to two reference versions and merged): every
    # read's own MD tag is evidence, so one inconsistent contributing read must be reported however many consistent reads
    # were seen before it.  All alignments of the chosen read names carry the inconsistent MD tag.
    covering = sorted({a["qname"]: a["pos0"] for a, cells, _ in pre.cand[(bam, li)] if cells[j] is not None}.items(), key=lambda kv: kv[1])
    partial = None
    if len(covering) >= 2:
        names = [q for q, _ in covering]
        mode = int(rng.integers(3))
        chosen = set(names[1:]) if mode == 0 else ({names[-1]} if mode == 1 else set(names[1:][:: 2]) or {names[-1]})
        alns2 = []
        for a in ds.bam_alignments[bam]:
            a2 = dict(a)
            if a["qname"] in chosen and not (a["flag"] & 4) and a["contig"] == v["contig"]:
                a2["md"] = D.md_tag(contigs2[a["contig"]], a["pos0"], a["cigar"], a["seq"])
            alns2.append(a2)
        partial = (os.path.join(root, "bad_md_partial.bam"), chosen)
        D.write_bam(partial[0], ds.contigs, ds.bam_rgs[bam], alns2)
        col.count("inject_md_ref_partial_files")
    for field in ("SM", "ID"):
        for key in pre.keys(bam, field):
            for combo in (0, 7):
                c2 = {"minq": int(rng.choice(THRESHOLDS)), "keep_dup": bool(combo & 1), "keep_qcf": bool(combo & 2), "keep_sup": bool(combo & 4)}
                rows = pre.rows(bam, li, field, key, c2)
                must = any(r[j] for r in rows.values())
                if partial is not None:
                    must2 = any(r[j] for q, r in rows.items() if q in partial[1])
                    try:
                        with pysam.AlignmentFile(partial[0]) as af:
                            extract_read_variants(locus, af, samples=key, id=field, min_quality=c2["minq"], skip_duplicates=not c2["keep_dup"], skip_qcfail=not c2["keep_qcf"], skip_supplementary=not c2["keep_sup"])
                    except Exception:  # noqa: BLE001
                        col.count("inject_md_ref_partial_raised" if must2 else "inject_md_ref_partial_raised_without_used_read")
                    else:
                        if must2:
                            found.append(("inconsistent-reference-not-reported", "%s - ONLY in the reads %s, the other reads agree: extract_read_variants(samples=%r, id=%s, min_quality=%d, keep flags %d) returned although %d of those reads contribute a base there"
                                          % (what, sorted(partial[1])[:4], key, field, c2["minq"], combo, sum(1 for q, r in rows.items() if q in partial[1] and r[j]))))
                        else:
                            col.count("inject_md_ref_partial_no_used_read_silent")
                try:
                    with pysam.AlignmentFile(badbam) as af:
                        extract_read_variants(locus, af, samples=key, id=field, min_quality=c2["minq"], skip_duplicates=not c2["keep_dup"], skip_qcfail=not c2["keep_qcf"], skip_supplementary=not c2["keep_sup"])
                except Exception:  # noqa: BLE001
                    if must:
                        col.count("inject_md_ref_fn_raised")
                    else:
                        col.count("inject_md_ref_fn_raised_without_used_read")
                else:
                    if must:
                        found.append(("inconsistent-reference-not-reported", "%s: extract_read_variants(samples=%r, id=%s, min_quality=%d, keep flags %d) returned although %d contributing reads have a base aligned there"
                                      % (what, key, field, c2["minq"], combo, sum(1 for r in rows.values() if r[j]))))
                    else:
                        col.count("inject_md_ref_fn_no_used_read_silent")
    if do_cli:
        from vlib import cli

        rg2s = {rg["ID"]: rg["SM"] for rg in ds.bam_rgs[bam]}
        must = any(cells[j] is not None and passes(a, cfg) and a["rg"] in rg2s for a, cells, _ in pre.cand[(bam, li)])
        bams = [badbam if b == bam else b for b in ds.bams]
        out, exc = cli.run_inproc(build_argv(ds, cfg, "SM", None, DEFAULT_ERR, False, bams=bams))
        ids = [l.split("\t")[2] for l in cli.record_lines(out)]
        if must:
            if exc is None:
                found.append(("inconsistent-reference-not-reported", "%s: mchap assemble finished without an error (records %s)" % (what, ids)))
            else:
                col.count("inject_md_ref_cli_raised")
            if loc["name"] in ids:
                found.append(("record-emitted-for-inconsistent-locus", "%s: a record for %s was written" % (what, loc["name"])))
        else:
            col.count("inject_md_ref_cli_no_used_read")


# ---------------------------------------------------------------------------------------------------------------------
# one dataset case


def report(col, found, payload):
    seen = set()
    for mech, msg in found:
        if mech in seen:
            continue
        seen.add(mech)
        col.violation(mech, msg, payload)


def run_dataset_case(tier, seed, shard, index, col, workname):
    rng, p = case_params(seed, shard, index)
    root = os.path.join(env.workdir(workname), "d%04d" % index)
    shutil.rmtree(root, ignore_errors=True)
    payload = {"seed": seed, "shard": shard, "index": index, "tier": tier}
    found = []
    try:
        ds, info = build_dataset(rng, p, root)
        pre = Pre(ds)
        col.count("datasets")
        if p.get("wide"):
            col.count("datasets_wide_locus_130_200_snvs")
        col.count("samples_per_bam_%d" % p["samples_per_bam"])
        col.count("datasets_rg_id_equals_other_sample_name", 1 if info.get("cross") else 0)
        col.count("same_name_in_two_read_groups_or_files", info.get("twins", 0))
        for s, ids in ds.sample_rgs.items():
            col.count("rgs_per_sample_%d" % len(ids))
        thorough = tier == "thorough"
        g = shard * 1000 + index
        err = DEFAULT_ERR if rng.random() < 0.6 else float(rng.choice([0.0005, 0.01, 0.05]))
        phred = thorough or g % 2 == 0

        # ---- function level
        try:
            loci = [build_locus(ds, loc, order="sv" if (g + li) % 2 == 0 else "vs") for li, loc in enumerate(ds.loci)]
        except Exception as ex:  # noqa: BLE001
            found.append(("extraction-raised-on-consistent-input", "building a locus from consistent FASTA / SNV file raised %s: %s" % (type(ex).__name__, ex)))
            loci = None
        if loci is not None:
            for li, loc in enumerate(ds.loci):
                if not check_locus_object(loci[li], loc, ds):
                    found.append(("locus-differs-from-inputs", "locus %s has variants %s, the SNV file has %s" % (loc["name"], [(v.start, v.alleles) for v in loci[li].variants], [(v["pos0"], v["ref"], v["alts"]) for v in loc["snvs"]])))
                    loci = None
                    break
        n_cfg = 6
        if loci is not None:
            for k in range(n_cfg):
                cfg = draw_cfg(rng, p["t"], combo=(g * n_cfg + k) % 8)
                field = "SM" if (g + k // 2 + k) % 2 == 0 else "ID"
                for bam in ds.bams:
                    keys = pre.keys(bam, field)
                    for li in range(len(ds.loci)):
                        r = rng.random()
                        if r < 0.4 or len(keys) == 0:
                            select = "all"
                        elif r < 0.8 or len(keys) < 3:
                            select = ("one", keys[int(rng.integers(len(keys)))])
                        else:
                            sub = [keys[i] for i in rng.permutation(len(keys))[: int(rng.integers(2, len(keys)))]]
                            select = ("subset", sub)
                        count_hostile(col, pre, bam, li, field, cfg)
                        if len(ds.loci[li]["snvs"]) == 0:
                            col.count("loci_zero_snvs")
                        col.case(case_canon(pre, bam, li, field, cfg, ["fn", select]), nontrivial=nontrivial(pre, bam, li, cfg))
                        run_fn(pre, bam, li, loci[li], field, cfg, select, col, err, phred, found)

        # ---- program level (+ CLI)
        n_prog = 2
        for k in range(n_prog):
            cfg = draw_cfg(rng, p["t"], combo=(g * n_prog + k + 3) % 8)
            field = "SM" if (g + k) % 2 == 0 else "ID"
            r = rng.random()
            pool_mode = "none" if r < 0.5 else ("file" if r < 0.9 else "name")
            layout, pool_arg, pool_info = sample_layout(pre, field, pool_mode, rng, root)
            use_phred = bool(phred and k == 1)
            argv = build_argv(ds, cfg, field, pool_arg, err, use_phred)
            run_prog(pre, cfg, field, layout, argv, err, use_phred, col, found, pool_info)
            if k == 0:
                run_cli(pre, cfg, field, layout, argv, col, found)

        # ---- fault injection
        if g % 3 == 0:
            inject_vcf_ref(pre, rng, root, col, found, do_cli=(g % 2 == 0))
        elif g % 3 == 1:
            inject_md_ref(pre, rng, root, col, found, do_cli=(g % 2 == 0))

        if shard == 0 and index < 2:
            bam = ds.bams[0]
            li = 0
            cfg = {"minq": p["t"], "keep_dup": False, "keep_qcf": False, "keep_sup": False}
            key = pre.keys(bam, "SM")[0]
            rows = pre.rows(bam, li, "SM", key, cfg)
            col.sample({
                "dataset": p, "locus": ds.loci[li], "read_groups": ds.bam_rgs[bam], "config": cfg,
                "alignments_overlapping_locus": [{k2: a[k2] for k2 in ("qname", "flag", "mapq", "rg", "pos0", "cigar", "seq")} for a, _, _ in pre.cand[(bam, li)]][:12],
                "oracle_rows_for_sample": {key: {nm: [[b for b, _ in c] for c in r] for nm, r in list(rows.items())[:12]}},
            })
    finally:
        shutil.rmtree(root, ignore_errors=True)
    report(col, found, payload)
    return found



def run_cram(tier, seed, spec, col):
    """The same alignments as CRAM: mchap opens alignment files with the reference, so CRAM is valid input; the reads fed to
    inference (and hence every record) must be identical to those from the BAM the CRAM was converted from (=/X CIGAR
    operators come back as M, MD / NM are regenerated by the decoder)."""
    import pysam

    from mchap.io import extract_read_variants
    from mchap.io.loci import Locus

    for dI in range(spec["datasets"]):
        rng = gen.rng_for(seed, ID, 700 + spec["shard"], dI)
        root = env.workdir("c06-cram-%d-%d" % (spec["shard"], dI))
        shutil.rmtree(root, ignore_errors=True)
        ds = D.make_dataset(rng, root, n_samples=int(rng.integers(1, 4)), n_loci=int(rng.integers(2, 5)), ploidy=[2, 4], depth=(4, 12), contig_len=600,
                            hostile=0.35, flags=True, paired=0.3, rgs_per_sample=(1, 2), samples_per_bam=int(rng.choice([1, 2])), mapq_values=(60, 30, 20))
        crams = []
        for bam in ds.bams:
            cram = bam[:-4] + ".cram"
            with pysam.AlignmentFile(bam) as src, pysam.AlignmentFile(cram, "wc", template=src, reference_filename=ds.fasta) as dst:
                for r in src:
                    dst.write(r)
            pysam.index(cram)
            crams.append(cram)
        case = {"kind": "cram", "seed": seed, "shard": spec["shard"], "index": dI}
        col.case("CRAM|%d|%d" % (spec["shard"], dI), nontrivial=True)
        keep = [[], ["--keep-duplicate-reads"], ["--keep-qcfail-reads", "--keep-supplementary-reads"]][int(rng.integers(3))]
        mq = str(int(rng.choice([0, 20, 21, 30])))
        outs = []
        for files in (ds.bams, crams):
            args = ["assemble", "--bam"] + files + ["--reference", ds.fasta, "--variants", ds.vcf, "--targets", ds.bed, "--ploidy", "2", "--mapping-quality", mq,
                                                      "--mcmc-steps", "60", "--mcmc-burn", "30", "--mcmc-seed", "5", "--report", "SNVDP"] + keep
            out, exc = cli.run_inproc(args)
            outs.append((out, exc))
        col.count("cram_runs_compared")
        if outs[0][1] is not None or outs[1][1] is not None:
            if (outs[0][1] is None) != (outs[1][1] is None):
                col.violation("cram-input-changes-result", "assemble on BAM raised %r, on the CRAM copies %r" % (outs[0][1], outs[1][1]), case)
            else:
                col.count("cram_runs_both_failed")
        else:
            a, b = cli.record_lines(outs[0][0]), cli.record_lines(outs[1][0])
            col.count("cram_records_compared", len(a))
            if a != b:
                d = [(x[:200], y[:200]) for x, y in zip(a, b) if x != y][:1]
                col.violation("cram-input-changes-result", "assemble records differ between BAM input and its CRAM copy (options %s, MAPQ %s): %s" % (keep, mq, d), case)
        # function level: the read dictionaries themselves
        for L in ds.loci:
            loc = Locus(L["contig"], L["start"], L["stop"], L["name"], None, None).set_sequence(ds.fasta).set_variants(ds.vcf)
            for bam, cram in zip(ds.bams, crams):
                res = []
                for path in (bam, cram):
                    with pysam.AlignmentFile(path, reference_filename=ds.fasta) as af:
                        d = extract_read_variants(loc, af, min_quality=int(mq), read_dicts=True)
                    res.append({s: {q: ("".join(v[0]), [int(x) for x in v[1]]) for q, v in reads.items()} for s, reads in d.items()})
                col.count("cram_read_dicts_compared")
                if res[0] != res[1]:
                    col.violation("cram-input-changes-result", "extract_read_variants(%s) differs between %s and its CRAM copy" % (L["name"], os.path.basename(bam)), case)
        shutil.rmtree(root, ignore_errors=True)

def run_shard(tier, seed, spec, col):
    if spec.get("kind") == "cram":
        return run_cram(tier, seed, spec, col)
    work = "c06-%s-%s" % (tier, spec["name"])
    try:
        for i in range(spec["datasets"]):
            run_dataset_case(tier, seed, spec["shard"], i, col, work)
    finally:
        shutil.rmtree(env.workdir(work), ignore_errors=True)


def replay(obj, col):
    c = obj["case"]
    work = "c06-replay-%d" % os.getpid()
    try:
        run_dataset_case(c.get("tier", obj.get("tier", "quick")), int(c.get("seed", obj.get("seed", 0))), int(c["shard"]), int(c["index"]), col, work)
    finally:
        shutil.rmtree(env.workdir(work), ignore_errors=True)
