"""C16 - input allele filtering and prior-frequency options do what they say.

Monitors
  fn   return value (or exception) of the real LocusPrior.from_variant_record(record, frequency_tag=, allele_filter=) for
       pysam records read back from generated haplotype VCFs that carry R-length Float (AFP, WT), A-length Float (AAF),
       A-length Integer (AC) and R-length Integer (RC) INFO fields and optionally REFMASKED: fields alts, frequencies,
       mask_reference_allele, sequence, variants;
  cli  stdout (parsed by vlib.vcfparse) and exception of the real call-exact / call / call-pedigree programs run in-process
       on a generated BAM dataset (trio) with a generated haplotype VCF spanning its loci, under --prior-frequencies TAG,
       --filter-input-haplotypes 'F<op>V', both, neither: ALT, REFMASKED, FILTER, INFO/AFPRIOR, GT, FORMAT AFP/ACP/AOP/GP
       and the cardinality of every R-/A-/G-length field of every output record.
Oracle (this file; decimal.Decimal / fractions.Fraction on the DECIMAL TEXT of the generated input, never mchap, never a
float32 round trip): which alleles pass the predicate, masked reference, prior = named values restricted to the retained
alleles with the masked reference zeroed and normalised, flat otherwise; alleles that are masked or have zero prior are
"dead": never in a GT, zero AFP/ACP/AOP, zero GP mass; record without a usable allele -> NOA / AF0 with '.' calls and the
run goes on.
"""

import math
import os
import shutil
from decimal import Decimal
from fractions import Fraction

import numpy as np

from vlib import gen
from vlib.oracles import model as M

ID = "C16"
TECHNIQUE = "runtime monitoring: fields of LocusPrior.from_variant_record on generated haplotype records under every filter operator with thresholds textually equal to INFO values, and the records emitted by call-exact / call / call-pedigree run in-process with --prior-frequencies / --filter-input-haplotypes on generated BAM datasets; independent Decimal/Fraction oracle on the input text and independent VCF parser; the exact-caller functions driven with each generated locus's own haplotypes / frequencies and reads favouring a dead allele (posterior must be exactly 0, inbreeding 0 and > 0)"
LEVEL = "exploration"
LEVEL_TEXT = (
    "Exploration: on generated haplotype records (0-6 ALT haplotypes; R-length Float, A-length Float, A-length Integer and R-length "
    "Integer INFO fields whose values are short decimals including 0, exactly representable values (0.5, 0.25, ...) and values that "
    "float32 cannot represent (0.7, 0.2, 0.1, ...); zero, trailing-zero, reference-zero and all-zero vectors; records without ALT; "
    "REFMASKED set on input) the object returned by the real LocusPrior.from_variant_record was observed for every operator "
    "(= == > >= < <= !=) with thresholds textually equal to a value of the record and thresholds between values, with and without a "
    "frequency tag, and compared with an oracle that evaluates the predicate on the decimal text. The real call-exact, call and "
    "call-pedigree (trio, 200 MCMC steps) were run in-process on generated BAM datasets (3 samples, ploidy 2 or 4, about 8 loci) with "
    "neither option, each option and both, and every emitted record was observed: ALT, REFMASKED, FILTER (NOA/AF0), AFPRIOR within "
    "0.0015, GT, FORMAT AFP/ACP/AOP/GP of masked and zero-prior alleles, field cardinalities, and that records after a NOA/AF0 "
    "record are still emitted. Holds only on what was observed; missing ('.') INFO entries, negative values, exponent notation "
    "and records lacking the named field were not generated."
)
LEVEL_NOTE = (
    "Trusts decimal/fractions, the oracle in this file, vlib/vcfparse.py (independent VCF text parser), vlib/datasets.py and "
    "vlib/hapvcf.py writers and pysam's reading of the generated VCF. Distinct input values differ by far more than a float32 ulp, so "
    "only textual equality of value and threshold is a float32 boundary. AFPRIOR tolerance 0.0015 (3-decimal text of float32 input); "
    "posterior entries of dead alleles must print as 0 (<= 0.0005). Whether the posterior of live alleles is right is C02/C03/C14."
)
RULE = (
    "fn case = one from_variant_record call (record, frequency tag, filter string); cli case = one output record of one program run "
    "(program, haplotype VCF, frequency tag, filter string); non-trivial = a filter or frequency tag is given and the record has at "
    "least one ALT; distinct by hash of (record text, options, program)"
)
LEVEL_TEXT += " Program runs cycle through no / scalar / per-sample-file --inbreeding; the exact-caller functions were driven with each generated locus's own haplotypes and frequencies and 150 copies of a read matching every dead allele: posterior exactly 0, for inbreeding 0, 0.1 and 0.5."
LEVEL_TEXT += ' Session 4: priors of extreme dynamic range (1e-9 .. 1e-20, not zero) and a spy on the sampler constructors of call / call-pedigree: every retained, unmasked allele of positive prior must be handed to the sampler.'
ASSUMPTIONS = [
    "NOA is demanded when no unmasked allele is retained, AF0 when unmasked alleles are retained but their named frequencies are all zero (the header descriptions of the two filters)",
    "a usable record must not carry NOA/AF0",
    "A-length INFO fields are omitted on records without ALT (a field that is absent filters nothing)",
    "LocusPrior.variants must cover exactly the columns polymorphic among the retained sequences (needed for the retained alleles to be distinguishable)",
]

K_F32 = "filter-threshold-compared-in-float32"
K_PRED = "filter-predicate-wrong"
K_INT = "integer-prior-frequency-field-raises"
K_CARD = "posterior-field-cardinality-wrong-when-trailing-allele-masked"

TOL_TEXT = 0.0015
TOL_ZERO = 0.0005
TOL_FN = 1e-6
BASES = "ACGT"

DEFS = [
    {"ID": "AFP", "Number": "R", "Type": "Float"},
    {"ID": "WT", "Number": "R", "Type": "Float"},
    {"ID": "AAF", "Number": "A", "Type": "Float"},
    {"ID": "AC", "Number": "A", "Type": "Integer"},
    {"ID": "RC", "Number": "R", "Type": "Integer"},
    {"ID": "REFMASKED", "Number": "0", "Type": "Flag"},
]
FIELD = {d["ID"]: d for d in DEFS}
FILTER_FIELDS = ["AFP", "WT", "AAF", "AC", "RC"]
OPS = ["=", "==", ">", ">=", "<", "<=", "!="]
# values: exactly representable in binary (0.5 ...) and not (0.7 ...); neighbours differ by >> 2^-23 relative
FLOAT_POOL = ["0.7", "0.2", "0.1", "0.3", "0.9", "0.6", "0.4", "0.8", "0.5", "0.25", "0.125", "0.75", "0.05", "0.15", "0.35", "1",
              "0.01", "0.001", "0.333", "0.0625", "0.45", "0.55"]
WT_POOL = ["2.5", "1", "0.5", "10", "3", "1.5", "0.7", "12.75", "100", "0.2", "7", "0.3", "4.1"]
EXTRA_THR = ["0", "1000", "0.65", "0.175", "2", "1", "0.5", "3.5", "0.0005"]
PROGRAMS = ["call-exact", "call", "call-pedigree"]
REPORT_FORMAT = ["--report", "INFO/AFPRIOR", "FORMAT/AFP", "FORMAT/ACP", "FORMAT/AOP", "FORMAT/GP"]
REPORT_BOTH = ["--report", "AFPRIOR", "AFP", "ACP", "AOP", "GP"]


# ---------------------------------------------------------------------------------------------------------------------
# plan


def plan(tier, seed):
    q = tier == "quick"
    return [{"name": "s%02d" % i, "shard": i, "fn_batches": 8 if q else 40, "fn_records": 40, "datasets": 1 if q else 5,
             "vcfs": 4 if q else 8, "timeout": 3000 if q else 9000} for i in range(16)]


def required(tier):
    return {
        "fn_cases": 60000, "fn_filter_alleles_decided": 150000, "fn_equal_text_boundary": 40000, "fn_equal_text_inexact_f32": 9000,
        "fn_equal_text_exact_f32": 12000, "fn_prior_checked": 30000, "fn_ref_masked_by_filter": 10000, "fn_ref_masked_on_input": 8000,
        "fn_a_field_filters": 16000, "fn_integer_field_filters": 16000, "fn_integer_prior_calls": 10000, "fn_all_alts_removed": 9000,
        "fn_no_alt_records": 6000, "fn_all_zero_prior": 9000, "fn_variants_checked": 40000,
        "cli_runs": 2000, "cli_runs_call-exact": 600, "cli_runs_call": 600, "cli_runs_call-pedigree": 600, "cli_integer_prior_runs": 150,
        "cli_records_checked": 12000, "cli_alt_decided": 20000, "cli_equal_text_boundary": 2500, "cli_equal_text_inexact_f32": 600,
        "cli_equal_text_exact_f32": 1000, "cli_afprior_checked": 6000, "cli_afprior_from_tag": 3500, "cli_noa_records": 4000,
        "cli_af0_records": 700, "cli_records_after_unusable": 8000, "cli_dead_allele_records": 2000, "cli_trailing_dead_records_mcmc": 400,
        "cli_gt_checked": 30000, "cli_posterior_zero_checked": 15000, "cli_gp_zero_checked": 6000, "cli_refmasked_records": 5000,
        "cli_all_alts_removed_records": 3000, "cli_wellformed_checked": 11000, "cli_runs_inbred": 600,
        "fn_exact_dead_allele_cases": 3000, "fn_exact_dead_allele_cases_inbred": 2000,
        "sampler_haplotype_sets_checked": 2000, "sampler_haplotype_sets_checked_tiny_priors": 100,
    }


# ---------------------------------------------------------------------------------------------------------------------
# oracle (no mchap)


def pred(v, op, t):
    if op in ("=", "=="):
        return v == t
    if op == ">":
        return v > t
    if op == ">=":
        return v >= t
    if op == "<":
        return v < t
    if op == "<=":
        return v <= t
    if op == "!=":
        return v != t
    raise ValueError(op)


def f32_inexact(tok):
    x = float(tok)
    return float(np.float32(x)) != x


def classify_miss(field, tok, thr):
    """Mechanism for one allele whose observed keep/drop differs from the predicate on the decimal text."""
    if FIELD[field]["Type"] == "Float" and Decimal(tok) == Decimal(thr) and f32_inexact(tok):
        return K_F32
    return K_PRED


class Expect:
    """What the property demands for one input record under (tag, filt).  filt = (field, op, threshold_text) or None."""

    def __init__(self, rec, tag, filt, emulate_f32=False):
        # emulate_f32=True is NOT the oracle: it reproduces the known float32 comparison (value rounded to float32, threshold
        # as float64) and is used only to name the mechanism of an abort that happens on a record the program mis-filtered.
        alts = list(rec["alts"])
        n = 1 + len(alts)
        self.n_in = n
        keep = [True] * n
        self.tested = [None] * n  # token tested per input allele (None = not tested)
        mask = bool(rec.get("refmasked"))
        self.mask_in = mask
        self.ref_failed = False
        if filt is not None:
            field, op, thr = filt
            toks = rec["tokens"].get(field)
            t = Decimal(thr)
            if toks is not None:
                def val(tok):
                    if emulate_f32 and FIELD[field]["Type"] == "Float":
                        return Decimal(float(np.float32(float(tok))))
                    return Decimal(tok)

                if emulate_f32:
                    t = Decimal(float(thr))
                if FIELD[field]["Number"] == "R":
                    for i in range(n):
                        keep[i] = pred(val(toks[i]), op, t)
                        self.tested[i] = toks[i]
                else:
                    for i in range(1, n):
                        keep[i] = pred(val(toks[i - 1]), op, t)
                        self.tested[i] = toks[i - 1]
            if not keep[0]:
                self.ref_failed = True
                mask = True
                keep[0] = True
        self.keep = keep
        self.mask = mask
        self.alts = [a for a, k in zip(alts, keep[1:]) if k]
        self.kept_idx = [i for i in range(n) if keep[i]]
        if tag is not None:
            w = [Fraction(x) for x in rec["tokens"][tag]]
        else:
            w = [Fraction(1)] * n
        if mask:
            w[0] = Fraction(0)
        w = [w[i] for i in self.kept_idx]
        tot = sum(w, Fraction(0))
        self.weights = w
        self.prior = None if tot == 0 else [x / tot for x in w]
        self.n_out = len(self.kept_idx)
        live = [j for j in range(self.n_out) if not (j == 0 and mask)]
        if not live:
            self.kind = "NOA"
        elif tot == 0:
            self.kind = "AF0"
        else:
            self.kind = "PASS"
        self.dead = set()
        if self.kind == "PASS":
            self.dead = {j for j in range(self.n_out) if (j == 0 and mask) or w[j] == 0}
        self.trailing_dead = self.kind == "PASS" and (self.n_out - 1) in self.dead

    def variant_columns(self, ref):
        seqs = [ref] + self.alts
        out = []
        for c in range(len(ref)):
            bases = []
            for s in seqs:
                if s[c] not in bases:
                    bases.append(s[c])
            if len(bases) > 1:
                out.append((c, bases))
        return out


def opt_text(tag, filt):
    s = []
    if tag is not None:
        s.append("--prior-frequencies %s" % tag)
    if filt is not None:
        s.append("--filter-input-haplotypes '%s%s%s'" % filt)
    return " ".join(s) if s else "(no option)"


def rec_text(rec):
    items = ["%s=%s" % (k, ",".join(v)) for k, v in rec["tokens"].items()]
    if rec.get("refmasked"):
        items.append("REFMASKED")
    return "%s:%d REF=%s ALT=%s INFO %s" % (rec["contig"], rec["pos0"] + 1, rec["ref"], ",".join(rec["alts"]) or ".", ";".join(items))


# ---------------------------------------------------------------------------------------------------------------------
# generators


def r_pattern(rng, n, pool, forced=None):
    """Token vector of length n for an R-length field."""
    pat = forced or str(rng.choice(["rand", "rand", "rand", "dup", "last-zero", "ref-zero", "some-zero", "all-zero", "only-ref", "only-last"],
                                   p=[0.3, 0.15, 0.1, 0.1, 0.1, 0.07, 0.07, 0.04, 0.035, 0.035]))
    toks = [str(pool[int(rng.integers(len(pool)))]) for _ in range(n)]
    if pat == "dup" and n >= 2:
        toks[int(rng.integers(1, n))] = toks[0]
    elif pat == "last-zero":
        toks[-1] = "0"
        if n >= 3 and rng.random() < 0.3:
            toks[-2] = "0"
    elif pat == "ref-zero":
        toks[0] = "0"
    elif pat == "some-zero":
        for i in range(n):
            if rng.random() < 0.4:
                toks[i] = "0"
    elif pat == "all-zero":
        toks = ["0"] * n
    elif pat == "only-ref":
        toks = [toks[0]] + ["0"] * (n - 1)
    elif pat == "only-last":
        toks = ["0"] * (n - 1) + [toks[-1]]
    return toks, pat


def assign_info(rng, rec, forced=None):
    """Fill rec['tokens'] / rec['refmasked'] / rec['info'] (text rendered by hapvcf.render)."""
    forced = forced or {}
    n = 1 + len(rec["alts"])
    int_pool = [str(i) for i in range(0, 6)]
    tokens = {}
    tokens["AFP"], p1 = r_pattern(rng, n, FLOAT_POOL, forced.get("AFP"))
    tokens["WT"], p2 = r_pattern(rng, n, WT_POOL, forced.get("WT"))
    if n > 1:
        tokens["AAF"] = [str(FLOAT_POOL[int(rng.integers(len(FLOAT_POOL)))]) if rng.random() > 0.15 else "0" for _ in range(n - 1)]
        tokens["AC"] = [str(int(rng.integers(0, 5))) for _ in range(n - 1)]
    tokens["RC"], p3 = r_pattern(rng, n, int_pool[1:], forced.get("RC"))
    if "tokens" in forced:
        tokens.update(forced["tokens"])
    rec["tokens"] = tokens
    rec["refmasked"] = bool(forced["refmasked"]) if "refmasked" in forced else bool(rng.random() < 0.18)
    rec["patterns"] = [p1, p2, p3]
    info = {k: ",".join(v) for k, v in tokens.items()}
    if rec["refmasked"]:
        info["REFMASKED"] = True
    rec["info"] = info
    return rec


def own_threshold(rng, rec, field):
    toks = rec["tokens"].get(field)
    if toks and rng.random() < 0.75:
        return str(toks[int(rng.integers(len(toks)))])
    pool = EXTRA_THR + (FLOAT_POOL if FIELD[field]["Type"] == "Float" else ["0", "1", "2", "3", "4", "2.5"])
    return str(pool[int(rng.integers(len(pool)))])


def slim(rec):
    return {k: rec[k] for k in ("contig", "pos0", "id", "ref", "alts", "tokens", "refmasked")}


# ---------------------------------------------------------------------------------------------------------------------
# function level


def refine_miss(E, rec, obs_alts, miss):
    """A failing reference must stay allele 0 (masked).  When it is removed from the allele list instead, the first retained
    ALT takes its place and vanishes from ALT: name that mechanism rather than a generic predicate failure."""
    if E.ref_failed and E.alts and len(miss) == 1 and miss[0][0] == K_PRED and obs_alts == E.alts[1:]:
        return [("failing-reference-dropped-instead-of-masked", "the reference fails the predicate and the first retained ALT %s is missing from the allele list, "
                 "as if the reference had been removed and that ALT had taken its place: %s" % (E.alts[0], miss[0][1]))]
    return miss


def fn_check(rec, tag, filt, locus, exc, col):
    """Compare one from_variant_record outcome with the oracle.  Returns list of (mechanism, message)."""
    E = Expect(rec, tag, filt)
    what = "%s with %s" % (rec_text(rec), opt_text(tag, filt))
    col.count("fn_cases")
    if tag is not None and FIELD[tag]["Type"] == "Integer":
        col.count("fn_integer_prior_calls")
    if exc is not None:
        name = type(exc).__name__
        if tag is not None and FIELD[tag]["Type"] == "Integer" and (name == "UFuncTypeError" or (name == "ValueError" and "NaN" in str(exc))):
            return [(K_INT, "LocusPrior.from_variant_record raised %s: %s for %s (frequency field %s is Type=Integer)" % (name, str(exc)[:200], what, tag))]
        return [("locus-prior-raised", "LocusPrior.from_variant_record raised %s: %s for %s" % (name, str(exc)[:200], what))]
    found = []
    n = E.n_in
    if len(rec["alts"]) == 0:
        col.count("fn_no_alt_records")
    if rec.get("refmasked"):
        col.count("fn_ref_masked_on_input")
    if locus.sequence != rec["ref"]:
        found.append(("ref-sequence-changed", "sequence %r, REF %r (%s)" % (locus.sequence, rec["ref"], what)))
    obs_alts = list(locus.alts)
    # ---- which alleles were kept
    if filt is not None:
        field, op, thr = filt
        if FIELD[field]["Number"] == "A":
            col.count("fn_a_field_filters")
        if FIELD[field]["Type"] == "Integer":
            col.count("fn_integer_field_filters")
    stray = [a for a in obs_alts if a not in rec["alts"]]
    if stray or len(set(obs_alts)) != len(obs_alts):
        return found + [("alt-not-from-input", "alts %s are not a sub-list of the input ALTs (%s)" % (obs_alts, what))]
    miss = []
    for i in range(1, n):
        a = rec["alts"][i - 1]
        got = a in obs_alts
        if E.tested[i] is not None:
            col.count("fn_filter_alleles_decided")
            note_boundary(col, "fn_", filt, E.tested[i])
        if got != E.keep[i]:
            if E.tested[i] is None:
                miss.append(("unfiltered-alt-dropped", "ALT %d %s was dropped although no predicate applies to it (%s)" % (i, a, what)))
            else:
                miss.append((classify_miss(filt[0], E.tested[i], filt[2]), "ALT %d (value %s) was %s but '%s %s %s' is %s on the decimal text (%s)"
                             % (i, E.tested[i], "kept" if got else "dropped", E.tested[i], filt[1], filt[2], E.keep[i], what)))
    obs_mask = bool(locus.mask_reference_allele)
    if E.tested[0] is not None:
        col.count("fn_filter_alleles_decided")
        note_boundary(col, "fn_", filt, E.tested[0])
    if obs_mask != E.mask:
        if E.tested[0] is not None and not E.mask_in:
            miss.append((classify_miss(filt[0], E.tested[0], filt[2]), "reference (value %s) %s masked but '%s %s %s' is %s on the decimal text (%s)"
                         % (E.tested[0], "is" if obs_mask else "is not", E.tested[0], filt[1], filt[2], not E.ref_failed, what)))
        elif filt is not None and FIELD[filt[0]]["Number"] == "A" and obs_mask and not E.mask_in:
            miss.append(("a-length-filter-applied-to-reference", "reference masked by a filter on the A-length field %s (%s)" % (filt[0], what)))
        else:
            miss.append(("reference-mask-wrong", "mask_reference_allele=%s, demanded %s (%s)" % (obs_mask, E.mask, what)))
    if miss:
        return found + refine_miss(E, rec, obs_alts, miss)[:2]
    if [a for a in rec["alts"] if a in obs_alts] != obs_alts:
        return found + [("retained-alt-order-changed", "alts %s, input order %s (%s)" % (obs_alts, E.alts, what))]
    if E.ref_failed:
        col.count("fn_ref_masked_by_filter")
    if filt is not None and len(rec["alts"]) and not E.alts:
        col.count("fn_all_alts_removed")
    # ---- prior
    f = np.asarray(locus.frequencies)
    if f.shape != (E.n_out,):
        found.append(("prior-length-differs-from-retained-alleles", "frequencies has shape %s for %d retained alleles (%s)" % (f.shape, E.n_out, what)))
    elif E.prior is None:
        col.count("fn_all_zero_prior")
    else:
        col.count("fn_prior_checked")
        want = np.array([float(x) for x in E.prior])
        f = f.astype(float)
        if np.any(np.isnan(f)) or float(np.abs(f - want).max()) > TOL_FN:
            key = "flat-prior-wrong" if tag is None else "prior-differs-from-normalised-named-values"
            if E.mask and not np.any(np.isnan(f)) and f[0] != 0:
                key = "masked-reference-keeps-prior"
            found.append((key, "frequencies %s, demanded %s (%s)" % (np.round(f, 6).tolist(), np.round(want, 6).tolist(), what)))
        else:
            col.maxv("fn_max_prior_error", float(np.abs(f - want).max()))
    # ---- variants
    cols = E.variant_columns(rec["ref"])
    obs = sorted((int(v.start) - rec["pos0"], tuple(v.alleles)) for v in locus.variants)
    col.count("fn_variants_checked")
    ok = [c for c, _ in obs] == [c for c, _ in cols] and all(o[1][0] == b[0] and sorted(o[1]) == sorted(b) and len(o[1]) == len(b) for o, (_, b) in zip(obs, cols))
    if not ok:
        found.append(("locus-variants-not-from-retained-alleles", "variants %s, polymorphic columns of the retained sequences %s (%s)" % (obs, cols, what)))
    return found


def note_boundary(col, prefix, filt, tok):
    if filt is not None and Decimal(tok) == Decimal(filt[2]):
        col.count(prefix + "equal_text_boundary")
        if FIELD[filt[0]]["Type"] == "Float":
            col.count(prefix + ("equal_text_inexact_f32" if f32_inexact(tok) else "equal_text_exact_f32"))


def exact_dead_allele_check(locus, rec, tag, filt, col):
    """What call-exact computes from this locus object when the READS favour a dead allele (prior exactly 0 or masked
    reference): the exact-caller functions are driven with the locus's own haplotypes and frequencies and with many
    copies of a read matching the dead allele.  Every genotype holding a dead allele must get posterior EXACTLY 0 - a leak
    far below the 3 decimals of the VCF is still a leak - for inbreeding 0 and > 0, and the mode must avoid the allele."""
    from mchap.calling.exact import genotype_likelihoods, genotype_posteriors, posterior_mode

    f = np.asarray(locus.frequencies, dtype=float)
    if f.ndim != 1 or len(f) < 2 or np.any(np.isnan(f)) or not np.any(f == 0) or not np.any(f > 0):
        return []
    haps = np.asarray(locus.encode_haplotypes())
    if haps.ndim != 2 or haps.shape[1] == 0 or len(haps) != len(f) or len(haps) > 6:
        return []
    dead = [int(i) for i in np.where(f == 0)[0]]
    n_alleles = [int(x) for x in locus.count_alleles()]
    width = max(n_alleles)
    what = "%s with %s" % (rec_text(rec), opt_text(tag, filt))
    found = []
    ploidy = 2 + 2 * (len(rec["alts"]) % 2)
    # one read per dead allele, each standing for many identical reads
    reads = np.full((len(dead), haps.shape[1], width), np.nan)
    for r_, d in enumerate(dead):
        for j in range(haps.shape[1]):
            reads[r_, j, : n_alleles[j]] = 0.001 / max(1, n_alleles[j] - 1)
            reads[r_, j, int(haps[d, j])] = 0.999
    counts = np.full(len(dead), 150, dtype=np.int64)
    gs = M.genotypes_vcf_order(len(haps), ploidy)
    bad_idx = [k for k, g in enumerate(gs) if any(a in dead for a in g)]
    for F in (0.0, 0.1, 0.5):
        col.count("fn_exact_dead_allele_cases")
        if F > 0:
            col.count("fn_exact_dead_allele_cases_inbred")
        try:
            llks = genotype_likelihoods(reads=reads, read_counts=counts, haplotypes=haps, ploidy=ploidy)
            probs = np.asarray(genotype_posteriors(log_likelihoods=llks, ploidy=ploidy, n_alleles=len(haps), inbreeding=F, frequencies=f))
            res = posterior_mode(reads=reads, read_counts=counts, haplotypes=haps, ploidy=ploidy, inbreeding=F, frequencies=f,
                                 return_support_prob=True, return_posterior_frequencies=True, return_posterior_occurrence=True)
        except Exception as ex:  # noqa: BLE001
            found.append(("exact-caller-raised-on-zero-prior-allele", "%s: %s (ploidy %d, inbreeding %r; %s)" % (type(ex).__name__, str(ex)[:200], ploidy, F, what)))
            break
        leak = float(np.max(probs[bad_idx])) if bad_idx else 0.0
        mode = [int(a) for a in res[0]]
        afp = np.asarray(res[-2], dtype=float)
        if leak != 0.0 or np.any(np.isnan(probs)):
            found.append(("dead-allele-has-posterior", "genotype_posteriors gives a genotype holding a zero-prior allele probability %.3g (must be exactly 0; alleles %s dead, frequencies %s, ploidy %d, inbreeding %r, 150 reads matching each dead allele; %s)"
                          % (leak, dead, np.round(f, 5).tolist(), ploidy, F, what)))
            break
        if any(a in dead for a in mode):
            found.append(("dead-allele-in-genotype", "posterior_mode calls %s which uses a zero-prior allele (dead %s, ploidy %d, inbreeding %r; %s)" % (mode, dead, ploidy, F, what)))
            break
        if np.any(afp[dead] != 0.0):
            found.append(("dead-allele-has-posterior", "posterior_mode reports allele frequencies %s for dead alleles %s (ploidy %d, inbreeding %r; %s)" % (afp[dead].tolist(), dead, ploidy, F, what)))
            break
    return found


def fn_combos(rng, rec):
    """(tag, filt) pairs for one record: every field x every operator with an own-token threshold, some others."""
    out = [(None, None), ("AFP", None), ("WT", None), ("RC", None)]
    tags = [None, None, "AFP", "WT", "RC"]
    for field in FILTER_FIELDS:
        for op in OPS:
            thr = own_threshold(rng, rec, field)
            out.append((tags[int(rng.integers(len(tags)))], (field, op, thr)))
        out.append((tags[int(rng.integers(len(tags)))], (field, OPS[int(rng.integers(len(OPS)))], str(EXTRA_THR[int(rng.integers(len(EXTRA_THR)))]))))
    return out


def run_fn_records(recs, combos_for, col, wd, name):
    """Write the records, read them back with pysam, call the real function for every combo."""
    import pysam

    from mchap.io import LocusPrior
    from vlib import hapvcf

    contigs = {}
    for r in recs:
        contigs.setdefault(r["contig"], r["_contig_seq"])
    text = hapvcf.render(contigs, recs, info_defs=DEFS)
    path = hapvcf.write(os.path.join(wd, name + ".vcf"), text)
    by_pos = {(r["contig"], r["pos0"]): r for r in recs}
    all_found = []
    with pysam.VariantFile(path) as vf:
        for record in vf.fetch():
            rec = by_pos[(record.chrom, record.start)]
            for tag, filt in combos_for(rec):
                fs = None if filt is None else "%s%s%s" % filt
                locus, exc = None, None
                try:
                    locus = LocusPrior.from_variant_record(record, frequency_tag=tag, allele_filter=fs)
                except Exception as ex:  # noqa: BLE001
                    exc = ex
                found = fn_check(rec, tag, filt, locus, exc, col)
                if not found and exc is None:
                    found = found + exact_dead_allele_check(locus, rec, tag, filt, col)
                col.case({"k": "fn", "r": rec_text(rec), "t": tag, "f": fs}, nontrivial=bool(rec["alts"]) and (tag is not None or filt is not None))
                seen = set()
                for mech, msg in found:
                    if mech not in seen:
                        seen.add(mech)
                        col.violation(mech, msg, {"kind": "fn", "record": slim(rec), "contig_seq": rec["_contig_seq"], "tag": tag, "filter": list(filt) if filt else None})
                all_found += found
                if len(col.samples) < 1 and filt is not None and tag is not None and len(rec["alts"]) >= 2 and exc is None:
                    col.sample({"kind": "fn", "record": rec_text(rec), "options": opt_text(tag, filt), "observed": {
                        "alts": list(locus.alts), "frequencies": np.asarray(locus.frequencies).tolist(), "mask_reference_allele": bool(locus.mask_reference_allele)}})
    for p in (path, path + ".tbi", os.path.join(wd, name + ".vcf")):
        if os.path.exists(p):
            os.remove(p)
    return all_found


def run_fn_batch(seed, sh, b, n_records, col, wd):
    from vlib import datasets, hapvcf

    rng = gen.rng_for(seed, ID, sh, b)
    contigs = {"chr1": datasets.random_sequence(rng, 60 * n_records + 200)}
    recs = hapvcf.make_hap_vcf(rng, contigs, n_records, alt_range=(0, 6), length_range=(1, 30), with_std_info=False)
    for i, r in enumerate(recs):
        forced = {}
        if i % 10 == 0 and len(r["alts"]) >= 2:
            forced = {"tokens": {"AFP": (["0.7", "0.2", "0.1"] + ["0.05"] * 6)[: 1 + len(r["alts"])]}}
        assign_info(rng, r, forced)
        r["_contig_seq"] = contigs[r["contig"]]
    crng = gen.rng_for(seed, ID, sh, 5000 + b)
    run_fn_records(recs, lambda rec: fn_combos(crng, rec), col, wd, "fn%03d" % b)


# ---------------------------------------------------------------------------------------------------------------------
# CLI level


def build_dataset(rng, root):
    from vlib import datasets

    shutil.rmtree(root, ignore_errors=True)
    ploidy = int(rng.choice([2, 4]))
    ds = datasets.make_dataset(rng, root, n_samples=3, n_loci=9, ploidy=[ploidy], depth=(5, 10), contig_len=1100, snv_range=(1, 4),
                               multi_allelic=0.3)
    ds.the_ploidy = ploidy
    with open(os.path.join(root, "parents.txt"), "w") as fh:
        fh.write("S1\t.\t.\nS2\t.\t.\nS3\tS1\tS2\n")
    ds.parents_file = os.path.join(root, "parents.txt")
    # per-sample inbreeding coefficients (call / call-exact runs use none, a scalar or this file)
    ds.inbreeding_file = os.path.join(root, "inbreeding.txt")
    with open(ds.inbreeding_file, "w") as fh:
        for s_, v in zip(ds.samples, (0.05, 0.4, 0.2)):
            fh.write("%s\t%r\n" % (s_, v))
    return ds


def locus_alts(rng, ds, L, n_alts):
    """ALT haplotype strings for one locus: the true haplotypes of the samples and random combinations of the SNV alleles."""
    from vlib import datasets

    ref = ds.contigs[L["contig"]][L["start"]:L["stop"]]
    cands = []
    for s in ds.samples:
        for hap in ds.genotypes[(s, L["name"])]:
            sq = datasets.hap_sequence(ds.contigs, L, hap, L["start"], L["stop"])
            if sq != ref and sq not in cands:
                cands.append(sq)
    guard = 0
    while L["snvs"] and len(cands) < n_alts + 2 and guard < 60:
        guard += 1
        hap = tuple(([v["ref"]] + v["alts"])[int(rng.integers(0, 1 + len(v["alts"])))] for v in L["snvs"])
        sq = datasets.hap_sequence(ds.contigs, L, hap, L["start"], L["stop"])
        if sq != ref and sq not in cands:
            cands.append(sq)
    order = rng.permutation(len(cands))
    return [cands[int(i)] for i in order][:n_alts]


def build_hap_records(rng, ds):
    """One haplotype record per locus with designed INFO scenarios on the first loci that can carry them."""
    recs = []
    roles = {}
    multi = [i for i, L in enumerate(ds.loci) if len(L["snvs"]) >= 2]
    single = [i for i, L in enumerate(ds.loci) if len(L["snvs"]) >= 1]
    pick = list(multi) + [i for i in single if i not in multi]
    # roles: boundary (0.7,0.2,0.1), trailing-zero, all-zero, no-alt, refmasked, refmasked-no-alt
    for role, idx in zip(["boundary", "last-zero", "ref-zero", "tiny", "last-zero-2", "all-zero"], pick):
        roles[idx] = role
    rest = [i for i in range(len(ds.loci)) if i not in roles]
    for role in ["refmasked-no-alt", "no-alt", "refmasked"]:
        if rest:
            # never put an early-abort candidate last: keep the designed unusable records in front of ordinary ones
            roles[rest.pop(0)] = role
    for i, L in enumerate(ds.loci):
        role = roles.get(i, "random")
        want = {"boundary": int(rng.integers(2, 5)), "last-zero": int(rng.integers(2, 5)), "last-zero-2": int(rng.integers(1, 4)), "ref-zero": int(rng.integers(1, 4)),
                "all-zero": int(rng.integers(1, 4)), "tiny": int(rng.integers(2, 5)), "no-alt": 0, "refmasked-no-alt": 0, "refmasked": int(rng.integers(1, 5))}.get(role, int(rng.integers(0, 6)))
        alts = locus_alts(rng, ds, L, want)
        r = {"contig": L["contig"], "pos0": L["start"], "id": L["name"], "ref": ds.contigs[L["contig"]][L["start"]:L["stop"]], "alts": alts, "role": role}
        n = 1 + len(alts)
        forced = {}
        if role == "boundary":
            base = [["0.7", "0.2", "0.1"], ["0.9", "0.1", "0.3"], ["0.6", "0.3", "0.1"], ["0.5", "0.25", "0.125"]][int(rng.integers(4))]
            forced = {"tokens": {"AFP": (base + ["0.05", "0.15"])[:n]}, "refmasked": False}
        elif role == "tiny":
            # session 4: priors of extreme dynamic range - tiny but NOT zero (the alleles stay callable when the reads carry them)
            base = [["1", "1e-09", "1e-09", "1e-10", "1e-12"], ["0.999", "1e-08", "1e-09", "0.001", "1e-15"], ["1e-09", "1", "1e-11", "1e-09", "1e-20"]][int(rng.integers(3))]
            forced = {"tokens": {"AFP": base[:n]}, "refmasked": False}
        elif role in ("last-zero", "last-zero-2"):
            forced = {"AFP": "last-zero", "WT": "last-zero", "RC": "last-zero", "refmasked": False}
        elif role == "ref-zero":
            # the reference has prior exactly 0 without being flagged REFMASKED (reads of the samples may well carry it)
            forced = {"AFP": "ref-zero", "WT": "ref-zero", "RC": "ref-zero", "refmasked": False}
        elif role == "all-zero":
            forced = {"AFP": "all-zero", "WT": "all-zero", "RC": "all-zero"}
        elif role in ("refmasked", "refmasked-no-alt"):
            forced = {"refmasked": True}
        elif role == "no-alt":
            forced = {"refmasked": False}
        assign_info(rng, r, forced)
        recs.append(r)
    return recs


def plan_runs(rng, recs):
    """Option sets for one haplotype VCF; every one is run with the three programs."""
    # thresholds are taken from the values written in the file; the filter syntax is plain decimal (no exponent notation - the
    # program rejects 'AFP>=1e-09' with a clear message, which is not a property violation), so such tokens are left out
    file_toks = {f: sorted({t for r in recs for t in r["tokens"].get(f, []) if "e" not in t.lower()}) for f in FILTER_FIELDS}

    def thr_for(field):
        toks = file_toks[field]
        if toks and rng.random() < 0.75:
            return str(toks[int(rng.integers(len(toks)))])
        return str(EXTRA_THR[int(rng.integers(len(EXTRA_THR)))])

    def rtag():
        return [None, None, "AFP", "WT"][int(rng.integers(4))]

    b = next((r for r in recs if r.get("role") == "boundary"), None)
    bt = b["tokens"]["AFP"] if b is not None and len(b["tokens"]["AFP"]) >= 3 else ["0.7", "0.2", "0.1"]
    opts = [(None, None), ("AFP", None), ("WT", None)]
    opts += [(rtag(), ("AFP", ">=", bt[0])), (rtag(), ("AFP", "=", bt[0])), (rtag(), ("AFP", ">", bt[0])), (rtag(), ("AFP", "<=", bt[1])),
             (rtag(), ("AFP", "!=", bt[2])), (rtag(), ("AFP", "<", bt[0])), (rtag(), ("AFP", "==", bt[1]))]
    opts += [(rtag(), ("AC", ">=", "2")), (rtag(), ("AC", "=", "0"))]
    opts += [(rtag(), ("AAF", ">", "1000")), (rtag(), ("AFP", ">", "1000")), ("AFP", ("AFP", ">", "0")), ("WT", ("WT", "!=", "0"))]
    for _ in range(4):
        field = FILTER_FIELDS[int(rng.integers(len(FILTER_FIELDS)))]
        opts.append((rtag(), (field, OPS[int(rng.integers(len(OPS)))], thr_for(field))))
    opts += [("AFP", ("AFP", OPS[int(rng.integers(len(OPS)))], thr_for("AFP"))), ("WT", ("RC", OPS[int(rng.integers(len(OPS)))], thr_for("RC")))]
    # gentle filters that leave most records usable
    opts += [("AFP", ("AAF", "<=", thr_for("AAF"))), ("WT", ("AC", "<", "3")), (None, ("RC", ">=", "1")), ("AFP", ("WT", "<", "1000")),
             (rtag(), ("AAF", "!=", thr_for("AAF"))), ("WT", ("AFP", ">=", "0.1"))]
    # Integer frequency field: runs of their own
    opts += [("RC", None), ("RC", ("RC", ">=", "2")), ("RC", ("AAF", OPS[int(rng.integers(len(OPS)))], thr_for("AAF")))]
    runs = []
    for k, (tag, filt) in enumerate(opts):
        for prog in PROGRAMS:
            runs.append({"program": prog, "tag": tag, "filter": list(filt) if filt else None, "report": "both" if (k + PROGRAMS.index(prog)) % 3 == 0 else "format",
                         "mcmc_seed": int(rng.integers(1, 10**6)),
                         "inbreeding": None if prog == "call-pedigree" else [None, "0.1", "file", "0.3"][(k + 2 * PROGRAMS.index(prog)) % 4]})
    return runs


def argv_for(ds, hap_path, run):
    a = [run["program"], "--haplotypes", hap_path, "--bam"] + list(ds.bams) + ["--ploidy", str(ds.the_ploidy)]
    if run["program"] == "call-pedigree":
        a += ["--sample-parents", ds.parents_file]
    if run["program"] != "call-exact":
        a += ["--mcmc-steps", "200", "--mcmc-burn", "100", "--mcmc-seed", str(run["mcmc_seed"])]
    if run["tag"] is not None:
        a += ["--prior-frequencies", run["tag"]]
    if run["filter"] is not None:
        a += ["--filter-input-haplotypes", "%s%s%s" % tuple(run["filter"])]
    if run.get("inbreeding"):
        a += ["--inbreeding", ds.inbreeding_file if run["inbreeding"] == "file" else run["inbreeding"]]
    a += REPORT_BOTH if run["report"] == "both" else REPORT_FORMAT
    return a


def root_cause(exc):
    e = exc
    guard = 0
    while getattr(e, "__cause__", None) is not None and guard < 10:
        e = e.__cause__
        guard += 1
    return e


def check_record(prog, rec, E, out, header, tag, filt, col):
    """One output record against the oracle.  Returns list of (mechanism, message)."""
    what = "%s: input %s with %s" % (prog, rec_text(rec), opt_text(tag, filt))
    found = []
    col.count("cli_records_checked")
    if out.ref != rec["ref"]:
        return [("ref-sequence-changed", "output REF %s (%s)" % (out.ref, what))]
    obs_alts = list(out.alts)
    stray = [a for a in obs_alts if a not in rec["alts"]]
    if stray or len(set(obs_alts)) != len(obs_alts):
        return [("alt-not-from-input", "output ALT %s is not a sub-list of the input ALTs (%s)" % (obs_alts, what))]
    miss = []
    for i in range(1, E.n_in):
        a = rec["alts"][i - 1]
        got = a in obs_alts
        col.count("cli_alt_decided")
        if E.tested[i] is not None:
            note_boundary(col, "cli_", filt, E.tested[i])
        if got != E.keep[i]:
            if E.tested[i] is None:
                miss.append(("unfiltered-alt-dropped", "ALT %d %s is absent from the output although no predicate applies to it (%s)" % (i, a, what)))
            else:
                miss.append((classify_miss(filt[0], E.tested[i], filt[2]), "ALT %d (value %s) was %s but '%s %s %s' is %s on the decimal text (%s)"
                             % (i, E.tested[i], "kept" if got else "dropped", E.tested[i], filt[1], filt[2], E.keep[i], what)))
    obs_mask = out.info.get("REFMASKED") is True
    if E.tested[0] is not None:
        note_boundary(col, "cli_", filt, E.tested[0])
    if obs_mask != E.mask:
        if E.tested[0] is not None and not E.mask_in:
            miss.append((classify_miss(filt[0], E.tested[0], filt[2]), "reference (value %s): REFMASKED %s but '%s %s %s' is %s on the decimal text (%s)"
                         % (E.tested[0], "set" if obs_mask else "not set", E.tested[0], filt[1], filt[2], not E.ref_failed, what)))
        elif filt is not None and FIELD[filt[0]]["Number"] == "A" and obs_mask and not E.mask_in:
            miss.append(("a-length-filter-applied-to-reference", "REFMASKED set by a filter on the A-length field %s (%s)" % (filt[0], what)))
        else:
            miss.append(("reference-mask-wrong", "REFMASKED %s, demanded %s (%s)" % (obs_mask, E.mask, what)))
    if miss:
        col.count("cli_records_misfiltered")
        return refine_miss(E, rec, obs_alts, miss)[:2]
    if [a for a in rec["alts"] if a in obs_alts] != obs_alts:
        return [("retained-alt-order-changed", "output ALT %s, input order %s (%s)" % (obs_alts, E.alts, what))]
    if E.mask:
        col.count("cli_refmasked_records")
    if filt is not None and rec["alts"] and not E.alts:
        col.count("cli_all_alts_removed_records")
    n_out = E.n_out
    flt = [] if out.filter in (".", "") else out.filter.split(";")
    samples = header.samples
    gts = {s: out.gt(s)[0] for s in samples}
    # ---- usable or not
    if E.kind != "PASS":
        col.count("cli_noa_records" if E.kind == "NOA" else "cli_af0_records")
        if "NOA" not in flt and "AF0" not in flt:
            found.append(("unusable-record-not-flagged", "FILTER is %s but the record has no usable allele (demanded %s) (%s)" % (out.filter, E.kind, what)))
        elif E.kind not in flt:
            found.append(("noa-af0-filter-kind-wrong", "FILTER is %s, demanded %s (%s)" % (out.filter, E.kind, what)))
        bad = [s for s in samples if gts[s] is None or any(a is not None for a in gts[s])]
        col.count("cli_gt_checked", len(samples))
        if bad:
            found.append(("unusable-record-has-calls", "sample %s GT %s in a record without a usable allele (%s)" % (bad[0], out.samples[bad[0]].get("GT"), what)))
    else:
        if "NOA" in flt or "AF0" in flt:
            found.append(("usable-record-flagged-noa-af0", "FILTER is %s but alleles %s are usable (%s)" % (out.filter, sorted(set(range(n_out)) - E.dead), what)))
        # ---- AFPRIOR
        pri = out.info_list("AFPRIOR")
        if pri is None or len(pri) != n_out or any(x is None for x in pri):
            found.append(("afprior-missing-or-wrong-length", "AFPRIOR=%s for %d output alleles (%s)" % (out.info.get("AFPRIOR"), n_out, what)))
        else:
            col.count("cli_afprior_checked")
            if tag is not None:
                col.count("cli_afprior_from_tag")
            want = [float(x) for x in E.prior]
            err = max(abs(a - b) for a, b in zip(pri, want))
            col.maxv("cli_max_afprior_error", err)
            if err > TOL_TEXT:
                key = "flat-prior-wrong" if tag is None else "prior-differs-from-normalised-named-values"
                if E.mask and pri[0] != 0:
                    key = "masked-reference-keeps-prior"
                found.append((key, "AFPRIOR=%s, demanded %s (%s)" % (out.info.get("AFPRIOR"), [round(x, 4) for x in want], what)))
        # ---- dead alleles
        if E.dead:
            col.count("cli_dead_allele_records")
            if E.trailing_dead:
                col.count("cli_trailing_dead_records")
                if prog != "call-exact":
                    col.count("cli_trailing_dead_records_mcmc")
        for s in samples:
            gt = gts[s]
            col.count("cli_gt_checked")
            if gt is None:
                continue
            used = [a for a in gt if a is not None and a in E.dead]
            if used:
                found.append(("dead-allele-in-genotype", "sample %s GT %s uses allele %d which is %s (%s)"
                              % (s, out.samples[s].get("GT"), used[0], "the masked reference" if (used[0] == 0 and E.mask) else "of zero prior", what)))
            ploidy = len(gt)
            for key in ("AFP", "ACP", "AOP"):
                if key not in out.format or not E.dead:
                    continue
                vals = out.sample_list(s, key)
                if vals is None or len(vals) != n_out:
                    continue  # cardinality is judged below
                col.count("cli_posterior_zero_checked")
                bad = [j for j in sorted(E.dead) if vals[j] is None or abs(vals[j]) > TOL_ZERO]
                if bad:
                    found.append(("dead-allele-has-posterior", "sample %s %s=%s: allele %d is %s but has posterior (%s)"
                                  % (s, key, out.samples[s].get(key), bad[0], "the masked reference" if (bad[0] == 0 and E.mask) else "of zero prior", what)))
            if "GP" in out.format and E.dead:
                vals = out.sample_list(s, "GP")
                if vals is not None and len(vals) == M.n_genotypes(n_out, ploidy) and len(vals) <= 20000:
                    col.count("cli_gp_zero_checked")
                    for g in M.genotypes_vcf_order(n_out, ploidy):
                        if E.dead.intersection(g):
                            v = vals[M.genotype_index(g)]
                            if v is None or abs(v) > TOL_ZERO:
                                found.append(("dead-allele-has-posterior", "sample %s GP of genotype %s is %s although it contains a dead allele %s (%s)"
                                              % (s, "/".join(map(str, g)), v, sorted(E.dead), what)))
                                break
    # ---- cardinalities
    from vlib import vcfparse

    col.count("cli_wellformed_checked")
    for mech, msg in vcfparse.check_record_wellformed(out, header):
        if mech in ("format-cardinality-wrong", "info-cardinality-wrong") and E.trailing_dead and prog != "call-exact" and any(k in msg for k in (" AFP ", " ACP ", " AOP ", " AOPSUM ")):
            found.append((K_CARD, "%s; the last output allele (%d) has zero prior and was removed before sampling (%s)" % (msg, n_out - 1, what)))
        else:
            found.append((mech, "%s (%s)" % (msg, what)))
    return found


def exec_run(ds, recs, hap_path, run, col, payload):
    from vlib import cli, vcfparse

    prog, tag = run["program"], run["tag"]
    filt = tuple(run["filter"]) if run["filter"] else None
    handed = []
    spy_target = None
    if prog in ("call", "call-pedigree"):
        import importlib

        from vlib import monitors
        mod = importlib.import_module("mchap.application." + prog.replace("-", "_"))
        cname = "CallingMCMC" if prog == "call" else "PedigreeCallingMCMC"
        Real = getattr(mod, cname)

        def factory(*a, **kw):
            h = kw.get("haplotypes")
            handed.append(None if h is None else int(len(h)))
            return Real(*a, **kw)

        spy_target = (mod, cname, factory)
    if spy_target is not None:
        with monitors.patched(spy_target):
            out, exc = cli.run_inproc(argv_for(ds, hap_path, run))
    else:
        out, exc = cli.run_inproc(argv_for(ds, hap_path, run))
    cli.relax_warnings()
    col.count("cli_runs")
    col.count("cli_runs_" + prog)
    if run.get("inbreeding"):
        col.count("cli_runs_inbred")
    int_tag = tag is not None and FIELD[tag]["Type"] == "Integer"
    if int_tag:
        col.count("cli_integer_prior_runs")
    found = []
    header, outs = vcfparse.parse(out)
    by_pos = {}
    for o in outs:
        by_pos.setdefault((o.chrom, o.pos), []).append(o)
    exps = [Expect(r, tag, filt) for r in recs]
    order = sorted(range(len(recs)), key=lambda i: (recs[i]["contig"], recs[i]["pos0"]))
    first_missing = None
    seen_unusable = False
    for i in order:
        r, E = recs[i], exps[i]
        got = by_pos.get((r["contig"], r["pos0"] + 1), [])
        col.case({"k": "cli", "p": prog, "r": rec_text(r), "t": tag, "f": run["filter"], "rep": run["report"]}, nontrivial=bool(r["alts"]) and (tag is not None or filt is not None))
        if len(got) != 1:
            if first_missing is None:
                first_missing = i
            if exc is None:
                found.append(("record-not-emitted-exactly-once", "%s: input record %s has %d output records with %s" % (prog, rec_text(r), len(got), opt_text(tag, filt))))
            continue
        if seen_unusable:
            col.count("cli_records_after_unusable")
        if E.kind != "PASS":
            seen_unusable = True
        found += check_record(prog, r, E, got[0], header, tag, filt, col)
    if spy_target is not None and exc is None and None not in handed:
        # what the program hands to its sampler: every retained allele that is neither masked nor of zero prior must be there
        per = len(ds.samples) if prog == "call" else 1
        want_seq = [(i, exps[i].n_out - len(exps[i].dead)) for i in order if exps[i].kind == "PASS" for _ in range(per)]
        if len(want_seq) == len(handed):
            for (i, w_), g_ in zip(want_seq, handed):
                col.count("sampler_haplotype_sets_checked")
                if recs[i].get("role") == "tiny":
                    col.count("sampler_haplotype_sets_checked_tiny_priors")
                if g_ < w_:
                    found.append(("positive-prior-allele-withheld-from-sampler", "%s with %s: the sampler of record %s received %d haplotypes, but %d retained alleles are unmasked with a prior above zero (AFPRIOR would list them as possible)"
                                  % (prog, opt_text(tag, filt), rec_text(recs[i]), g_, w_)))
                    break
                if g_ > w_:
                    col.count("sampler_given_more_haplotypes_than_alive_not_judged")
        else:
            col.count("sampler_call_sequence_not_aligned_skipped")
    if exc is not None:
        col.count("cli_runs_raised")
        cause = root_cause(exc)
        cname = type(cause).__name__
        i = first_missing
        where = "before any record" if i is None else "at input record %s" % rec_text(recs[i])
        msg = "%s with %s raised %s (root cause %s: %s) %s; %d of %d records were emitted" % (
            prog, opt_text(tag, filt), type(exc).__name__, cname, str(cause)[:200], where, len(outs), len(recs))
        if int_tag and (cname == "UFuncTypeError" or (cname == "ValueError" and "NaN" in str(cause))):
            found.append((K_INT, msg + "; frequency field %s is Type=Integer" % tag))
        elif i is not None and exps[i].trailing_dead and prog != "call-exact" and cname == "ValueError" and "broadcast" in str(cause):
            found.append((K_CARD, msg + "; the last allele of that record has zero prior and the per-sample AOP/ACP vectors are shorter than the allele count"))
        elif (i is not None and prog != "call-exact" and cname == "ValueError" and "broadcast" in str(cause) and filt is not None
              and Expect(recs[i], tag, filt, emulate_f32=True).trailing_dead):
            col.count("cli_aborts_on_misfiltered_record")
            found.append((K_CARD, msg + "; with the allele set the program retains under its float32 comparison (see %s) the last allele of that record has zero "
                          "prior and the per-sample AOP/ACP vectors are shorter than the allele count" % K_F32))
        elif i is not None and exps[i].kind != "PASS":
            found.append(("run-aborted-on-unusable-record", msg + "; that record has no usable allele (demanded FILTER %s and missing calls)" % exps[i].kind))
        else:
            found.append(("run-aborted", msg))
    seen = set()
    for mech, msg in found:
        if mech not in seen:
            seen.add(mech)
            col.violation(mech, msg, payload)
    if len(col.samples) < 3 and exc is None and filt is not None and tag is not None and prog == "call" and outs:
        col.sample({"kind": "cli", "argv_tail": argv_for(ds, "<haps.vcf.gz>", run)[-12:], "input_records": [rec_text(r)[:300] for r in recs[:3]],
                    "output_records": [o.line[:400] for o in outs[:3]]})
    return found


def run_cli_vcf(seed, sh, di, vi, col, only=None):
    """Build dataset di of shard sh, haplotype VCF vi, and execute its runs (all, or the one at index `only`)."""
    from vlib import env, hapvcf

    drng = gen.rng_for(seed, ID, 100 + sh, 1000 * di)
    root = env.workdir("c16-s%02d-d%d" % (sh, di))
    ds = build_dataset(drng, root)
    return _run_vcfs(seed, sh, di, [vi], ds, col, only)


def _run_vcfs(seed, sh, di, vis, ds, col, only=None):
    from vlib import hapvcf

    for vi in vis:
        vrng = gen.rng_for(seed, ID, 100 + sh, 1000 * di + 1 + vi)
        recs = build_hap_records(vrng, ds)
        text = hapvcf.render(ds.contigs, recs, info_defs=DEFS)
        path = hapvcf.write(os.path.join(ds.root, "haps%d.vcf" % vi), text)
        runs = plan_runs(vrng, recs)
        col.count("cli_vcfs")
        for r in recs:
            col.add_to_set("cli_roles", r.get("role"))
        for k, run in enumerate(runs):
            if only is not None and k != only:
                continue
            exec_run(ds, recs, path, run, col, {"kind": "cli", "seed": seed, "shard": sh, "dataset": di, "vcf": vi, "run": k, "options": opt_text(run["tag"], tuple(run["filter"]) if run["filter"] else None),
                                                "program": run["program"]})


# ---------------------------------------------------------------------------------------------------------------------
# shard / replay


def run_shard(tier, seed, spec, col):
    from vlib import env

    sh = spec["shard"]
    wd = env.workdir("c16-s%02d-fn" % sh)
    for b in range(spec["fn_batches"]):
        run_fn_batch(seed, sh, b, spec["fn_records"], col, wd)
    shutil.rmtree(wd, ignore_errors=True)
    for di in range(spec["datasets"]):
        drng = gen.rng_for(seed, ID, 100 + sh, 1000 * di)
        root = env.workdir("c16-s%02d-d%d" % (sh, di))
        ds = build_dataset(drng, root)
        _run_vcfs(seed, sh, di, list(range(spec["vcfs"])), ds, col)
        shutil.rmtree(root, ignore_errors=True)


def replay(obj, col):
    from vlib import env

    c = obj["case"]
    if c["kind"] == "fn":
        rec = dict(c["record"])
        rec["_contig_seq"] = c["contig_seq"]
        info = {k: ",".join(v) for k, v in rec["tokens"].items()}
        if rec.get("refmasked"):
            info["REFMASKED"] = True
        rec["info"] = info
        filt = tuple(c["filter"]) if c["filter"] else None
        wd = env.workdir("c16-replay")
        run_fn_records([rec], lambda r: [(c["tag"], filt)], col, wd, "replay")
    else:
        run_cli_vcf(c.get("seed", obj.get("seed", 0)), c["shard"], c["dataset"], c["vcf"], col, only=c["run"])
        shutil.rmtree(env.workdir("c16-s%02d-d%d" % (c["shard"], c["dataset"])), ignore_errors=True)
