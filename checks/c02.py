"""C02 - the `mchap call` sampler is stationary at the exact posterior that call-exact enumerates.

Monitors
  * probabilities_array filled by the compiled gibbs_options / mh_options for every ordered state
    and every allele position (deterministic, numba semantics);
  * state and return of the compiled compound_step / mcmc_sampler over seeds (sorted, llk of the state it left);
  * calling.exact.genotype_posteriors (what call-exact enumerates) against the oracle posterior;
  * long-run frequencies of the real sampler against the exact posterior (auxiliary, loose bound).
Oracle: independent exact posterior pi over unordered genotypes; exchangeable lift nu(x)=pi(G(x))/perms(G(x)).
"""

import itertools
import math

import numpy as np

from vlib import gen
from vlib.oracles import model as M
from vlib.report import unjson_array

ID = "C02"
TECHNIQUE = "runtime monitoring: transition vectors of the compiled gibbs_options/mh_options observed for every ordered state and position; exact full-conditional / detailed-balance oracle; compound_step state+llk monitor; sampler-vs-exact frequency cross-check; exact compound-step kernel (all scan orders x choice sequences); program level: CallingMCMC wrapped where mchap call constructs it, exact posterior of its arguments vs the GP vector printed by mchap call-exact on the same inputs; one model object re-fitted on other reads vs a fresh object"
LEVEL = "exploration"
LEVEL_TEXT = (
    "Exploration: on generated instances (ploidy 2-4, 2-6 known haplotypes over 1-5 sites, prior frequencies "
    "none/flat/skewed/with zeros, F in [0,1), 0-12 weighted gapped reads) the compiled kernels are observed on every ordered "
    "genotype state and allele position: the Gibbs vector equals the exact full conditional of the call-exact "
    "posterior, the MH vector is a distribution satisfying detailed balance for the same target, compound steps leave "
    "a sorted state whose returned likelihood is that state's. The distribution call-exact enumerates is compared with "
    "the oracle on the same instances. Held on what was observed; not a convergence-rate claim."
)
LEVEL_TEXT += ' Session 3: the wide kind also covers large pools (ploidy 24-256) of 2-5 haplotypes.'
LEVEL_NOTE = "Trusts the independent posterior oracle (vlib/oracles/model.py). Long-run frequency comparison is auxiliary with a loose bound and is never the deciding monitor."
RULE = (
    "case = one (instance, ordered state, allele position, step type) transition vector or one compound-step observation; "
    "non-trivial = F>0 or non-flat frequencies or repeated allele in the state; distinct by hash of (instance, state, position, type)"
)
LEVEL_TEXT += ' Also observed: the exact compound-step kernel (pi P = pi); at program level, for generated BAM datasets (mixed ploidy, per-sample inbreeding files, zero and very small prior frequencies) the exact posterior of the arguments mchap call hands to its sampler equals the GP vector mchap call-exact prints (to its 3 decimals); the second fit of one CallingMCMC object on other reads is bit-identical to a fresh object.'
LEVEL_TEXT += ' Session 4: read probabilities of exactly 0 for alleles the known haplotypes carry (phred-0 base calls, hard calls) in a fifth of the instances.'
ASSUMPTIONS = ["states whose posterior mass is zero (contain a zero-frequency allele) are unreachable and skipped"]
TOL = 1e-9


def plan(tier, seed):
    n = 14
    inst = 40 if tier == "quick" else 500
    specs = [{"name": "k%02d" % i, "kind": "kernel", "shard": i, "instances": inst, "timeout": 7000} for i in range(n)]
    specs.append({"name": "freq0", "kind": "freq", "shard": 80, "instances": 6 if tier == "quick" else 40, "timeout": 7000})
    specs.append({"name": "freq1", "kind": "freq", "shard": 81, "instances": 6 if tier == "quick" else 40, "timeout": 7000})
    for i in range(2 if tier == "quick" else 6):
        specs.append({"name": "cli%d" % i, "kind": "cli", "shard": 90 + i, "datasets": 1 if tier == "quick" else 3, "timeout": 7000})
    for i in range(4):
        specs.append({"name": "wide%d" % i, "kind": "wide", "shard": 130 + i, "instances": 20 if tier == "quick" else 100, "timeout": 7000})
    for i in range(2):
        specs.append({"name": "reuse%d" % i, "kind": "reuse", "shard": 120 + i, "instances": 25 if tier == "quick" else 300, "timeout": 7000})
    for i in range(4):
        specs.append({"name": "prog%d" % i, "kind": "prog", "shard": 110 + i, "datasets": 12 if tier == "quick" else 60, "timeout": 7000})
    for i in range(4 if tier == "quick" else 8):
        specs.append({"name": "comp%d" % i, "kind": "compound", "shard": 95 + i, "instances": 6 if tier == "quick" else 40, "timeout": 7000})
    return specs


def required(tier):
    return {"gibbs_vectors": 5000, "mh_vectors": 5000, "mh_db_edges": 5000, "compound_steps": 1000, "exact_posterior_checked": 50,
            "vectors_inbred": 1000, "vectors_nonflat": 1000, "vectors_zero_freq": 100, "vectors_with_cache": 1000,
            "freq_runs": 8, "cli_confident_calls_compared": 5, "compound_kernels_checked": 20,
            "compound_paths_enumerated": 2000, "compound_rows_from_homozygous_state": 20,
            "prog_targets_compared": 100, "prog_targets_with_prior_frequencies": 20, "prog_targets_with_zero_frequency_allele": 5,
            "prog_targets_inbred": 20, "prog_datasets_per_sample_inbreeding": 4, "prog_records_with_tiny_nonzero_prior": 5,
            "wide_gibbs_vectors": 400, "wide_mh_vectors": 400, "wide_vectors_allele_index_ge_64": 200, "wide_high_ploidy_instances": 4,
            "reuse_second_fits_compared": 60, "reuse_llk_cells_checked": 2000, "reuse_second_fit_revisits_genotype_of_first": 20,
            "instances_with_zero_probability_read_entries": 10}


def make_instance(rng, tier):
    ploidy = int(rng.choice([1, 2, 2, 3, 3, 4, 4] if tier == "quick" else [1, 2, 2, 3, 3, 4, 4, 5]))
    n_pos = int(rng.integers(1, 6))
    n_haps = int(rng.integers(2, 7 if ploidy <= 3 else 6))
    if rng.random() < 0.12:
        # pooled / high-ploidy genotypes with few known haplotypes
        ploidy = int(rng.choice([8, 10, 12]))
        n_haps = int(rng.integers(2, 4)) if ploidy == 8 else 2
    haps, n_alleles = gen.gen_haplotype_set(rng, n_haps, n_pos)
    n_haps = len(haps)
    n_nucl = int(max(2, n_alleles.max()))
    n_reads = int(rng.integers(0, 13))
    if n_reads and rng.random() < 0.7:
        truth = haps[rng.integers(0, n_haps, size=ploidy)]
        reads = gen.gen_reads_from_haps(rng, truth, n_reads, n_alleles, n_nucl=n_nucl, gap_rate=float(rng.choice([0, 0.2, 0.5])),
                                        err=float(rng.choice([0.0024, 0.01, 0.1])))
    else:
        reads = gen.gen_reads(rng, n_reads, n_alleles, n_nucl=n_nucl, style=str(rng.choice(["mchap", "dirichlet"])))
    if n_reads == 0:
        reads = np.full((1, n_pos, n_nucl), np.nan)
    elif rng.random() < 0.2:
        # session 4: probabilities of exactly 0 for alleles the known haplotypes carry (phred-0 base calls under
        # --use-base-phred-scores, hard calls): a factor of zero is not a gap - the read excludes that haplotype
        z = (rng.random(reads.shape) < 0.2) & ~np.isnan(reads)
        z &= np.arange(n_nucl)[None, None, :] < n_alleles[None, :, None]
        # one haplotype keeps a positive probability under every read, so the posterior is defined (a read that excludes every
        # known haplotype leaves nothing to compare)
        keep = haps[int(rng.integers(n_haps))]
        z[:, np.arange(n_pos), keep.astype(int)] = False
        reads = np.where(z, 0.0, reads)
    counts = gen.gen_counts(rng, len(reads), mode=str(rng.choice(["ones", "rand"])))
    freqs = gen.gen_frequencies(rng, n_haps) if n_haps >= 2 else None
    F = gen.gen_inbreeding(rng)
    return dict(ploidy=ploidy, haps=haps, reads=reads, counts=counts, freqs=freqs, F=F, zeros=bool(n_reads and (reads == 0).any()))


def pack(I):
    return {"ploidy": I["ploidy"], "haps": I["haps"].tolist(), "reads": I["reads"].tolist(), "reads_shape": list(I["reads"].shape),
            "counts": I["counts"].tolist(), "freqs": None if I["freqs"] is None else I["freqs"].tolist(), "F": I["F"]}


def unpack(d):
    return dict(ploidy=d["ploidy"], haps=np.array(d["haps"], dtype=np.int8).reshape(len(d["haps"]), -1),
                reads=unjson_array(d["reads"], float).reshape(d["reads_shape"]), counts=np.array(d["counts"], dtype=np.int64),
                freqs=None if d["freqs"] is None else np.array(d["freqs"], dtype=float), F=d["F"])


class Target:
    def __init__(self, I):
        self.I = I
        n = len(I["haps"])
        self.gs, self.post, self.llks, self.lprs = M.exact_posterior(I["reads"], I["counts"], I["haps"], I["ploidy"], I["F"], I["freqs"])
        self.idx = {g: i for i, g in enumerate(self.gs)}
        self.lj = [a + b for a, b in zip(self.llks, self.lprs)]

    def log_nu(self, x):
        g = tuple(sorted(int(a) for a in x))
        i = self.idx[g]
        return self.lj[i] - M.log_perms(g)

    def llk(self, x):
        return self.llks[self.idx[tuple(sorted(int(a) for a in x))]]


def new_cache():
    from numba import types
    from numba.typed import Dict

    d = Dict.empty(key_type=types.int64, value_type=types.float64)
    d[-1] = np.nan
    return d


def check_instance(I, rng, col, inst_id, tier):
    from mchap.calling import mcmc as CM
    from mchap.calling.exact import genotype_likelihoods, genotype_posteriors

    tgt = Target(I)
    n = len(I["haps"])
    ploidy = I["ploidy"]
    packed = pack(I)
    nonflat = I["freqs"] is not None and (np.ptp(I["freqs"]) > 1e-12)
    zero = I["freqs"] is not None and bool((I["freqs"] == 0).any())

    def viol(mech, msg, x=None, extra=None):
        col.violation(mech, msg, {"instance": packed, "state": None if x is None else [int(a) for a in x], "extra": extra})

    # what call-exact enumerates == oracle posterior
    lk = genotype_likelihoods(I["reads"], ploidy, I["haps"], read_counts=I["counts"])
    post = genotype_posteriors(lk.astype(np.float64), ploidy, n, I["F"], I["freqs"])
    col.count("exact_posterior_checked")
    d = float(np.abs(post - np.array(tgt.post)).max())
    col.maxv("max_exact_posterior_diff", d)
    lscale = float(np.abs(lk[np.isfinite(lk)]).max()) if np.isfinite(lk).any() else 0.0
    if d > 1e-6 + 4 * 2.0**-23 * lscale:
        viol("call-exact-posterior-differs-from-model", "genotype_posteriors differs from the oracle posterior by %g" % d)

    states = list(itertools.product(range(n), repeat=ploidy))
    if len(states) > (400 if tier == "quick" else 1300):
        sel = rng.permutation(len(states))[: (400 if tier == "quick" else 1300)]
        states = [states[i] for i in sel]
    llks_a = np.empty(n)
    lpri_a = np.empty(n)
    prob_a = np.empty(n)
    cache = new_cache() if rng.random() < 0.5 else None
    mh_rows = {}

    def mh_row(x, k):
        key = (tuple(x), k)
        if key not in mh_rows:
            g = np.array(x, dtype=np.int32)
            CM.mh_options(g, k, I["haps"], I["reads"], I["counts"], I["F"], llks_a, lpri_a, prob_a, I["freqs"], cache)
            col.count("mh_vectors")
            if not np.array_equal(g, np.array(x)):
                viol("options-kernel-mutates-state", "mh_options left genotype %s (was %s)" % (g.tolist(), list(x)), x)
            mh_rows[key] = prob_a.copy()
        return mh_rows[key]

    for x in states:
        if tgt.log_nu(x) == -math.inf:
            col.count("zero_mass_states_skipped")
            continue
        for k in range(ploidy):
            nontriv = I["F"] > 0 or nonflat or len(set(x)) < ploidy
            col.case("G|%d|%s|%d" % (inst_id, x, k), nontrivial=nontriv)
            if I["F"] > 0:
                col.count("vectors_inbred", 2)
            if nonflat:
                col.count("vectors_nonflat", 2)
            if zero:
                col.count("vectors_zero_freq", 2)
            if cache is not None:
                col.count("vectors_with_cache", 2)
            # ---- Gibbs: exact full conditional of nu
            g = np.array(x, dtype=np.int32)
            CM.gibbs_options(g, k, I["haps"], I["reads"], I["counts"], I["F"], llks_a, lpri_a, prob_a, I["freqs"], cache)
            col.count("gibbs_vectors")
            if not np.array_equal(g, np.array(x)):
                viol("options-kernel-mutates-state", "gibbs_options left genotype %s (was %s)" % (g.tolist(), list(x)), x)
            w = []
            for a in range(n):
                y = list(x)
                y[k] = a
                w.append(tgt.log_nu(y))
            want = np.array(M.normalise_logs(w))
            got = prob_a.copy()
            err = float(np.abs(got - want).max()) if np.all(np.isfinite(got)) else float("inf")
            col.maxv("max_gibbs_error", err if math.isfinite(err) else 1.0)
            if not err <= TOL:
                viol("gibbs-not-exact-conditional", "Gibbs vector %s differs from exact conditional %s (max %g) at position %d F=%g freqs=%s"
                     % (got.tolist(), want.tolist(), err, k, I["F"], None if I["freqs"] is None else I["freqs"].tolist()), x, {"k": k})
            # llks reported for each option are the likelihoods of those states
            for a in range(n):
                y = list(x)
                y[k] = a
                wl = tgt.llk(y)
                if wl != -math.inf and abs(llks_a[a] - wl) > 1e-9 * max(1, abs(wl)):
                    viol("option-likelihood-wrong", "gibbs llks_array[%d]=%.12g want %.12g" % (a, llks_a[a], wl), x, {"k": k})
                    break
            # ---- MH: distribution + detailed balance w.r.t. nu
            p = mh_row(x, k)
            if not (np.all(np.isfinite(p)) and p.min() >= -1e-12 and abs(p.sum() - 1) <= 1e-9):
                viol("row-not-a-distribution", "mh vector %s" % p.tolist(), x, {"k": k})
                continue
            for a in range(n):
                if a == x[k]:
                    continue
                y = list(x)
                y[k] = a
                if tgt.log_nu(y) == -math.inf:
                    if p[a] > 1e-300:
                        viol("moves-into-zero-mass-state", "MH proposes zero-posterior state with prob %g" % p[a], x, {"k": k})
                    continue
                pb = mh_row(tuple(y), k)
                la, lb = tgt.log_nu(x), tgt.log_nu(y)
                m = max(la, lb)
                A = math.exp(la - m) * float(p[a])
                B = math.exp(lb - m) * float(pb[x[k]])
                col.count("mh_db_edges")
                col.maxv("max_mh_db_residual", abs(A - B) / max(A, B, 1e-300))
                if abs(A - B) > TOL * max(A, B) + 1e-15:
                    viol("mh-detailed-balance", "nu(x)K(x,x')=%.12g != nu(x')K(x',x)=%.12g position %d allele %d->%d" % (A, B, k, x[k], a), x, {"k": k, "a": a})

    # ---- compound_step: sorted state, llk of the state left, both step types, with and without cache
    from mchap.jitutils import seed_numba

    for r in range(12 if tier == "quick" else 30):
        st = int(rng.integers(0, 2))
        x = None
        for _ in range(20):
            cand = tuple(sorted(int(a) for a in rng.integers(0, n, size=ploidy)))
            if tgt.log_nu(cand) != -math.inf:
                x = cand
                break
        if x is None:
            break
        g = np.array(x, dtype=np.int32)
        s = int(rng.integers(1, 2**31 - 1))
        seed_numba(s)
        c2 = new_cache() if r % 2 else None
        llk = float(CM.compound_step(g, I["haps"], I["reads"], I["counts"], I["F"], I["freqs"], c2, st))
        col.count("compound_steps")
        col.case("S|%d|%s|%d|%d" % (inst_id, x, st, s), nontrivial=True)
        if list(g) != sorted(g.tolist()):
            viol("compound-step-leaves-unsorted-state", "compound_step left %s" % g.tolist(), x, {"seed": s, "step_type": st})
        if g.min() < 0 or g.max() >= n:
            viol("compound-step-invalid-allele", "compound_step left %s" % g.tolist(), x, {"seed": s, "step_type": st})
            continue
        wl = tgt.llk(g)
        if tgt.log_nu(g) == -math.inf:
            viol("moves-into-zero-mass-state", "compound_step moved to zero-posterior state %s" % g.tolist(), x, {"seed": s, "step_type": st})
        elif abs(llk - wl) > 1e-9 * max(1, abs(wl)):
            viol("compound-step-returned-llk-wrong", "returned %.12g, state %s has %.12g" % (llk, g.tolist(), wl), x, {"seed": s, "step_type": st})
    return tgt


def run_kernel(tier, seed, spec, col):
    for i in range(spec["instances"]):
        rng = gen.rng_for(seed, ID, spec["shard"], i)
        I = make_instance(rng, tier)
        if I.get("zeros"):
            col.count("instances_with_zero_probability_read_entries")
        check_instance(I, rng, col, spec["shard"] * 100000 + i, tier)
        if i == 0 and spec["shard"] == 0:
            col.sample({"instance": pack(I)})


def run_freq(tier, seed, spec, col):
    """Auxiliary: long-run frequencies of the real sampler vs exact posterior (loose, never deciding alone)."""
    from mchap.calling.classes import CallingMCMC

    for i in range(spec["instances"]):
        rng = gen.rng_for(seed, ID, spec["shard"], i)
        I = make_instance(rng, "quick")
        if I["freqs"] is not None and (I["freqs"] == 0).any():
            continue
        tgt = Target(I)
        for st in ("Gibbs", "Metropolis-Hastings"):
            steps = 30000
            model = CallingMCMC(ploidy=I["ploidy"], haplotypes=I["haps"], frequencies=I["freqs"], inbreeding=I["F"], steps=steps,
                                chains=1, random_seed=int(rng.integers(1, 2**31 - 1)), step_type=st)
            trace = model.fit(I["reads"], I["counts"]).burn(1000)
            post = trace.posterior()
            emp = {tuple(int(a) for a in g): float(p) for g, p in zip(post.genotypes, post.probabilities)}
            tv = 0.5 * sum(abs(emp.get(g, 0.0) - p) for g, p in zip(tgt.gs, tgt.post))
            col.count("freq_runs")
            col.case("F|%d|%s" % (spec["shard"] * 1000 + i, st), nontrivial=True)
            col.maxv("max_total_variation_sampler_vs_exact", tv)
            # traces emitted by the real sampler are sorted at every step
            gt = trace.genotypes
            if not np.all(gt[..., 1:] >= gt[..., :-1]):
                col.violation("compound-step-leaves-unsorted-state", "a step of the %s trace is not sorted" % st, {"instance": pack(I)})
            if tv > 0.08:
                col.violation("sampler-frequencies-far-from-exact-posterior", "%s sampler: total variation %.3f to the exact posterior after %d steps" % (st, tv, steps),
                              {"instance": pack(I), "step_type": st})
        if i == 0:
            col.sample({"freq_instance": pack(I), "tv": tv})


def run_cli(tier, seed, spec, col):
    """`mchap call` vs `mchap call-exact` on the same generated BAM dataset (wiring cross-check, deliberately loose)."""
    import shutil

    from checks import c08
    from vlib import cli, vcfparse

    for d in range(spec["datasets"]):
        ds = c08.build(seed, 400 + spec["shard"] * 10 + d, "c02-%s-%d" % (spec["name"], d), depth=(70, 110))
        base = ["--haplotypes", ds.hapvcf, "--reference", ds.fasta, "--bam"] + ds.bams + ["--ploidy", ds.ploidy_file]
        oe, ee = cli.run_inproc(["call-exact"] + base)
        oc, ec = cli.run_inproc(["call"] + base + ["--mcmc-steps", "1500", "--mcmc-burn", "500", "--mcmc-seed", "3"])
        rep = {"dataset": [seed, spec["shard"], d]}
        if ee is not None or ec is not None:
            col.inconclusive_note("call/call-exact raised on a generated dataset: %r / %r" % (ee, ec))
            continue
        he, re_ = vcfparse.parse(oe)
        hc, rc_ = vcfparse.parse(oc)
        for a, b in zip(re_, rc_):
            for smp in he.samples:
                ge = a.samples[smp]
                gc = b.samples[smp]
                if ge.get("GPM", ".") in (".", None):
                    continue
                pe = float(ge["GPM"])
                col.count("cli_calls_seen")
                if pe < 0.95 or gc.get("GPM", ".") == ".":
                    continue
                col.count("cli_confident_calls_compared")
                col.case("CLI|%s|%d|%s|%s" % (rep["dataset"], a.pos, smp, ge["GT"]), nontrivial=True)
                if ge["GT"] != gc["GT"] or abs(float(gc["GPM"]) - pe) > 0.1:
                    col.violation("call-disagrees-with-confident-call-exact", "%s:%d sample %s: call-exact GT %s GPM %s, call GT %s GPM %s"
                                  % (a.chrom, a.pos, smp, ge["GT"], ge["GPM"], gc["GT"], gc["GPM"]), rep)
        if d == 0:
            col.sample({"cli_dataset": rep, "records": len(re_), "samples": he.samples})
        shutil.rmtree(ds.root, ignore_errors=True)


class _NpShuffleProxy:
    """Stands in for the module-level `np` of mchap.calling.mcmc while compound_step.py_func runs: forces the scan order."""

    class _R:
        def __init__(self, order):
            self.order = order

        def shuffle(self, arr):
            arr[:] = self.order

    def __init__(self, order):
        self.random = _NpShuffleProxy._R(order)

    def __getattr__(self, name):
        return getattr(np, name)


class _Scripted:
    """Stands in for random_choice: records each probability vector, returns the scripted choices in turn."""

    def __init__(self, choices):
        self.choices = list(choices)
        self.probs = []

    def __call__(self, p):
        self.probs.append(np.array(p, dtype=float, copy=True))
        return self.choices[len(self.probs) - 1]


def run_compound(tier, seed, spec, col):
    """Exact transition kernel of the whole compound step (random scan over allele copies, then sort): every scan order
    and every sequence of choices is forced through the real compound_step.py_func, the path probabilities are the
    recorded vectors, and the exact posterior must be stationary: pi P = pi on unordered genotypes."""
    from mchap.calling import mcmc as CM

    from vlib import monitors

    for i in range(spec["instances"]):
        rng = gen.rng_for(seed, ID, spec["shard"], i)
        I = make_instance(rng, "quick")
        ploidy = int(rng.choice([2, 3] if tier == "quick" else [2, 3, 4]))
        haps = I["haps"][: int(rng.integers(2, 4))]
        n = len(haps)
        I = dict(I, ploidy=ploidy, haps=haps, freqs=None if I["freqs"] is None or rng.random() < 0.5 else (I["freqs"][:n] / I["freqs"][:n].sum() if I["freqs"][:n].sum() > 0 else None))
        if I["freqs"] is not None and (I["freqs"] == 0).any():
            I["freqs"] = None
        # low-information data so that dosage is uncertain and homozygous states move
        if len(I["reads"]) > 3:
            I["reads"] = I["reads"][:3]
            I["counts"] = I["counts"][:3]
        tgt = Target(I)
        gs = tgt.gs
        pi = np.array(tgt.post)
        idx = {g: k for k, g in enumerate(gs)}
        orders = list(itertools.permutations(range(ploidy)))
        for st in (0, 1):
            P = np.zeros((len(gs), len(gs)))
            bad_llk = None
            for a, g0 in enumerate(gs):
                if pi[a] == 0:
                    continue
                for order in orders:
                    for choices in itertools.product(range(n), repeat=ploidy):
                        g = np.array(g0, dtype=np.int32)
                        rec = _Scripted(choices)
                        with monitors.patched((CM, "random_choice", rec), (CM, "np", _NpShuffleProxy(np.array(order)))):
                            llk = CM.compound_step.py_func(g, I["haps"], I["reads"], I["counts"], I["F"], I["freqs"], None, st)
                        col.count("compound_paths_enumerated")
                        pr = 1.0 / len(orders)
                        for vec, c in zip(rec.probs, choices):
                            pr *= float(vec[c])
                        if pr <= 0:
                            continue
                        b = idx[tuple(int(x) for x in g)]
                        P[a, b] += pr
                        wl = tgt.llk(g)
                        if wl != -math.inf and abs(float(llk) - wl) > 1e-9 * max(1, abs(wl)):
                            bad_llk = (g0, order, choices, float(llk), wl)
                if len(set(g0)) == 1:
                    col.count("compound_rows_from_homozygous_state")
            live = pi > 0
            rows = P[live].sum(axis=1)
            col.count("compound_kernels_checked")
            col.case("K|%d|%d|%d|%s" % (spec["shard"], i, st, gs), nontrivial=True)
            rep = {"instance": pack(I), "step_type": st}
            if np.abs(rows - 1).max() > 1e-9:
                col.violation("compound-step-row-not-a-distribution", "compound step (type %d) rows sum to %s" % (st, rows.tolist()), rep)
                continue
            res = float(np.abs(pi @ P - pi).max())
            col.maxv("max_compound_stationarity_residual", res)
            if res > 1e-9:
                k = int(np.argmax(np.abs(pi @ P - pi)))
                col.violation("compound-step-not-stationary-at-exact-posterior", "compound step (%s): max |pi P - pi| = %.3g at genotype %s (pi %.6g, (pi P) %.6g); ploidy %d, %d haplotypes"
                              % ("Gibbs" if st == 0 else "MH", res, gs[k], pi[k], (pi @ P)[k], ploidy, n), rep)
            if bad_llk is not None:
                col.violation("compound-step-returned-llk-wrong", "compound step from %s order %s choices %s returned llk %.12g, final state has %.12g" % bad_llk, rep)
        if i == 0 and spec["shard"] == 95:
            col.sample({"compound_kernel_instance": pack(I), "genotypes": [list(g) for g in gs], "exact_posterior": pi.tolist()})


def run_wide(tier, seed, spec, col):
    """MANY candidate haplotypes (40-250: allele numbers beyond 32 / 64 / 127) at every ploidy 1-7, and ONE likelihood cache
    shared by a walk of Gibbs / MH vector computations, as in a real chain.  The exact posterior cannot be enumerated at
    this size, but the full conditional of one allele copy can: for every candidate allele a, log nu(x with a at k) =
    llk + log prior - log perms, computed directly by the oracle."""
    from mchap.calling import mcmc as CM

    for i in range(spec["instances"]):
        rng = gen.rng_for(seed, ID, spec["shard"], i)
        ploidy = int(1 + (i + spec["shard"]) % 7)
        n_pos = 8
        n = int(rng.choice([40, 70, 130, 200, 250]))
        if i % 5 == 4:
            # the transposed extreme: a large pool (ploidy up to 256) of few haplotypes - dose counters beyond 127 / 255
            ploidy = int(rng.choice([24, 32, 64, 127, 128, 129, 200, 256]))
            n = int(rng.choice([2, 3, 5]))
            col.count("wide_high_ploidy_instances")
        codes = rng.permutation(256)[:n]
        haps = np.array([[(int(c_) >> j) & 1 for j in range(n_pos)] for c_ in codes], dtype=np.int8)
        n_reads = int(rng.integers(1, 7))
        truth = haps[rng.integers(0, n, size=ploidy)]
        reads = gen.gen_reads_from_haps(rng, truth, n_reads, np.full(n_pos, 2), n_nucl=2, gap_rate=0.2, err=0.03)
        counts = rng.integers(1, 4, size=n_reads).astype(np.int64)
        F = float(rng.choice([0.0, 0.1, 0.4]))
        freqs = None if rng.random() < 0.4 else np.maximum(rng.dirichlet(np.ones(n)), 1e-4)
        if freqs is not None:
            freqs = freqs / freqs.sum()
        Mx = M.hap_read_matrix(reads, haps)
        cache = new_cache()
        llks_a, lpri_a, prob_a = np.empty(n), np.empty(n), np.empty(n)
        x = [int(a) for a in rng.integers(0, n, size=ploidy)]
        case = {"kind": "wide", "seed": seed, "shard": spec["shard"], "instance": i, "ploidy": ploidy, "n_haplotypes": n, "F": F}
        col.case("WIDE|%d|%d" % (spec["shard"], i), nontrivial=True)

        def log_nu(y):
            g = tuple(sorted(y))
            return M.log_likelihood_alleles_fast(Mx, g, counts) + M.log_prior(g, n, F, freqs) - M.log_perms(g)

        for step in range(30):
            k = int(rng.integers(ploidy))
            w = []
            for a in range(n):
                y = list(x)
                y[k] = a
                w.append(log_nu(y))
            g = np.array(x, dtype=np.int32)
            CM.gibbs_options(g, k, haps, reads, counts, F, llks_a, lpri_a, prob_a, freqs, cache)
            col.count("wide_gibbs_vectors")
            if max(x) >= 64:
                col.count("wide_vectors_allele_index_ge_64")
            want = np.array(M.normalise_logs(w))
            got = prob_a.copy()
            err = float(np.abs(got - want).max()) if np.all(np.isfinite(got)) else float("inf")
            if not err <= TOL:
                a_bad = int(np.argmax(np.abs(got - want))) if math.isfinite(err) else -1
                col.violation("gibbs-not-exact-conditional", "%d haplotypes, ploidy %d, shared cache with %d entries: Gibbs vector differs from the exact conditional by %g at allele %d (state %s position %d, F=%g)"
                              % (n, ploidy, len(cache) - 1, err, a_bad, x, k, F), case)
                break
            # MH vector from the same state: detailed balance of nu on the edge to a proposed allele
            CM.mh_options(g, k, haps, reads, counts, F, llks_a, lpri_a, prob_a, freqs, cache)
            col.count("wide_mh_vectors")
            fwd = prob_a.copy()
            a = int(rng.integers(n))
            if a != x[k] and w[a] != -math.inf and w[x[k]] != -math.inf:
                y = list(x)
                y[k] = a
                CM.mh_options(np.array(y, dtype=np.int32), k, haps, reads, counts, F, llks_a, lpri_a, prob_a, freqs, cache)
                back = prob_a.copy()
                lhs, rhs = w[x[k]] + math.log(max(fwd[a], 1e-300)), w[a] + math.log(max(back[x[k]], 1e-300))
                if abs(lhs - rhs) > 1e-7 * max(1.0, abs(lhs)):
                    col.violation("mh-detailed-balance", "%d haplotypes, ploidy %d, shared cache: nu(x)K(x,y) = e^%.9g but nu(y)K(y,x) = e^%.9g (state %s position %d allele %d)" % (n, ploidy, lhs, rhs, x, k, a), case)
                    break
            # walk on: draw the next state from the oracle's conditional
            x[k] = int(rng.choice(n, p=want / want.sum()))


def run_reuse(tier, seed, spec, col):
    """One CallingMCMC object fitted on the reads of one sample and then on the reads of ANOTHER: the second fit must target
    the posterior of the second sample's reads - every recorded log-likelihood equals the oracle's for THOSE reads, and
    the trace is bit-identical to that of a fresh model with the same seed (nothing may survive from the first fit)."""
    from mchap.calling.classes import CallingMCMC

    for i in range(spec["instances"]):
        rng = gen.rng_for(seed, ID, spec["shard"], i)
        I = make_instance(rng, "quick")
        if I["ploidy"] > 6:
            continue
        J = make_instance(rng, "quick")
        n_pos, n_nucl = I["haps"].shape[1], I["reads"].shape[2]
        n_alleles = (I["haps"].max(axis=0) + 1).astype(int)
        n_alleles = np.maximum(n_alleles, 2)
        n2 = int(rng.integers(1, 10))
        truth = I["haps"][rng.integers(0, len(I["haps"]), size=I["ploidy"])]
        reads2 = gen.gen_reads_from_haps(rng, truth, n2, n_alleles, n_nucl=n_nucl, gap_rate=float(rng.choice([0, 0.3])), err=float(rng.choice([0.0024, 0.05])))
        counts2 = gen.gen_counts(rng, n2, mode="rand")
        B = dict(I, reads=reads2, counts=counts2)
        tB = Target(B)
        for step_type in ("Gibbs", "Metropolis-Hastings"):
            s0 = int(rng.integers(0, 2**31 - 1))
            kw = dict(ploidy=I["ploidy"], haplotypes=I["haps"], inbreeding=I["F"], frequencies=I["freqs"], steps=40, chains=2, random_seed=s0, step_type=step_type)
            case = {"kind": "reuse", "seed": seed, "shard": spec["shard"], "instance": i, "step_type": step_type, "first": pack(I), "second_reads": reads2.tolist(), "second_counts": counts2.tolist()}
            col.case("REUSE|%d|%d|%s" % (spec["shard"], i, step_type), nontrivial=True)
            try:
                model = CallingMCMC(**kw)
                t1 = model.fit(I["reads"], read_counts=I["counts"])
                t2 = model.fit(reads2, read_counts=counts2)
                fresh = CallingMCMC(**kw).fit(reads2, read_counts=counts2)
            except Exception as ex:  # noqa: BLE001
                col.inconclusive_note("CallingMCMC raised on a generated instance: %s: %s" % (type(ex).__name__, str(ex)[:160]))
                continue
            col.count("reuse_second_fits_compared")
            g1 = {tuple(r) for r in np.asarray(t1.genotypes).reshape(-1, I["ploidy"]).tolist()}
            g2 = np.asarray(t2.genotypes)
            if any(tuple(r) in g1 for r in g2.reshape(-1, I["ploidy"]).tolist()):
                col.count("reuse_second_fit_revisits_genotype_of_first")
            if not (np.array_equal(g2, np.asarray(fresh.genotypes)) and np.array_equal(np.asarray(t2.llks), np.asarray(fresh.llks), equal_nan=True)):
                col.violation("refit-depends-on-earlier-fit", "%s: the second fit() of one CallingMCMC object (other reads) differs from a fresh model with the same seed" % step_type, case)
                continue
            l2 = np.asarray(t2.llks, dtype=float)
            bad = None
            for ch in range(g2.shape[0]):
                for st in range(g2.shape[1]):
                    col.count("reuse_llk_cells_checked")
                    want = tB.llk(tuple(int(a) for a in g2[ch, st]))
                    got = float(l2[ch, st])
                    if not (abs(got - want) <= 1e-8 * max(1.0, abs(want)) or (want == -math.inf and got == -math.inf)):
                        bad = bad or "chain %d step %d genotype %s: recorded %.10g, the reads of this fit give %.10g" % (ch, st, g2[ch, st].tolist(), got, want)
            if bad:
                col.violation("refit-depends-on-earlier-fit", "%s: second fit() of one CallingMCMC object: %s" % (step_type, bad), case)


def run_prog(tier, seed, spec, col):
    """The target `mchap call` hands to its sampler vs the distribution `mchap call-exact` reports, exactly.  Both programs
    run in-process on the same generated inputs (mixed ploidy, per-sample inbreeding file, --prior-frequencies with zero
    entries).  CallingMCMC is wrapped where the program constructs it; from the arguments it receives (ploidy, haplotypes,
    inbreeding, frequencies, the reads of fit()) the oracle computes the exact posterior, relabels it to the record's
    alleles and compares it with the GP vector call-exact prints (3 decimals).  Together with the kernel monitors (the
    sampler is stationary at the posterior of its arguments) this decides 'same probabilities' at the program level
    without any Monte-Carlo tolerance."""
    import os
    import shutil
    import warnings

    from mchap.application import call as CALL

    from vlib import cli, datasets, env, hapvcf, vcfparse

    for dI in range(spec["datasets"]):
        rng = gen.rng_for(seed, ID, spec["shard"], dI)
        root = env.workdir("c02-%s-%d" % (spec["name"], dI))
        shutil.rmtree(root, ignore_errors=True)
        n_s = int(rng.integers(2, 5))
        ds = datasets.make_dataset(rng, root, n_samples=n_s, n_loci=int(rng.integers(2, 5)), ploidy=[2, 4], depth=(0, 12), contig_len=600,
                                   snv_range=(1, 4), hostile=0.05, err=0.02)
        use_freq = rng.random() < 0.6
        recs = []
        for L in ds.loci:
            ref = ds.contigs[L["contig"]][L["start"]:L["stop"]]
            alts = []
            for smp in ds.samples:
                for hap in ds.genotypes[(smp, L["name"])]:
                    sq = datasets.hap_sequence(ds.contigs, L, hap, L["start"], L["stop"])
                    if sq != ref and sq not in alts:
                        alts.append(sq)
            alts = alts[:4]
            r = {"contig": L["contig"], "pos0": L["start"], "id": L["name"], "ref": ref, "alts": alts}
            tiny = False
            if use_freq:
                w = rng.dirichlet(np.ones(1 + len(alts)))
                w = np.round(w, 3)
                if len(alts) >= 1 and rng.random() < 0.4:
                    w[int(rng.integers(1, len(w)))] = 0.0      # an ALT the prior excludes
                if len(alts) >= 1 and rng.random() < 0.4:
                    # a very small but non-zero prior: the allele stays in the model (its likelihood can outweigh it)
                    w[int(rng.integers(1, len(w)))] = float(rng.choice([1e-7, 1e-9, 1e-12]))
                    tiny = True
                if w.sum() <= 1e-6:
                    w[0] = 1.0
                r["info"] = {"AFP": ",".join(repr(float(x)) for x in w)}
            if tiny:
                col.count("prog_records_with_tiny_nonzero_prior")
            recs.append(r)
        hv = hapvcf.write(os.path.join(root, "haps.vcf"), hapvcf.render(ds.contigs, recs, info_defs=[{"ID": "AFP", "Number": "R", "Type": "Float"}] if use_freq else ()))
        pf = os.path.join(root, "ploidy.txt")
        with open(pf, "w") as fh:
            for smp in ds.samples:
                fh.write("%s\t%d\n" % (smp, ds.ploidy[smp]))
        per_sample = rng.random() < 0.5
        F = {smp: float(rng.choice([0.0, 0.1, 0.3, 0.6])) for smp in ds.samples}
        if per_sample and len(set(F.values())) == 1:
            F[ds.samples[-1]] = 0.45
        if not per_sample:
            f0 = float(rng.choice([0.0, 0.25]))
            F = {smp: f0 for smp in ds.samples}
        base = ["--haplotypes", hv, "--reference", ds.fasta, "--bam"] + ds.bams + ["--ploidy", pf]
        if per_sample:
            inf = os.path.join(root, "inbreeding.txt")
            with open(inf, "w") as fh:
                for smp in reversed(ds.samples):
                    fh.write("%s\t%r\n" % (smp, F[smp]))
            base += ["--inbreeding", inf]
            col.count("prog_datasets_per_sample_inbreeding")
        elif any(F.values()):
            base += ["--inbreeding", repr(F[ds.samples[0]])]
        if use_freq:
            base += ["--prior-frequencies", "AFP"]
        case = {"kind": "prog", "seed": seed, "shard": spec["shard"], "dataset": dI, "args": base[6:], "ploidy": dict(ds.ploidy), "inbreeding": F}
        col.case(case, nontrivial=True)
        oe, ee = cli.run_inproc(["call-exact"] + base + ["--report", "GP"])
        if ee is not None:
            col.inconclusive_note("call-exact raised on a generated dataset: %r" % (ee,))
            shutil.rmtree(root, ignore_errors=True)
            continue
        he, re_ = vcfparse.parse(oe)
        exact = {(r.chrom, r.pos): r for r in re_}
        captured = []
        Real = CALL.CallingMCMC

        class Spy:
            def __init__(self, **kw):
                self.kw = kw
                self.real = Real(**kw)

            def fit(self, reads, read_counts=None, **kw2):
                captured.append({"ploidy": int(self.kw["ploidy"]), "haplotypes": np.array(self.kw["haplotypes"], copy=True), "inbreeding": float(self.kw["inbreeding"]),
                                 "frequencies": None if self.kw.get("frequencies") is None else np.array(self.kw["frequencies"], dtype=float, copy=True),
                                 "reads": np.array(reads, copy=True), "counts": None if read_counts is None else np.array(read_counts, copy=True)})
                tr = self.real.fit(reads=reads, read_counts=read_counts, **kw2)
                try:
                    captured[-1]["visited"] = sorted({int(a) for a in np.unique(np.asarray(tr.genotypes)) if a >= 0})
                except Exception:  # noqa: BLE001 - trace layout changed: the visited-state monitor is then not applicable
                    captured[-1]["visited"] = None
                return tr

        per_locus = []
        try:
            with warnings.catch_warnings():
                warnings.simplefilter("error", RuntimeWarning)
                with monitors_patched((CALL, "CallingMCMC", Spy)):
                    po = CALL.program.cli(["mchap", "call"] + base + ["--mcmc-steps", "40", "--mcmc-burn", "10", "--mcmc-seed", "5"])
                    seen_data = []
                    real_csg = po.call_sample_genotypes

                    def spy_csg(data):
                        seen_data.append(data)
                        return real_csg(data)

                    po.call_sample_genotypes = spy_csg
                    for locus in po.loci():
                        lo = len(captured)
                        po.call_locus(locus, po.sample_bams)
                        per_locus.append((seen_data[-1], lo, len(captured)))
        except Exception as ex:  # noqa: BLE001
            cli.relax_warnings()
            col.inconclusive_note("call raised on a generated dataset: %s: %s" % (type(ex).__name__, str(ex)[:200]))
            shutil.rmtree(root, ignore_errors=True)
            continue
        cli.relax_warnings()
        stop = False
        for data, lo, hi in per_locus:
            if stop:
                break
            rec = exact.get((data.locus.contig, data.locus.start + 1))
            if rec is None:
                col.violation("call-and-call-exact-disagree-on-target", "call processed locus %s which call-exact did not emit" % data.locus.name, case)
                break
            S = list(data.samples)
            if hi == lo:
                col.count("prog_loci_without_sampler")  # NOA / AF0 record: nothing is sampled
                continue
            if hi - lo != len(S):
                col.violation("call-and-call-exact-disagree-on-target", "call locus %s: %d samplers for samples %s" % (data.locus.name, hi - lo, S), case)
                break
            full = np.asarray(data.locus.encode_haplotypes())
            for smp, c in zip(S, captured[lo:hi]):
                where = "locus %s sample %s" % (data.locus.name, smp)
                gp = rec.sample_list(smp, "GP")
                if gp is None or None in gp:
                    col.count("prog_exact_gp_missing")
                    continue
                if c["ploidy"] != ds.ploidy[smp] or abs(c["inbreeding"] - F[smp]) > 1e-12:
                    col.violation("call-and-call-exact-disagree-on-target", "%s: call's sampler built with ploidy %d inbreeding %r, the input files say %d, %r"
                                  % (where, c["ploidy"], c["inbreeding"], ds.ploidy[smp], F[smp]), case)
                    stop = True
                    break
                labels = []
                for h in c["haplotypes"]:
                    m = [k for k in range(len(full)) if np.array_equal(full[k], h)]
                    labels.append(m[0] if m else None)
                if None in labels or len(set(labels)) != len(labels):
                    col.violation("call-and-call-exact-disagree-on-target", "%s: the haplotypes given to call's sampler are not distinct alleles of the record" % where, case)
                    stop = True
                    break
                fr = c["frequencies"]
                # the sampler must not spend steps on genotypes of posterior probability zero: a haplotype whose prior frequency
                # in the vector GIVEN TO THE SAMPLER is 0 may not occur in any sampled genotype (a greedy start that holds such an
                # allele is never left when inbreeding > 0, because the conditional counts existing copies)
                if fr is not None and c.get("visited") is not None:
                    col.count("prog_sampler_traces_inspected")
                    dead = [a for a in c["visited"] if a < len(fr) and fr[a] <= 0]
                    if dead:
                        col.violation("sampler-visits-state-of-zero-posterior", "%s: call's sampler was given prior frequencies %s and its trace holds allele(s) %s of frequency 0 (inbreeding %g): the sampled distribution puts mass on genotypes whose exact posterior is 0"
                                      % (where, np.round(fr, 4).tolist(), dead, c["inbreeding"]), case)
                        stop = True
                        break
                if fr is not None and (abs(fr.sum() - 1.0) > 1e-9 or np.any(fr <= 0)):
                    col.count("prog_targets_unnormalised_frequencies_skipped")
                    continue
                counts = None if c["counts"] is None else c["counts"].astype(np.int64)
                gs, post, _, _ = M.exact_posterior(c["reads"], counts, c["haplotypes"], c["ploidy"], c["inbreeding"], fr)
                want = np.zeros(M.n_genotypes(len(full), c["ploidy"]))
                for g, p_ in zip(gs, post):
                    want[M.genotype_index(tuple(sorted(labels[a] for a in g)))] += p_
                col.count("prog_targets_compared")
                if use_freq:
                    col.count("prog_targets_with_prior_frequencies")
                if len(labels) < len(full):
                    col.count("prog_targets_with_zero_frequency_allele")
                if c["inbreeding"] > 0:
                    col.count("prog_targets_inbred")
                if len(gp) != len(want):
                    col.violation("call-and-call-exact-disagree-on-target", "%s: call-exact prints %d GP values, the record has %d genotypes" % (where, len(gp), len(want)), case)
                    stop = True
                    break
                dev = float(np.max(np.abs(np.array(gp) - want)))
                col.maxv("max_prog_target_deviation", dev)
                if dev > 6e-4:
                    k = int(np.argmax(np.abs(np.array(gp) - want)))
                    col.violation("call-and-call-exact-disagree-on-target", "%s (ploidy %d, inbreeding %r, %d of %d alleles sampled%s): the posterior defined by the arguments of call's sampler gives genotype #%d probability %.6f, call-exact reports GP %.3f"
                                  % (where, c["ploidy"], c["inbreeding"], len(labels), len(full), ", prior frequencies %s" % np.round(fr, 4).tolist() if fr is not None else "", k, want[k], gp[k]), case)
                    stop = True
                    break
        if dI == 0 and spec["shard"] == 110:
            col.sample({"prog": {"args": base[6:], "samples": ds.samples, "samplers_observed": len(captured)}})
        shutil.rmtree(root, ignore_errors=True)


def monitors_patched(*triples):
    from vlib import monitors

    return monitors.patched(*triples)


def run_shard(tier, seed, spec, col):
    if spec["kind"] == "prog":
        return run_prog(tier, seed, spec, col)
    if spec["kind"] == "reuse":
        return run_reuse(tier, seed, spec, col)
    if spec["kind"] == "wide":
        return run_wide(tier, seed, spec, col)
    {"kernel": run_kernel, "freq": run_freq, "cli": run_cli, "compound": run_compound}[spec["kind"]](tier, seed, spec, col)


def replay(obj, col):
    c = obj["case"]
    I = unpack(c["instance"])
    rng = np.random.default_rng(0)
    check_instance(I, rng, col, 0, "thorough")
