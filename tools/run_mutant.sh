#!/bin/bash
# tools/run_mutant.sh <patch.diff> <Cxx> [Cxx ...]   (tier via VERIF_TIER, default quick)
# Copies /repo to a scratch directory outside /repo and /verif, applies a property-breaking patch
# there, runs the named checks against the copy (VERIF_REPO) with outputs redirected (VERIF_OUT),
# then removes the copy.  Prints one line per check: CAUGHT / MISSED / INCONCLUSIVE.
P="$(realpath "$1")"; shift
N="$(basename "$P" .diff)"
S="/tmp/mchap-mutant-$N-$$"
mkdir -p "$S/repo" "$S/out"
rsync -a --exclude .git --exclude __pycache__ --exclude '*.nbi' --exclude '*.nbc' /repo/ "$S/repo/"
H=""
trap 'rm -rf "$S"; [ -n "$H" ] && rm -rf /verif/.cache/numba/$H /verif/.cache/numba/$H-bc' EXIT
( cd "$S/repo" && patch -s -p1 < "$P" ) || { echo "PATCH-FAILED $N"; exit 3; }
cd /verif
H=$(VERIF_REPO="$S/repo" /venv/bin/python -c 'from vlib import env; print(env.tree_hash())')
for id in "$@"; do
  out=$(VERIF_REPO="$S/repo" VERIF_OUT="$S/out" ./check "$id" "${VERIF_TIER:-quick}" 2>&1); rc=$?
  if [ $rc -eq 1 ]; then echo "CAUGHT $id $N: $(echo "$out" | grep -A1 '^VIOLATION' | grep mechanism | head -3 | tr '\n' ' ' | cut -c1-500)";
  elif [ $rc -eq 0 ]; then echo "MISSED $id $N";
  else echo "INCONCLUSIVE $id $N rc=$rc: $(echo "$out" | grep INCONCLUSIVE | head -2 | cut -c1-400)"; fi
done
