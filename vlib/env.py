"""Environment set-up shared by every check.

The only job that matters here is defeating numba's stale-cache trap (DESIGN 2.1):
every kernel in mchap is ``@njit(cache=True)`` and numba invalidates a cached
function only when *its own* file changes, so after an edit to a callee module the
cached caller keeps running the old callee.  We therefore point NUMBA_CACHE_DIR at a
directory keyed by a hash of *all* of /repo/mchap/**/*.py, which forces a complete
recompile from the current working tree whenever any source changes.

This module must be imported (and ``configure()`` called) before numba / mchap.
"""

import hashlib
import os
import shutil
import sys
import time

VERIF = os.path.dirname(os.path.dirname(os.path.abspath(__file__)))
REPO = os.environ.get("VERIF_REPO", "/repo")
CACHE_ROOT = os.path.join(VERIF, ".cache")
# mutant / seeded-change runs redirect their outputs (evidence, replays, scratch) away from /verif
OUT = os.environ.get("VERIF_OUT", VERIF)
PYTHON = "/venv/bin/python"
GUARD = "MCHAP_VERIF_INJECT"


def tree_hash(repo=None):
    repo = repo or REPO
    h = hashlib.sha256()
    root = os.path.join(repo, "mchap")
    files = []
    for d, dirs, fs in os.walk(root):
        dirs[:] = sorted(x for x in dirs if x != "__pycache__" and x != "tests")
        for f in sorted(fs):
            if f.endswith(".py"):
                files.append(os.path.join(d, f))
    for p in sorted(files):
        h.update(os.path.relpath(p, root).encode())
        h.update(b"\0")
        with open(p, "rb") as fh:
            h.update(fh.read())
        h.update(b"\0")
    return h.hexdigest()[:16]


def configure(boundscheck=False, disable_jit=False, repo=None):
    """Set env vars for this process (must run before importing numba)."""
    repo = repo or REPO
    th = tree_hash(repo)
    tag = th + ("-bc" if boundscheck else "")
    cdir = os.path.join(CACHE_ROOT, "numba", tag)
    os.makedirs(cdir, exist_ok=True)
    os.environ["NUMBA_CACHE_DIR"] = cdir
    if boundscheck:
        os.environ["NUMBA_BOUNDSCHECK"] = "1"
    else:
        os.environ.pop("NUMBA_BOUNDSCHECK", None)
    if disable_jit:
        os.environ["NUMBA_DISABLE_JIT"] = "1"
    else:
        os.environ.pop("NUMBA_DISABLE_JIT", None)
    os.environ["VERIF_TREE_HASH"] = th
    os.environ.setdefault("PYTHONHASHSEED", "0")
    os.environ["PYTHONDONTWRITEBYTECODE"] = "1"
    # make sure the working tree (not some other install) is what is imported
    if repo not in sys.path:
        sys.path.insert(0, repo)
    pp = os.environ.get("PYTHONPATH", "")
    parts = [p for p in pp.split(os.pathsep) if p]
    for p in (VERIF, repo):
        if p not in parts:
            parts.insert(0, p)
    os.environ["PYTHONPATH"] = os.pathsep.join(parts)
    return th, cdir


def prune_caches(keep=6, min_age_s=3 * 3600):
    """Remove old numba caches: only those beyond the `keep` newest AND untouched for `min_age_s`
    (concurrent runs against scratch copies have their own, younger, caches)."""
    root = os.path.join(CACHE_ROOT, "numba")
    if not os.path.isdir(root):
        return
    ents = []
    for n in os.listdir(root):
        p = os.path.join(root, n)
        try:
            ents.append((os.path.getmtime(p), p))
        except OSError:
            pass
    ents.sort(reverse=True)
    cur = os.environ.get("NUMBA_CACHE_DIR")
    now_ = time.time()
    for mt, p in ents[keep:]:
        if p != cur and now_ - mt > min_age_s:
            shutil.rmtree(p, ignore_errors=True)


def touch_cache():
    cur = os.environ.get("NUMBA_CACHE_DIR")
    if cur and os.path.isdir(cur):
        os.utime(cur, None)


def run_root():
    """Scratch root of this check run: /verif/.work/run-<id> (git-ignored, not /tmp).  The id is set once by vlib.main and
    inherited by the shard processes, so two checks (or two seeds of one check) running at the same time never share files."""
    rid = os.environ.get("VERIF_RUN_ID")
    return os.path.join(OUT, ".work", "run-" + rid) if rid else os.path.join(OUT, ".work")


def workdir(name):
    p = os.path.join(run_root(), name)
    os.makedirs(p, exist_ok=True)
    return p


def clean_run_root():
    """Remove this run's scratch root, and roots of runs that died more than 6 h ago."""
    import shutil

    if os.environ.get("VERIF_RUN_ID"):
        shutil.rmtree(run_root(), ignore_errors=True)
    base = os.path.join(OUT, ".work")
    try:
        for d in os.listdir(base):
            q = os.path.join(base, d)
            if d.startswith("run-") and os.path.isdir(q) and time.time() - os.path.getmtime(q) > 6 * 3600:
                shutil.rmtree(q, ignore_errors=True)
    except OSError:
        pass


def seed():
    return int(os.environ.get("VERIF_SEED", "0"))


def now():
    return time.time()
