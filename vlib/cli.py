"""Running MCHap programs: in-process (cheap, M4a) and as real subprocesses (M4b)."""

import contextlib
import io
import os
import subprocess
import sys
import warnings

from vlib import env


def run_inproc(args, stdin_text=None):
    """args: e.g. ["assemble", "--bam", ...].  Returns (stdout_text, exception_or_None)."""
    from mchap.application import cli  # noqa: F401  (slow first import)

    argv = ["mchap"] + [str(a) for a in args]
    old_argv = sys.argv
    buf = io.StringIO()
    exc = None
    try:
        sys.argv = argv
        with warnings.catch_warnings():
            warnings.simplefilter("error", RuntimeWarning)  # what mchap.application.baseclass installs
            with contextlib.redirect_stdout(buf):
                try:
                    cli.main()
                except SystemExit as ex:
                    if ex.code not in (0, None):
                        exc = ex
                except BaseException as ex:  # noqa: BLE001
                    exc = ex
    finally:
        sys.argv = old_argv
        warnings.resetwarnings()
    return buf.getvalue(), exc


def relax_warnings():
    """mchap.application.baseclass turns RuntimeWarning into errors process-wide on import; undo that for harness code."""
    warnings.resetwarnings()


def run_subprocess(args, timeout=600, extra_env=None, cwd=None):
    """Real process: returns (returncode or 'timeout', stdout, stderr)."""
    e = dict(os.environ)
    if extra_env:
        e.update({k: str(v) for k, v in extra_env.items()})
    cmd = [env.PYTHON, "-c", "import sys; sys.argv[0]='mchap'; from mchap.application.cli import main; main()"] + [str(a) for a in args]
    try:
        r = subprocess.run(cmd, env=e, cwd=cwd, timeout=timeout, capture_output=True, text=True)
        return r.returncode, r.stdout, r.stderr
    except subprocess.TimeoutExpired as ex:
        so = ex.stdout.decode() if isinstance(ex.stdout, bytes) else (ex.stdout or "")
        se = ex.stderr.decode() if isinstance(ex.stderr, bytes) else (ex.stderr or "")
        return "timeout", so, se


def record_lines(text):
    return [l for l in text.splitlines() if l and not l.startswith("#")]


def header_lines(text):
    return [l for l in text.splitlines() if l.startswith("#")]
