"""C01 - every elementary move of the assemble sampler leaves the tempered posterior invariant.

Monitors
  * exact transition rows of mutation.base_step / structural.interval_step, extracted by running the
    dispatcher's .py_func with the module-level random_choice replaced by a recorder (all other callees
    are the real compiled kernels); each forced choice index gives the successor state;
  * chain_swap_acceptance return value and chain_swap_step behaviour under a seeded numba RNG;
  * arguments received by mutation/structural compound_step and chain_swap_step while
    _denovo_assembler.py_func runs (orchestration);
  * M1 cross-validation: the compiled kernels, run after seeding numba's RNG, must land on the state
    predicted by searchsorted(cumsum(extracted row), u).
Oracle (vlib.oracles.model): tempered target pi_T(G) = [L(G) P(G)]^T over unordered genotypes and its
exchangeable lift nu_T(x) = pi_T(G(x)) / perms(G(x)) to ordered tuples.
"""

import itertools
import math

import numpy as np

from vlib import gen, monitors
from vlib.oracles import model as M
from vlib.report import unjson_array

ID = "C01"
TECHNIQUE = "runtime monitoring: exact transition rows extracted from the real kernels (py_func + recorder for random_choice, cross-validated against the compiled kernels under a seeded RNG); detailed-balance / permutation-invariance oracle per observed row; wrapped orchestration"
LEVEL = "exploration"
LEVEL_TEXT = (
    "Exploration: for many small random instances (ploidy 2-4, 1-3 SNVs with 2-4 alleles, gapped/weighted reads, "
    "F in [0,1), T in (0,1]) every unordered genotype (all of them when the space is small, a duplicate-enriched sample "
    "otherwise) is visited and the exact probability vector the real kernel hands to its random chooser is recorded "
    "for every (haplotype, site), every contiguous interval and both structural move types; the oracle checks the "
    "algebraic identities (rows are distributions, detailed balance w.r.t. the tempered posterior, dependence on the "
    "genotype as a multiset only) per observed row, the exchange acceptance and swap, and that the orchestration hands "
    "each chain its own temperature and likelihood. Not a proof: instances outside the generated bounds are not covered, "
    "and convergence speed is not addressed."
)
LEVEL_TEXT += " Session 3: instances of ploidy 5-6 over three sites (8-12 haplotypes; copy-number patterns whose recombinants differ in their number of options), and the orchestration monitor records EVERY (genotype, temp) kernel of the mutation / structural modules that the sampler loop may call directly, with the callee's defaults applied."
LEVEL_TEXT += ' Session 4: a long kind - loci of 33-160 SNVs (beyond 32 / 64 / 127 sites), states built from 2-3 founder haplotypes, sampled sub-steps (first / last / random sites, copy-number changing cells) and intervals, the same exact edge identities; the oracle prior works in log space for astronomically many possible haplotypes.'
LEVEL_NOTE = "Trusts the independent likelihood/prior oracle, and that .py_func bodies equal the compiled code (checked per run by seeded cross-validation of sampled rows against the compiled kernels)."
RULE = (
    "case = one extracted kernel row (instance, ordered state, move, h/j or interval) or one exchange / orchestration "
    "observation; non-trivial = the state has a duplicated haplotype, or T<1, or F>0, or a multi-allelic site; distinct "
    "by hash of (instance id, state, move parameters)"
)
ASSUMPTIONS = [
    "target over unordered genotypes is (likelihood x prior)^T with the oracle's likelihood and prior",
    "states with zero likelihood are not reachable and are skipped",
    "py_func == compiled code, validated per run by M1 cross-validation",
]
TOL = 1e-9


def plan(tier, seed):
    n = 14
    inst = 20 if tier == "quick" else 250
    specs = [{"name": "k%02d" % i, "kind": "kernel", "shard": i, "instances": inst, "timeout": 7000} for i in range(n)]
    specs.append({"name": "exch", "kind": "exchange", "shard": 90, "cases": 3000 if tier == "quick" else 40000, "timeout": 7000})
    specs.append({"name": "orch", "kind": "orch", "shard": 91, "runs": 4 if tier == "quick" else 40, "timeout": 7000})
    for i in range(4):
        specs.append({"name": "comp%d" % i, "kind": "compound", "shard": 95 + i, "instances": 3 if tier == "quick" else 16, "timeout": 7000})
    for i in range(4):
        # session 4: long loci (33-160 SNVs): sampled states / sub-steps / intervals, the same exact edge identities
        specs.append({"name": "long%d" % i, "kind": "long", "shard": 110 + i, "instances": 12 if tier == "quick" else 150, "timeout": 7000})
    return specs


def required(tier):
    return {
        "base_rows": 3000, "interval_rows": 3000, "db_edges_base": 3000, "db_edges_interval": 500,
        "rows_dup_state": 500, "rows_multiallelic": 500, "rows_tempered": 500, "rows_inbred": 500,
        "perm_invariance_checked": 500, "m1_crosscheck": 200, "exchange_checked": 1000, "exchange_swaps_observed": 100,
        "orch_mutation_calls": 100, "orch_swap_calls": 50, "rows_cache_enabled": 500, "recomb_rows_with_options": 100,
        "dosage_rows_with_options": 100, "compound_kernels_checked": 10, "compound_paths_enumerated": 2000,
        "instances_ploidy_5_6_three_sites": 10,
        "long_instances": 8, "long_db_edges_base": 300, "long_db_edges_base_copy_number_changes": 40, "long_db_edges_interval": 40,
        "long_db_edges_base_beyond_site_64": 40,
    }


# ---------------------------------------------------------------------------
# instances


def make_instance(rng, tier):
    ploidy = int(rng.choice([2, 3, 4] if tier == "quick" else [2, 3, 4, 5]))
    n_pos = int(rng.choice([1, 2, 3] if tier == "quick" else [1, 2, 3, 4]))
    if ploidy > 3 and n_pos > 3:
        n_pos = 3  # 4 sites need >= 16 haplotypes, more than the cap for ploidy > 3
    high = rng.random() < 0.1
    if high:
        # high ploidy (pooled samples) on a tiny locus
        ploidy = int(rng.choice([6, 8]))
        n_pos = int(rng.choice([1, 2]))
    rich = (not high) and rng.random() < 0.12
    if rich:
        # ploidy 5-6 over 8-12 possible haplotypes: genotypes of copy-number pattern 2:1:1:1(:1) whose recombinants keep the
        # pattern but differ in their NUMBER of recombination options exist only here (not at ploidy <= 4, not with <= 4 haplotypes)
        ploidy = int(rng.choice([5, 5, 6]))
        n_pos = 3
    while True:
        n_alleles = rng.choice([2, 2, 3, 4], size=n_pos)
        if high:
            n_alleles = np.full(n_pos, 2)
        if rich:
            n_alleles = np.array([2, 2, 2]) if rng.random() < 0.7 else rng.permutation([3, 2, 2])
            break
        if int(np.prod(n_alleles)) <= (16 if ploidy <= 3 else 9):
            break
    n_nucl = int(max(2, n_alleles.max()))
    n_reads = int(rng.integers(0, 7))
    style = str(rng.choice(["mchap", "mchap", "dirichlet"]))
    if n_reads and rng.random() < 0.6:
        truth = gen.gen_genotype(rng, ploidy, n_alleles)
        reads = gen.gen_reads_from_haps(rng, truth, n_reads, n_alleles, n_nucl=n_nucl, gap_rate=float(rng.choice([0, 0.2, 0.4])),
                                        err=float(rng.choice([0.001, 0.01, 0.1])))
    else:
        reads = gen.gen_reads(rng, n_reads, n_alleles, n_nucl=n_nucl, gap_rate=float(rng.choice([0, 0.2, 0.4])), style=style)
    if n_reads == 0:
        # the sampler mocks up one all-NaN read when there are no reads
        reads = np.full((1, n_pos, n_nucl), np.nan)
        counts = None
    else:
        counts = gen.gen_counts(rng, n_reads)
    F = float(rng.choice([0.0, 0.01, 0.9])) if rng.random() < 0.6 else float(rng.uniform(0.0, 0.99))
    T = float(rng.choice([1.0, 0.05])) if rng.random() < 0.5 else float(rng.uniform(0.01, 1.0))
    return dict(ploidy=ploidy, n_alleles=n_alleles.astype(np.int8), reads=reads, counts=counts, F=F, T=T,
                use_cache=bool(rng.random() < 0.5), rich=bool(rich))


def make_long_instance(rng, tier):
    """A locus of 33-160 SNVs (mostly bi-allelic).  The state space cannot be enumerated; states are built from 2-3 founder
    haplotypes (duplicated rows are the rule) with a few point differences, and reads cover windows of 8-30 sites so that every
    likelihood the oracle needs stays a normal double."""
    ploidy = int(rng.choice([2, 3, 4, 4, 5, 6]))
    n_pos = int(rng.choice([33, 40, 48, 64, 65, 70, 96, 128, 129, 160]))
    n_alleles = rng.choice([2, 2, 2, 2, 3, 4], size=n_pos)
    n_nucl = int(n_alleles.max())
    founders = [np.array([rng.integers(0, a) for a in n_alleles], dtype=np.int8) for _ in range(int(rng.integers(2, 4)))]
    n_reads = int(rng.integers(4, 14))
    reads = np.full((n_reads, n_pos, n_nucl), np.nan)
    err = float(rng.choice([0.001, 0.01, 0.05]))
    for r in range(n_reads):
        w = int(rng.integers(8, 31))
        lo = int(rng.integers(0, n_pos - w + 1))
        hap = founders[int(rng.integers(len(founders)))]
        for j in range(lo, lo + w):
            if rng.random() < 0.1:
                continue
            na = int(n_alleles[j])
            call = int(hap[j]) if rng.random() > 0.03 else int(rng.integers(na))
            row = np.zeros(n_nucl)
            row[:na] = err / max(1, na - 1) if na > 1 else 1.0
            row[call] = 1 - err
            reads[r, j] = row
    counts = gen.gen_counts(rng, n_reads)
    F = float(rng.choice([0.0, 0.01, 0.3, 0.9]))
    T = float(rng.choice([1.0, 1.0, 0.3, 0.05]))
    return dict(ploidy=ploidy, n_alleles=n_alleles.astype(np.int8), reads=reads, counts=counts, F=F, T=T,
                use_cache=bool(rng.random() < 0.5), rich=False, long=True, founders=[f.tolist() for f in founders])


def long_states(rng, I, n_states):
    founders = [np.array(f, dtype=np.int8) for f in I["founders"]]
    n_pos = len(I["n_alleles"])
    out = []
    for _ in range(n_states):
        rows = [founders[int(rng.integers(len(founders)))].copy() for _ in range(I["ploidy"])]
        marks = []
        for _k in range(int(rng.integers(0, 3))):
            # a row one point mutation away from a founder: the sub-step at that cell splits / merges haplotypes
            h = int(rng.integers(I["ploidy"]))
            j = int(rng.choice([0, 1, n_pos - 1, int(rng.integers(n_pos)), int(rng.integers(n_pos))]))
            na = int(I["n_alleles"][j])
            rows[h][j] = (int(rows[h][j]) + 1 + int(rng.integers(na - 1))) % na if na > 1 else rows[h][j]
            marks.append((h, j))
        # rows in canonical order: the lumped-row memo is keyed by the multiset and keeps the ordered successors of the first
        # ordering it saw (two orderings of one multiset made the successor monitor compare rows of different orderings: a
        # false alarm of the first full run of this kind, DESIGN 8.3)
        x = np.array(sorted(tuple(int(a) for a in r) for r in rows), dtype=np.int8).reshape(I["ploidy"], n_pos)
        if any(x.tobytes() == y.tobytes() for y, _ in out):
            continue
        out.append((x, marks))
    return out


def pack_instance(I):
    return {"ploidy": I["ploidy"], "n_alleles": I["n_alleles"].tolist(), "reads": I["reads"].tolist(),
            "reads_shape": list(I["reads"].shape), "counts": None if I["counts"] is None else I["counts"].tolist(),
            "F": I["F"], "T": I["T"], "use_cache": I["use_cache"], "long": bool(I.get("long")), "founders": I.get("founders")}


def unpack_instance(d):
    return dict(ploidy=d["ploidy"], n_alleles=np.array(d["n_alleles"], dtype=np.int8),
                reads=unjson_array(d["reads"], float).reshape(d["reads_shape"]),
                counts=None if d["counts"] is None else np.array(d["counts"], dtype=np.int64),
                F=d["F"], T=d["T"], use_cache=d.get("use_cache", False), long=d.get("long", False), founders=d.get("founders"))


class Target:
    """Oracle target for one instance (memoised per unordered genotype)."""

    def __init__(self, I):
        self.I = I
        self.n_haps = math.prod(int(a) for a in I["n_alleles"])
        self.memo = {}

    @staticmethod
    def key(x):
        return tuple(sorted(tuple(int(a) for a in row) for row in x))

    def parts(self, x):
        k = self.key(x)
        if k not in self.memo:
            L = M.log_likelihood(self.I["reads"], k, self.I["counts"])
            P = M.assemble_log_prior(k, self.n_haps, self.I["F"])
            self.memo[k] = (L, P, M.log_perms(k))
        return self.memo[k]

    def llk(self, x):
        return self.parts(x)[0]

    def log_pi(self, x):
        L, P, _ = self.parts(x)
        return self.I["T"] * (L + P)

    def log_nu(self, x):
        L, P, lp = self.parts(x)
        return self.I["T"] * (L + P) - lp


def choose_states(rng, I, tier):
    haps = gen.all_haplotypes(I["n_alleles"])
    allg = list(itertools.combinations_with_replacement(range(len(haps)), I["ploidy"]))
    lim = 60 if tier == "quick" else 150
    exhaustive = len(allg) <= lim
    if not exhaustive:
        dup = [g for g in allg if len(set(g)) < len(g)]
        nodup = [g for g in allg if len(set(g)) == len(g)]
        k1 = min(len(dup), lim * 2 // 3)
        sel = [dup[i] for i in rng.permutation(len(dup))[:k1]]
        sel += [nodup[i] for i in rng.permutation(len(nodup))[: lim - k1]]
        allg = sel
    states = [np.array([haps[a] for a in g], dtype=np.int8).reshape(I["ploidy"], len(I["n_alleles"])) for g in allg]
    return states, exhaustive


def is_prob_vector(p):
    return bool(np.all(np.isfinite(p)) and p.min() >= -1e-12 and abs(p.sum() - 1) <= 1e-9)


def db_ok(la, pa, lb, pb):
    """exp(la)*pa == exp(lb)*pb within tolerance; la/lb are log target weights."""
    m = max(la, lb)
    a = math.exp(la - m) * pa
    b = math.exp(lb - m) * pb
    return abs(a - b) <= TOL * max(a, b) + 1e-15, a, b


# ---------------------------------------------------------------------------
# kernel rows


class Rows:
    def __init__(self, I, tgt, col):
        from mchap.assemble.likelihood import new_log_likelihood_cache

        self.I, self.tgt, self.col = I, tgt, col
        self.luh = float(np.log(I["n_alleles"].astype(np.int64)).sum())
        self.cache = None
        if I["use_cache"]:
            self.cache = new_log_likelihood_cache(I["ploidy"], len(I["n_alleles"]), int(I["n_alleles"].max()), 128)
        self.base_memo = {}
        self.int_memo = {}

    def base(self, x, h, j, force=None):
        I = self.I
        k = (x.tobytes(), h, j)
        if force is None and k in self.base_memo:
            return self.base_memo[k]
        llk = self.tgt.llk(x)
        p, g, new_llk, self.cache = monitors.base_step_row(
            x, I["reads"], llk, h, j, I["n_alleles"][j], self.luh, I["F"], I["T"], I["counts"], self.cache, force)
        self.col.count("base_rows")
        if force is None:
            self.base_memo[k] = p
            return p
        return p, g, new_llk

    def interval(self, x, interval, step_type, force=None):
        I = self.I
        llk = self.tgt.llk(x)
        p, g, new_llk, self.cache = monitors.interval_step_row(
            x, I["reads"], llk, self.luh, I["F"], interval, step_type, I["T"], I["counts"], self.cache, force)
        self.col.count("interval_rows")
        return p, g, new_llk

    def lumped_interval(self, x, interval, step_type):
        """{multiset key: prob} for the move from x (forces each option)."""
        k = (Target.key(x), tuple(interval), step_type)
        if k in self.int_memo:
            return self.int_memo[k]
        p, g, new_llk = self.interval(x, interval, step_type, force=10**6)  # last index = stay
        out = {}
        detail = []
        if p is None:
            out[Target.key(x)] = 1.0
            self.int_memo[k] = (out, None, detail)
            return self.int_memo[k]
        n_opt = len(p) - 1
        if not np.array_equal(g, x):
            detail.append(("stay-moved", g.tolist()))
        out[Target.key(x)] = out.get(Target.key(x), 0.0) + float(p[-1])
        for c in range(n_opt):
            p2, g2, llk2 = self.interval(x, interval, step_type, force=c)
            kk = Target.key(g2)
            out[kk] = out.get(kk, 0.0) + float(p2[c])
            detail.append((c, g2.tolist(), llk2))
        self.int_memo[k] = (out, p, detail)
        return self.int_memo[k]


def tags(I, x, col):
    nontriv = False
    if len({tuple(r) for r in x.tolist()}) < len(x):
        col.count("rows_dup_state")
        nontriv = True
    if I["n_alleles"].max() > 2:
        col.count("rows_multiallelic")
        nontriv = True
    if I["T"] < 1:
        col.count("rows_tempered")
        nontriv = True
    if I["F"] > 0:
        col.count("rows_inbred")
        nontriv = True
    if I["use_cache"]:
        col.count("rows_cache_enabled")
    return nontriv


def check_instance(I, rng, col, tier, inst_id, only_state=None, only_extra=None):
    tgt = Target(I)
    R = Rows(I, tgt, col)
    is_long = bool(I.get("long"))
    marks_of = {}
    if is_long and only_state is not None:
        x0 = np.array(only_state, dtype=np.int8)
        ls = [(x0, [(h_, j_) for h_ in range(x0.shape[0]) for j_ in (only_extra or {}).get("js", [])])]
        states, exhaustive = [x0], False
        marks_of = {x0.tobytes(): ls[0][1]}
    elif is_long:
        ls = long_states(rng, I, 3 if tier == "quick" else 5)
        states, exhaustive = [x for x, _ in ls], False
        marks_of = {x.tobytes(): m for x, m in ls}
        col.count("long_instances")
    else:
        states, exhaustive = choose_states(rng, I, tier)
    if exhaustive:
        col.count("instances_exhaustive")
    col.count("instances")
    if I.get("rich"):
        col.count("instances_ploidy_5_6_three_sites")
    ploidy, n_pos = I["ploidy"], len(I["n_alleles"])
    intervals = [(a, b) for a in range(n_pos) for b in range(a + 1, n_pos + 1)] if not is_long else None
    packed = None

    def viol(mech, msg, x, extra=None):
        nonlocal packed
        if packed is None:
            packed = pack_instance(I)
        col.violation(mech, msg, {"instance": packed, "state": x.tolist(), "extra": extra})

    row_budget = 15000 if tier == "quick" else 40000
    rows_at_start = col.counters.get("base_rows", 0) + col.counters.get("interval_rows", 0)
    for x in states:
        if only_state is not None and x.tolist() != only_state:
            continue
        if only_state is None and col.counters.get("base_rows", 0) + col.counters.get("interval_rows", 0) - rows_at_start > row_budget:
            col.count("instances_truncated_by_row_budget")
            break
        if tgt.llk(x) == -math.inf:
            col.count("zero_likelihood_states_skipped")
            continue
        # ---------------- base_step ----------------
        if is_long:
            js = {0, 1, 2, n_pos - 1, n_pos - 2, n_pos - 33 if n_pos > 33 else 0, n_pos - 32 if n_pos > 32 else 0} | {int(v) for v in rng.integers(0, n_pos, size=5)}
            js |= {j_ for _, j_ in marks_of.get(x.tobytes(), [])}
            hj = [(h_, j_) for h_ in range(ploidy) for j_ in sorted(js)]
            a_, b_ = sorted(int(v) for v in rng.choice(n_pos + 1, size=2, replace=False))
            intervals = [(0, n_pos), (0, 1), (n_pos - 1, n_pos), (a_, b_), (0, int(rng.integers(1, n_pos))), (int(rng.integers(0, n_pos - 1)), n_pos),
                         (max(0, n_pos - 40), n_pos - 20), (10, min(n_pos, 70))]
            intervals = sorted({iv for iv in intervals if iv[0] < iv[1]})
        else:
            hj = [(h_, j_) for h_ in range(ploidy) for j_ in range(n_pos)]
        for h, j in hj:
            if True:
                na = int(I["n_alleles"][j])
                cur = int(x[h, j])
                nontriv = tags(I, x, col)
                col.case("B|%d|%s|%d|%d" % (inst_id, x.tolist(), h, j), nontrivial=nontriv)
                rows = []
                for c in range(na):
                    p, g, new_llk = R.base(x, h, j, force=c)
                    rows.append(p)
                    want = x.copy()
                    want[h, j] = c
                    if not np.array_equal(g, want):
                        viol("base-step-successor-wrong", "forced choice %d at (h=%d,j=%d) gave %s want %s" % (c, h, j, g.tolist(), want.tolist()), x, {"h": h, "j": j})
                    wl = tgt.llk(want)
                    if wl != -math.inf and abs(new_llk - wl) > 1e-9 * max(1, abs(wl)):
                        viol("base-step-returned-llk-wrong", "returned llk %.12g but likelihood of the new state is %.12g (h=%d,j=%d,c=%d)" % (new_llk, wl, h, j, c), x, {"h": h, "j": j})
                p = rows[0]
                if len(p) != na or not is_prob_vector(p):
                    viol("row-not-a-distribution", "base_step row %s (h=%d,j=%d)" % (p.tolist(), h, j), x, {"h": h, "j": j})
                    continue
                R.base_memo[(x.tobytes(), h, j)] = p
                # detailed balance on ordered tuples w.r.t. nu_T
                for c in range(na):
                    if c == cur:
                        continue
                    x2 = x.copy()
                    x2[h, j] = c
                    if tgt.llk(x2) == -math.inf:
                        if p[c] > 1e-300:
                            viol("moves-into-zero-likelihood", "base_step proposes a zero-likelihood state with prob %g" % p[c], x, {"h": h, "j": j})
                        continue
                    p_back = R.base(x2, h, j)
                    ok, a, b = db_ok(tgt.log_nu(x), float(p[c]), tgt.log_nu(x2), float(p_back[cur]))
                    col.count("db_edges_base")
                    if is_long:
                        col.count("long_db_edges_base")
                        if j >= 64:
                            col.count("long_db_edges_base_beyond_site_64")
                        if tgt.parts(x)[2] != tgt.parts(x2)[2]:
                            col.count("long_db_edges_base_copy_number_changes")
                    col.maxv("max_db_residual_base", abs(a - b) / max(a, b, 1e-300))
                    if not ok:
                        viol("base-step-detailed-balance", "nu(x)K(x,x')=%.12g != nu(x')K(x',x)=%.12g at (h=%d,j=%d) %d->%d; K=%.6g K_back=%.6g T=%g F=%g"
                             % (a, b, h, j, cur, c, p[c], p_back[cur], I["T"], I["F"]), x, {"h": h, "j": j, "c": c})
                # multiset-only dependence: permute rows, h follows
                if ploidy > 1 and rng.random() < 0.5:
                    perm = rng.permutation(ploidy)
                    xp = np.ascontiguousarray(x[perm])
                    hp = int(np.where(perm == h)[0][0])
                    pp = R.base(xp, hp, j)
                    col.count("perm_invariance_checked")
                    if len(pp) != len(p) or np.abs(pp - p).max() > 1e-12:
                        viol("move-depends-on-haplotype-order", "base_step row changes under row permutation %s: %s vs %s" % (perm.tolist(), p.tolist(), pp.tolist()), x, {"h": h, "j": j})
                # M1: compiled kernel lands where the extracted row says
                if rng.random() < 0.12:
                    m1_base(I, R, tgt, x, h, j, p, int(rng.integers(1, 2**31 - 1)), col, viol)
        # ---------------- interval_step ----------------
        for interval in intervals:
            for step_type in (0, 1):
                nontriv = tags(I, x, col)
                col.case("I|%d|%s|%s|%d" % (inst_id, Target.key(x), interval, step_type), nontrivial=nontriv)
                lump, p, detail = R.lumped_interval(x, interval, step_type)
                kx = Target.key(x)
                if p is not None:
                    col.count("recomb_rows_with_options" if step_type == 0 else "dosage_rows_with_options")
                    if not is_prob_vector(p):
                        viol("row-not-a-distribution", "interval_step row %s interval %s type %d" % (p.tolist(), interval, step_type), x, {"interval": interval, "type": step_type})
                        continue
                    for d in detail:
                        if d[0] == "stay-moved":
                            viol("interval-step-successor-wrong", "choosing 'no move' changed the genotype to %s" % (d[1],), x, {"interval": interval, "type": step_type})
                            continue
                        c, g2, llk2 = d
                        wl = tgt.llk(np.array(g2))
                        if wl != -math.inf and abs(llk2 - wl) > 1e-9 * max(1, abs(wl)):
                            viol("interval-step-returned-llk-wrong", "returned llk %.12g but likelihood of the new state %s is %.12g" % (llk2, g2, wl), x, {"interval": interval, "type": step_type})
                        # the move must only rearrange alleles inside the interval, column multisets unchanged for
                        # recombination; outside the interval nothing changes
                        g2a = np.array(g2)
                        lo, hi = interval
                        outside = [jj for jj in range(n_pos) if not (lo <= jj < hi)]
                        if outside and not np.array_equal(g2a[:, outside], x[:, outside]):
                            viol("interval-step-successor-wrong", "alleles outside interval %s changed: %s" % (interval, g2), x, {"interval": interval, "type": step_type})
                        if Target.key(g2a) == kx:
                            viol("interval-option-is-not-a-new-genotype", "option %d leads back to the same unordered genotype" % c, x, {"interval": interval, "type": step_type})
                # detailed balance on multisets w.r.t. pi_T
                for k2, pr in lump.items():
                    if k2 == kx:
                        continue
                    x2 = np.array(k2, dtype=np.int8).reshape(x.shape)
                    if tgt.llk(x2) == -math.inf:
                        continue
                    lump2, _, _ = R.lumped_interval(x2, interval, step_type)
                    back = lump2.get(kx, 0.0)
                    ok, a, b = db_ok(tgt.log_pi(x), pr, tgt.log_pi(x2), back)
                    col.count("db_edges_interval")
                    if is_long:
                        col.count("long_db_edges_interval")
                    col.maxv("max_db_residual_interval", abs(a - b) / max(a, b, 1e-300))
                    if not ok:
                        viol("interval-step-detailed-balance", "pi(G)K(G,G')=%.12g != pi(G')K(G',G)=%.12g interval %s type %d K=%.6g K_back=%.6g T=%g F=%g G'=%s"
                             % (a, b, interval, step_type, pr, back, I["T"], I["F"], k2), x, {"interval": interval, "type": step_type})
                # multiset-only dependence
                if ploidy > 1 and rng.random() < 0.35:
                    perm = rng.permutation(ploidy)
                    xp = np.ascontiguousarray(x[perm])
                    key = (Target.key(xp), tuple(interval), step_type)
                    saved = R.int_memo.pop(key, None)
                    lump_p, _, _ = R.lumped_interval(xp, interval, step_type)
                    if saved is not None:
                        R.int_memo[key] = saved
                    col.count("perm_invariance_checked")
                    keys = set(lump) | set(lump_p)
                    diff = max(abs(lump.get(k, 0.0) - lump_p.get(k, 0.0)) for k in keys)
                    if diff > 1e-12:
                        viol("move-depends-on-haplotype-order", "interval_step lumped row changes under row permutation %s (max diff %g) interval %s type %d" % (perm.tolist(), diff, interval, step_type), x, {"interval": interval, "type": step_type, "perm": perm.tolist()})
                if p is not None and rng.random() < 0.15:
                    m1_interval(I, R, tgt, x, interval, step_type, p, detail, int(rng.integers(1, 2**31 - 1)), col, viol)
    return tgt


def m1_base(I, R, tgt, x, h, j, p, s, col, viol):
    from mchap.assemble import mutation
    from mchap.jitutils import seed_numba

    u = monitors.numba_uniform(s)
    c = monitors.predicted_choice(p, u)
    cs = np.cumsum(p)
    if np.min(np.abs(cs - u)) < 1e-9:
        col.count("m1_ambiguous_skipped")
        return
    g = x.copy()
    seed_numba(s)
    mutation.base_step(g, I["reads"], tgt.llk(x), h, j, I["n_alleles"][j], R.luh, I["F"], I["T"], I["counts"], None)
    col.count("m1_crosscheck")
    want = x.copy()
    want[h, j] = c
    if not np.array_equal(g, want):
        viol("compiled-kernel-disagrees-with-extracted-row", "compiled base_step with u=%.6f moved to %s; extracted row %s predicts %s" % (u, g.tolist(), p.tolist(), want.tolist()), x, {"h": h, "j": j, "numba_seed": s})


def m1_interval(I, R, tgt, x, interval, step_type, p, detail, s, col, viol):
    from mchap.assemble import structural
    from mchap.jitutils import seed_numba

    u = monitors.numba_uniform(s)
    c = monitors.predicted_choice(p, u)
    if np.min(np.abs(np.cumsum(p) - u)) < 1e-9:
        col.count("m1_ambiguous_skipped")
        return
    g = x.copy()
    seed_numba(s)
    structural.interval_step(g, I["reads"], tgt.llk(x), R.luh, I["F"], np.array(interval, dtype=np.int64), step_type, I["T"], I["counts"], None)
    col.count("m1_crosscheck")
    succ = {d[0]: d[1] for d in detail if d[0] != "stay-moved"}
    want = x.tolist() if c >= len(p) - 1 else succ.get(c)
    if want is None or g.tolist() != want:
        viol("compiled-kernel-disagrees-with-extracted-row", "compiled interval_step with u=%.6f moved to %s; extracted row %s predicts %s" % (u, g.tolist(), p.tolist(), want), x, {"interval": interval, "type": step_type, "numba_seed": s})


def run_kernel(tier, seed, spec, col):
    monitors.ensure_compiled()
    for i in range(spec["instances"]):
        rng = gen.rng_for(seed, ID, spec["shard"], i)
        I = make_instance(rng, tier)
        inst_id = spec["shard"] * 100000 + i
        check_instance(I, rng, col, tier, inst_id)
        if i == 0 and spec["shard"] == 0:
            col.sample({"instance": pack_instance(I)})


def run_long(tier, seed, spec, col):
    monitors.ensure_compiled()
    for i in range(spec["instances"]):
        rng = gen.rng_for(seed, ID, spec["shard"], i)
        I = make_long_instance(rng, tier)
        check_instance(I, rng, col, tier, spec["shard"] * 100000 + i)


# ---------------------------------------------------------------------------
# exchange


def run_exchange(tier, seed, spec, col):
    from mchap.assemble.tempering import chain_swap_acceptance, chain_swap_step
    from mchap.jitutils import seed_numba

    monitors.ensure_compiled()
    for c in range(spec["cases"]):
        rng = gen.rng_for(seed, ID, spec["shard"], c)
        if c % 50 == 0:
            I = make_instance(rng, "quick")
            tgt = Target(I)
            luh = float(np.log(I["n_alleles"].astype(np.int64)).sum())
            n_haps = tgt.n_haps
        gi = gen.gen_genotype(rng, I["ploidy"], I["n_alleles"])
        gj = gen.gen_genotype(rng, I["ploidy"], I["n_alleles"])
        Li, Pi, _ = tgt.parts(gi)
        Lj, Pj, _ = tgt.parts(gj)
        if Li == -math.inf or Lj == -math.inf:
            continue
        Ti = float(rng.choice([1.0, 1.0, rng.uniform(0.05, 1.0)]))
        Tj = float(rng.uniform(0.0, Ti) * rng.choice([1.0, 0.999, 0.5]))
        if not (Tj < Ti):
            continue
        col.case("X|%s|%s|%r|%r|%d" % (gi.tolist(), gj.tolist(), Ti, Tj, c), nontrivial=True)
        a = float(chain_swap_acceptance(Li, Pi, Ti, Lj, Pj, Tj))
        Ui, Uj = Li + Pi, Lj + Pj
        want = min(1.0, math.exp(min(50.0, (Uj - Ui) * (Ti - Tj))))
        col.count("exchange_checked")
        rep = {"gi": gi.tolist(), "gj": gj.tolist(), "Ti": Ti, "Tj": Tj, "instance": pack_instance(I)}
        if abs(a - want) > 1e-9 * max(want, 1e-300) + 1e-300:
            col.violation("exchange-acceptance-wrong", "acceptance %.12g want min(1,exp((Uj-Ui)(Ti-Tj)))=%.12g" % (a, want), rep)
        # pairwise balance with the reverse exchange
        a_rev = float(chain_swap_acceptance(Lj, Pj, Ti, Li, Pi, Tj))
        lhs = (Ti * Ui + Tj * Uj)
        rhs = (Ti * Uj + Tj * Ui)
        ok, x1, x2 = db_ok(lhs, a, rhs, a_rev)
        if not ok:
            col.violation("exchange-detailed-balance", "pi_i(Gi)pi_j(Gj)a=%.12g != pi_i(Gj)pi_j(Gi)a'=%.12g" % (x1, x2), rep)
        # the real step under a seeded RNG
        s = int(rng.integers(1, 2**31 - 1))
        u = monitors.numba_uniform(s)
        if abs(u - want) < 1e-9:
            continue
        g1, g2 = gi.copy(), gj.copy()
        seed_numba(s)
        l1, l2 = chain_swap_step(g1, Li, Ti, g2, Lj, Tj, luh, I["F"])
        swap = want >= u
        col.count("exchange_swaps_observed" if swap else "exchange_rejects_observed")
        if swap:
            good = np.array_equal(g1, gj) and np.array_equal(g2, gi) and l1 == Lj and l2 == Li
        else:
            good = np.array_equal(g1, gi) and np.array_equal(g2, gj) and l1 == Li and l2 == Lj
        if not good:
            col.violation("exchange-step-wrong", "u=%.6f a=%.6f expected %s; got genotypes %s / %s llks %r %r" % (u, want, "swap" if swap else "no swap", g1.tolist(), g2.tolist(), l1, l2), rep)
        if c < 2:
            col.sample({"exchange": {k: rep[k] for k in ("gi", "gj", "Ti", "Tj")}, "acceptance": a})


# ---------------------------------------------------------------------------
# orchestration


def run_orch(tier, seed, spec, col):
    from mchap.assemble import mcmc, mutation, structural
    from mchap.assemble import tempering  # noqa: F401

    monitors.ensure_compiled()
    for r in range(spec["runs"]):
        rng = gen.rng_for(seed, ID, spec["shard"], r)
        I = make_instance(rng, "quick")
        tgt = Target(I)
        n_pos = len(I["n_alleles"])
        n_t = int(rng.integers(2, 5))
        temps = np.sort(np.concatenate([rng.uniform(0.05, 0.95, size=n_t - 1), [1.0]]))
        g0 = gen.gen_genotype(rng, I["ploidy"], I["n_alleles"])
        if tgt.llk(g0) == -math.inf:
            continue
        events = []
        real_mut, real_struct, real_swap = mutation.compound_step, structural.compound_step, mcmc.chain_swap_step

        def w_mut(**kw):
            events.append(("mut", float(kw["temp"]), float(kw["llk"]), kw["genotype"].copy()))
            return real_mut(kw["genotype"], kw["reads"], kw["llk"], kw["n_alleles"].astype(np.int8), kw["log_unique_haplotypes"], kw["inbreeding"], kw["temp"], kw["read_counts"], kw["cache"])

        def w_struct(**kw):
            events.append(("struct", float(kw["temp"]), float(kw["llk"]), kw["genotype"].copy(), int(kw["step_type"]), kw["intervals"].copy()))
            return real_struct(kw["genotype"], kw["reads"], kw["llk"], kw["intervals"], kw["log_unique_haplotypes"], kw["inbreeding"], kw["step_type"], True, kw["temp"], kw["read_counts"], kw["cache"])

        def w_swap(**kw):
            gi, gj = kw["genotype_i"].copy(), kw["genotype_j"].copy()
            out = real_swap(kw["genotype_i"], kw["llk_i"], kw["temp_i"], kw["genotype_j"], kw["llk_j"], kw["temp_j"], kw["log_unique_haplotypes"], kw["inbreeding"])
            events.append(("swap", float(kw["temp_i"]), float(kw["temp_j"]), float(kw["llk_i"]), float(kw["llk_j"]), gi, gj,
                           kw["genotype_i"].copy(), kw["genotype_j"].copy(), float(out[0]), float(out[1])))
            return out

        # every OTHER move kernel of the two modules that takes a temperature (base_step, interval_step ...): a refactored
        # loop may call them directly instead of through compound_step; they are recorded with their defaults applied
        import inspect

        extra = []
        for mod in (mutation, structural):
            for nm in dir(mod):
                fn = getattr(mod, nm)
                if nm == "compound_step" or not hasattr(fn, "py_func"):
                    continue
                try:
                    sig = inspect.signature(fn.py_func)
                except (TypeError, ValueError):
                    continue
                if "temp" not in sig.parameters or "genotype" not in sig.parameters:
                    continue

                def make(nm=nm, fn=fn, sig=sig, modname=mod.__name__.rsplit(".", 1)[-1]):
                    def w_other(*a, **kw):
                        b = sig.bind(*a, **kw)
                        b.apply_defaults()
                        llk_in = b.arguments.get("llk", float("nan"))
                        events.append(("other", float(b.arguments["temp"]), float(llk_in), np.array(b.arguments["genotype"]).copy(), "%s.%s" % (modname, nm)))
                        return fn(*b.args, **b.kwargs)
                    return w_other

                extra.append((mod, nm, make()))
        steps = 25
        np.random.seed(int(rng.integers(2**31)))
        break_dist = mcmc._point_beta_probabilities(n_pos, 1.0, 3.0)
        with monitors.patched((mutation, "compound_step", w_mut), (structural, "compound_step", w_struct), (mcmc, "chain_swap_step", w_swap), *extra):
            gt, lt = mcmc._denovo_assembler.py_func(
                genotype=g0.copy(), inbreeding=I["F"], reads=I["reads"], read_counts=I["counts"],
                n_alleles=I["n_alleles"].astype(np.int64), steps=steps, break_dist=break_dist,
                recombination_step_probability=0.5, partial_dosage_step_probability=0.5, dosage_step_probability=1.0,
                temperatures=temps, return_heated_trace=True, llk_cache_threshold=(0 if I["use_cache"] else -1))
        rep = {"instance": pack_instance(I), "temps": temps.tolist(), "g0": g0.tolist()}
        col.case("O|%d|%s" % (r, temps.tolist()), nontrivial=True)
        # decode the event stream: per iteration, per temperature t: mut, struct*, [swap if t>0]
        t = 0
        cur_temp = None
        for ev in events:
            if ev[0] == "mut":
                want_T = float(temps[t % n_t])
                col.count("orch_mutation_calls")
                cur_temp = ev[1]
                if ev[1] != want_T:
                    col.violation("chain-given-wrong-temperature", "mutation call #%d received temp %r, chain temperature is %r" % (t, ev[1], want_T), rep)
                wl = tgt.llk(ev[3])
                if abs(ev[2] - wl) > 1e-9 * max(1, abs(wl)):
                    col.violation("chain-likelihood-out-of-step", "mutation call for temp %r received llk %.12g but its genotype has %.12g" % (ev[1], ev[2], wl), rep)
                t += 1
            elif ev[0] == "struct":
                col.count("orch_structural_calls")
                if ev[1] != cur_temp:
                    col.violation("chain-given-wrong-temperature", "structural call received temp %r, chain temperature is %r" % (ev[1], cur_temp), rep)
                wl = tgt.llk(ev[3])
                if abs(ev[2] - wl) > 1e-9 * max(1, abs(wl)):
                    col.violation("chain-likelihood-out-of-step", "structural call received llk %.12g, genotype has %.12g" % (ev[2], wl), rep)
                iv = ev[5]
                if not (iv[0, 0] == 0 and iv[-1, 1] == n_pos and np.all(iv[1:, 0] == iv[:-1, 1]) and np.all(iv[:, 1] > iv[:, 0])):
                    col.violation("intervals-not-a-partition", "structural call received intervals %s for %d sites" % (iv.tolist(), n_pos), rep)
            elif ev[0] == "other":
                col.count("orch_direct_move_calls")
                if ev[1] != cur_temp:
                    col.violation("chain-given-wrong-temperature", "%s called directly by the sampler loop with temp %r (defaults applied), chain temperature is %r" % (ev[4], ev[1], cur_temp), rep)
                wl = tgt.llk(ev[3])
                if not math.isnan(ev[2]) and abs(ev[2] - wl) > 1e-9 * max(1, abs(wl)):
                    col.violation("chain-likelihood-out-of-step", "%s received llk %.12g, genotype has %.12g" % (ev[4], ev[2], wl), rep)
            else:
                col.count("orch_swap_calls")
                _, Ti, Tj, li, lj, gi, gj, gi2, gj2, oi, oj = ev
                idx = (t - 1) % n_t
                if Ti != float(temps[idx]) or Tj != float(temps[idx - 1]) or not Ti > Tj:
                    col.violation("chain-given-wrong-temperature", "exchange received temps (%r,%r), expected (%r,%r)" % (Ti, Tj, temps[idx], temps[idx - 1]), rep)
                for nm, l, g in (("i", li, gi), ("j", lj, gj), ("i-after", oi, gi2), ("j-after", oj, gj2)):
                    wl = tgt.llk(g)
                    if abs(l - wl) > 1e-9 * max(1, abs(wl)):
                        col.violation("chain-likelihood-out-of-step", "exchange llk_%s %.12g but genotype has %.12g" % (nm, l, wl), rep)
        # recorded heated trace must carry the right likelihood for every chain and step
        for tt in range(n_t):
            for s in range(steps):
                wl = tgt.llk(gt[tt, s])
                col.count("orch_trace_cells")
                if abs(lt[tt, s] - wl) > 1e-9 * max(1, abs(wl)):
                    col.violation("chain-likelihood-out-of-step", "trace llk[%d,%d]=%.12g but genotype has %.12g" % (tt, s, lt[tt, s], wl), rep)
                    break
        if r == 0:
            col.sample({"orchestration": {"temps": temps.tolist(), "events": len(events), "first_events": [(e[0], e[1]) for e in events[:8]]}})


def run_compound(tier, seed, spec, col):
    """Exact transition kernels of the COMPOUND moves (one whole mutation sweep in every shuffled order; one whole
    structural step over every permutation of an interval partition): every order and every sequence of random choices
    is forced through the real compound_step.py_func -> base_step/interval_step.py_func; the tempered posterior over
    unordered genotypes must be stationary (pi_T P = pi_T)."""
    from mchap.assemble import mutation, structural

    monitors.ensure_compiled()
    shapes = [(2, [2, 2]), (3, [3]), (2, [4]), (2, [2, 3]), (3, [2]), (4, [2])]
    for i in range(spec["instances"]):
        rng = gen.rng_for(seed, ID, spec["shard"], i)
        ploidy, na = shapes[(spec["shard"] + i) % len(shapes)]
        I = make_instance(rng, "quick")
        na = np.array(na, dtype=np.int8)
        n_pos = len(na)
        n_reads = int(rng.integers(1, 4))
        reads = gen.gen_reads(rng, n_reads, na, n_nucl=int(na.max()), gap_rate=0.2, style="mchap")
        I = dict(I, ploidy=ploidy, n_alleles=na, reads=reads, counts=gen.gen_counts(rng, n_reads), use_cache=False)
        tgt = Target(I)
        luh = float(np.log(na.astype(np.int64)).sum())
        haps = gen.all_haplotypes(na)
        gs = list(itertools.combinations_with_replacement(range(len(haps)), ploidy))
        states = [np.array([haps[a] for a in g], dtype=np.int8).reshape(ploidy, n_pos) for g in gs]
        keys = [Target.key(x) for x in states]
        kidx = {k: j for j, k in enumerate(keys)}
        lpi = np.array([tgt.log_pi(x) for x in states])
        pi = np.exp(lpi - lpi.max())
        pi /= pi.sum()
        rep = {"instance": pack_instance(I)}

        def py_base(_f=mutation.base_step.py_func, **kw):
            return _f(**kw)

        def py_interval(_f=structural.interval_step.py_func, **kw):
            return _f(**kw)

        def check_kernel(P, what):
            col.count("compound_kernels_checked")
            col.case("CK|%d|%d|%s" % (spec["shard"], i, what), nontrivial=True)
            rows = P.sum(axis=1)
            if np.abs(rows - 1).max() > 1e-9:
                col.violation("row-not-a-distribution", "%s kernel rows sum to %s" % (what, rows.tolist()), rep)
                return
            res = float(np.abs(pi @ P - pi).max())
            col.maxv("max_compound_stationarity_residual", res)
            if res > 1e-9:
                k = int(np.argmax(np.abs(pi @ P - pi)))
                col.violation("compound-move-not-stationary-at-tempered-posterior", "%s: max |pi P - pi| = %.3g at genotype %s (T=%g F=%g ploidy %d n_alleles %s)"
                              % (what, res, keys[k], I["T"], I["F"], ploidy, na.tolist()), rep)

        # ---- mutation sweep: a fixed visiting order is NOT equivariant under row permutations, so its kernel is checked
        # on ORDERED tuples: nu_T P = nu_T with nu_T(x) = pi_T(G(x)) / perms(G(x)) (the lift every base_step balances)
        ord_states = [np.array(t, dtype=np.int8).reshape(ploidy, n_pos) for t in itertools.product(haps, repeat=ploidy)]
        oidx = {x.tobytes(): j for j, x in enumerate(ord_states)}
        lnu = np.array([tgt.log_nu(x) for x in ord_states])
        nu = np.exp(lnu - lnu.max())
        nu /= nu.sum()
        n_sub = ploidy * n_pos
        orders = list(itertools.permutations(range(n_sub)))
        pick = [orders[k] for k in rng.permutation(len(orders))[: (3 if tier == "quick" else 8)]]
        for order in pick:
            P = np.zeros((len(ord_states), len(ord_states)))
            for a, x in enumerate(ord_states):
                def run(rec, x=x, order=order):
                    g = x.copy()
                    with monitors.patched((mutation, "random_choice", rec), (mutation, "np", monitors.NpRandomProxy(np.array(order))), (mutation, "base_step", py_base)):
                        mutation.compound_step.py_func(g, I["reads"], tgt.llk(x), na, luh, I["F"], I["T"], I["counts"], None)
                    return g.tobytes()

                for final, pr, _ in monitors.enumerate_paths(run):
                    col.count("compound_paths_enumerated")
                    P[a, oidx[final]] += pr
            col.count("compound_kernels_checked")
            col.case("CK|%d|%d|mut%s" % (spec["shard"], i, order), nontrivial=True)
            if np.abs(P.sum(axis=1) - 1).max() > 1e-9:
                col.violation("row-not-a-distribution", "mutation sweep kernel rows sum to %s" % P.sum(axis=1).tolist()[:6], rep)
                continue
            res = float(np.abs(nu @ P - nu).max())
            col.maxv("max_compound_stationarity_residual", res)
            if res > 1e-9:
                col.violation("compound-move-not-stationary-at-tempered-posterior", "mutation sweep in order %s: max |nu P - nu| = %.3g on ordered tuples (T=%g F=%g ploidy %d n_alleles %s)"
                              % (order, res, I["T"], I["F"], ploidy, na.tolist()), rep)
        # ---- structural compound step over a partition, both types
        if n_pos >= 2:
            parts = [np.array([[0, 1], [1, n_pos]]), np.array([[0, n_pos]])]
        else:
            parts = [np.array([[0, n_pos]])]
        for intervals in parts:
            for step_type in (0, 1):
                for perm in itertools.permutations(range(len(intervals))):
                    P = np.zeros((len(gs), len(gs)))
                    for a, x in enumerate(states):
                        def run(rec, x=x, perm=perm):
                            g = x.copy()
                            with monitors.patched((structural, "random_choice", rec), (structural, "np", monitors.NpRandomProxy(np.array(perm))), (structural, "interval_step", py_interval)):
                                structural.compound_step.py_func(g, I["reads"], tgt.llk(x), intervals, luh, I["F"], step_type, True, I["T"], I["counts"], None)
                            return Target.key(g)

                        for final, pr, _ in monitors.enumerate_paths(run):
                            col.count("compound_paths_enumerated")
                            P[a, kidx[final]] += pr
                    check_kernel(P, "structural compound step type %d intervals %s order %s" % (step_type, intervals.tolist(), perm))
        if i == 0 and spec["shard"] == 95:
            col.sample({"compound_kernel_instance": pack_instance(I), "genotypes": len(gs)})


def run_shard(tier, seed, spec, col):
    {"kernel": run_kernel, "exchange": run_exchange, "orch": run_orch, "compound": run_compound, "long": run_long}[spec["kind"]](tier, seed, spec, col)


def replay(obj, col):
    monitors.ensure_compiled()
    c = obj["case"]
    I = unpack_instance(c["instance"])
    if "state" in c:
        rng = np.random.default_rng(0)
        ex = c.get("extra") or {}
        check_instance(I, rng, col, "thorough", 0, only_state=c["state"], only_extra={"js": [ex["j"]] if "j" in ex else []})
    else:
        col.inconclusive_note("replay of exchange/orchestration cases: rerun the tier with the same VERIF_SEED")
