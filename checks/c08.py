"""C08 - records depend only on inputs and seed, not on cores / order / history; failures surface.

Monitors
  inproc  (M4a) stdout of the four calling programs run in-process: same argv twice; permuted / sub-setted targets BED
          (assemble) and sub-setted haplotype VCF (call, call-exact, call-pedigree); program.call_locus for one locus under
          different process histories (other loci first, numpy / numba RNG draws in between);
  cores   (M4b) stdout + exit status of REAL `mchap` subprocesses for --cores in {1,2,3,5,8,n_loci+2}, with seeded delay
          injection (inject/sitecustomize.py) to diversify worker schedules; the distinct output orders seen are recorded;
  fault   (M4b) one locus made to fail inside a worker - naturally (a BAM read whose MD tag contradicts the variant file) at
          every position of the locus list, and by injected exception - with 1 and several cores: exit status must be non-zero,
          no record for the failed locus, never exit 0 with a locus missing; a hang past the watchdog is a violation.
Oracle: byte equality of record lines per locus; multiset equality across core counts; header equality apart from
##fileDate / ##commandline; each locus exactly once as an intact line.
"""

import functools
import json
import os
import shutil
import sys
import time

import numpy as np

from vlib import cli, datasets, env, gen, hapvcf, vcfparse

ID = "C08"
TECHNIQUE = "runtime monitoring of real mchap processes: stdout/exit status under varied --cores with injected worker delays (distinct output orders recorded), permuted/sub-setted loci, in-process history perturbation of call_locus, natural and injected failing loci at every position; exhaustive (--cores 2..16) x (number of loci) grid in-process with the real pool/queue/forked writer; haplotype files with masked references / zero priors and filter / prior option variants"
LEVEL = "fault_enumeration"
LEVEL_TEXT = (
    "Exploration plus fault enumeration: on generated datasets (5-8 loci, 3 samples) the four calling programs were run as real "
    "processes for every --cores value in {1,2,3,5,8,n_loci+2} under several seeded worker-delay schedules and their record "
    "lines compared as multisets with the single-core run (each locus exactly once, intact, header identical apart from date and "
    "command line); in-process the same locus was called under different histories (other loci first, numpy/numba RNG draws "
    "in between) and with permuted / sub-setted targets, and its record compared byte for byte; one failing locus was placed at "
    "EVERY position of the locus list (natural MD/REF contradiction, and injected exception) with 1 and 3 cores and the exit "
    "status and emitted records observed. Schedules are sampled (the number of distinct output orders seen is reported), not "
    "enumerated."
)
LEVEL_NOTE = "Trusts the OS process exit status and pipes; worker interleavings are diversified by injected sleeps, not controlled; a watchdog of 600 s per process turns a hang into a violation only for the failing-locus runs (otherwise inconclusive)."
RULE = (
    "case = one program run (argv) or one call_locus history; non-trivial = run with >1 core, or a permuted/sub-setted/history-"
    "perturbed run, or a fault run; distinct by hash of (dataset id, program, argv tail, injection)"
)
LEVEL_TEXT += ' Every (--cores 2..16, 1..48 loci; 1..96 in the thorough tier) pair was run in-process with the real pool, queue and forked writer (each locus exactly once, records equal to the single-core run); the haplotype files carry masked references and zero priors and the order / subset / history comparisons are repeated under --filter-input-haplotypes and --prior-frequencies.'
LEVEL_TEXT += ' Session 4: the interpreter hash seed is not an input - the multi-core comparison runs use different PYTHONHASHSEED values, and a hashseed kind repeats each program under 4-8 hash seeds on inputs producing exact posterior ties (a read-less sample, 3 retained steps per chain).'
ASSUMPTIONS = ["--mcmc-seed fixed per run", "the haplotype VCF must stay coordinate-sorted, so only subsets (not permutations) of its records are used"]
PROGRAMS = ["assemble", "call", "call-exact", "call-pedigree"]
MCMC = ["--mcmc-steps", "120", "--mcmc-burn", "60"]
# seed 0 is the hostile value (falsy); every comparison family is run with it and with a non-zero seed
SEEDS = (0, 7)
HAP_INFO_DEFS = [{"ID": "AFP", "Number": "R", "Type": "Float"}, {"ID": "REFMASKED", "Number": "0", "Type": "Flag"}]
# option sets of the calling programs under which the order / subset / history comparisons are repeated
CALL_VARIANTS = [[], ["--filter-input-haplotypes", "AFP>=0.1"], ["--prior-frequencies", "AFP"]]
WATCHDOG = 600


def plan(tier, seed):
    q = tier == "quick"
    specs = []
    n_ds = 1 if q else 4
    for d in range(n_ds):
        for p in PROGRAMS:
            specs.append({"name": "cores-%d-%s" % (d, p), "kind": "cores", "dataset": d, "program": p, "delays": 1 if q else 3, "timeout": 3600})
    for d in range(1 if q else 3):
        specs.append({"name": "inproc-%d-a" % d, "kind": "inproc", "dataset": 10 + d, "programs": ["assemble", "call-exact"], "timeout": 3600})
        specs.append({"name": "inproc-%d-b" % d, "kind": "inproc", "dataset": 10 + d, "programs": ["call", "call-pedigree"], "timeout": 3600})
    for d in range(1 if q else 3):
        for part in range(3):
            specs.append({"name": "fault-%d-%d" % (d, part), "kind": "fault", "dataset": 20 + d, "part": part, "parts": 3, "timeout": 3600})
    specs.append({"name": "faultinj", "kind": "faultinj", "dataset": 30, "timeout": 3600})
    # session 4: the interpreter's hash seed is not an input - repeated runs in processes with different PYTHONHASHSEED (the
    # default is a random one per process) on inputs that produce exact posterior ties (read-less samples, short chains)
    for pi_, p in enumerate(("call", "call-pedigree", "assemble", "call-exact")):
        specs.append({"name": "hash-%s" % p, "kind": "hashseed", "dataset": 50 + pi_ % 2, "program": p, "timeout": 3600})
    # the block split over workers: every (--cores, number of loci) pair of a grid, in-process with the real pool / queue / writer
    n_split = 4 if q else 8
    for part in range(n_split):
        specs.append({"name": "split-%d" % part, "kind": "split", "dataset": 40, "part": part, "parts": n_split,
                      "max_loci": 48 if q else 96, "timeout": 3600})
    return specs


def required(tier):
    return {"subprocess_runs": 30, "multicore_runs_compared": 16, "records_compared_across_cores": 80, "inproc_identical_reruns": 4,
            "inproc_permuted_runs": 2, "inproc_subset_runs": 4, "history_variants_compared": 12, "fault_runs": 10,
            "fault_positions_covered": 5, "fault_runs_multicore": 5, "injected_fault_runs": 3,
            "fault_runs_failing_block_finishes_last": 8, "fault_runs_single_locus_multicore": 1,
            "split_grid_pairs": 600, "split_records_compared": 15000, "split_assemble_pairs": 40, "inproc_option_variants": 4,
            "hashseed_runs_compared": 10}


def coverage_extra(tier, col):
    return {"distinct_output_orders_seen": len(col.sets.get("output_orders", ())), "core_counts_used": sorted(col.sets.get("cores", ())),
            "split_grid": "--cores %s x number of loci %s" % (sorted(col.sets.get("split_cores", ())), "1..%d" % int(col.maxima.get("split_max_loci", 0)))}


# ---------------------------------------------------------------------------
# datasets


def build(seed, ds_id, tag, bad_locus=None, depth=(8, 16)):
    rng = gen.rng_for(seed, ID, 1000 + ds_id, 0)
    root = env.workdir("c08-%s" % tag)
    shutil.rmtree(root, ignore_errors=True)
    n_loci = int(rng.integers(5, 9))
    ds = datasets.make_dataset(rng, root, n_samples=3, n_loci=n_loci, ploidy=[4], depth=depth, contig_len=900, snv_range=(1, 4), hostile=0.1)
    # haplotype VCF from the true genotypes (REF = locus reference sequence, ALTs = distinct true haplotypes)
    recs = []
    for L in ds.loci:
        ref = ds.contigs[L["contig"]][L["start"]:L["stop"]]
        alts = []
        for s in ds.samples:
            for hap in ds.genotypes[(s, L["name"])]:
                sq = datasets.hap_sequence(ds.contigs, L, hap, L["start"], L["stop"])
                if sq != ref and sq not in alts:
                    alts.append(sq)
        alts = alts[: 1 + len(recs) % 3]      # allele counts repeat between records (state shared per allele count would show)
        r = {"contig": L["contig"], "pos0": L["start"], "id": L["name"], "ref": ref, "alts": alts}
        # INFO the optional filters / priors can use; every third record has its reference masked on input
        w = np.round(rng.dirichlet(np.ones(1 + len(alts))), 3)
        if len(alts) >= 2 and rng.random() < 0.3:
            w[int(rng.integers(1, len(w)))] = 0.0
        if w.sum() <= 0:
            w[0] = 1.0
        r["info"] = {"AFP": ",".join(repr(float(x)) for x in w)}
        if len(recs) % 3 == 1 and alts:
            r["info"]["REFMASKED"] = True
        recs.append(r)
    ds.hap_records = recs
    ds.hapvcf = hapvcf.write(os.path.join(root, "haps.vcf"), hapvcf.render(ds.contigs, recs, info_defs=HAP_INFO_DEFS))
    # files
    with open(os.path.join(root, "ploidy.txt"), "w") as fh:
        for s in ds.samples:
            fh.write("%s\t%d\n" % (s, ds.ploidy[s]))
    with open(os.path.join(root, "parents.txt"), "w") as fh:
        fh.write("S1\t.\t.\nS2\t.\t.\nS3\tS1\tS2\n")
    ds.inbreeding = [0.0, 0.2][ds_id % 2]
    ds.ploidy_file = os.path.join(root, "ploidy.txt")
    ds.parents_file = os.path.join(root, "parents.txt")
    if bad_locus is not None:
        # rewrite the first BAM with one extra read whose MD tag claims a reference base that contradicts the variant file
        L = ds.loci[bad_locus]
        v = L["snvs"][0]
        bam = ds.bams[0]
        lo = max(0, v["pos0"] - 8)
        hi = min(len(ds.contigs[L["contig"]]), v["pos0"] + 9)
        seq = ds.contigs[L["contig"]][lo:hi]
        other = [b for b in "ACGT" if b != v["ref"]][0]
        k = v["pos0"] - lo
        md = "%d%s%d" % (k, other, (hi - lo) - k - 1)
        a = datasets.make_alignment("badref_read", L["contig"], lo, [("M", hi - lo)], seq, ds.bam_rgs[bam][0]["ID"])
        a["md"] = md
        alns = ds.bam_alignments[bam] + [a]
        datasets.write_bam(bam, ds.contigs, ds.bam_rgs[bam], alns)
    return ds


def argv_for(ds, program, bed=None, hap=None, cores=None, extra=(), mseed=0):
    a = [program]
    if program == "assemble":
        a += ["--targets", bed or ds.bed, "--variants", ds.vcf, "--reference", ds.fasta]
    else:
        a += ["--haplotypes", hap or ds.hapvcf, "--reference", ds.fasta]
    a += ["--bam"] + ds.bams + ["--ploidy", ds.ploidy_file]
    if program == "call-pedigree":
        a += ["--sample-parents", ds.parents_file]
    if program != "call-exact":
        a += MCMC + ["--mcmc-seed", str(mseed)]
    if program != "call-pedigree" and getattr(ds, "inbreeding", 0.0):
        a += ["--inbreeding", repr(ds.inbreeding)]
    if cores is not None:
        a += ["--cores", str(cores)]
    a += list(extra)
    return a


def rec_key(line):
    f = line.split("\t")
    return (f[0], f[1])


def stable_header(text):
    return [l for l in cli.header_lines(text) if not (l.startswith("##fileDate") or l.startswith("##commandline"))]


# ---------------------------------------------------------------------------
# cores


def run_cores(tier, seed, spec, col):
    ds = build(seed, spec["dataset"], spec["name"])
    prog = spec["program"]
    mseed = SEEDS[(PROGRAMS.index(prog) + spec["dataset"]) % 2]
    n = len(ds.loci)
    inject = os.path.join(env.VERIF, "inject")
    base_env = {"PYTHONPATH": os.pathsep.join([inject] + os.environ.get("PYTHONPATH", "").split(os.pathsep))}
    rc, out, err = cli.run_subprocess(argv_for(ds, prog, cores=1, mseed=mseed), timeout=WATCHDOG, extra_env=base_env)
    col.count("subprocess_runs")
    rep = {"dataset": spec["dataset"], "program": prog, "seed": seed, "mcmc_seed": mseed}
    col.add_to_set("mcmc_seeds", mseed)
    if rc != 0:
        if rc == "timeout":
            col.inconclusive_note("%s --cores 1 timed out" % prog)
        else:
            col.violation("program-fails-on-valid-input", "%s --cores 1 exited %r: %s" % (prog, rc, err[-600:]), rep)
        return
    base = cli.record_lines(out)
    base_keys = [rec_key(l) for l in base]
    expect_keys = sorted((L["contig"], str(L["start"] + 1)) for L in ds.loci)
    if sorted(base_keys) != expect_keys:
        col.violation("locus-missing-or-duplicated", "%s --cores 1 emitted loci %s, expected %s" % (prog, sorted(base_keys), expect_keys), rep)
    h0 = stable_header(out)
    hdr, _ = vcfparse.parse(out)
    ncol = 9 + len(hdr.samples)
    col.sample({"program": prog, "n_loci": n, "first_record": base[0][:300] if base else None})
    for cores in [2, 3, 5, 8, n + 2]:
        for d in range(spec["delays"]):
            inj = "delay=%d:%d" % (seed * 100 + d * 7 + cores, 400)
            e = dict(base_env)
            e["MCHAP_VERIF_INJECT"] = inj
            e["PYTHONHASHSEED"] = str(1 + (cores * 7 + d) % 50)   # the single-core reference ran with hash seed 0
            rc, out2, err2 = cli.run_subprocess(argv_for(ds, prog, cores=cores, mseed=mseed), timeout=WATCHDOG, extra_env=e)
            col.count("subprocess_runs")
            col.add_to_set("cores", cores)
            case = dict(rep, cores=cores, inject=inj)
            col.case(case, nontrivial=True)
            if rc == "timeout":
                col.inconclusive_note("%s --cores %d did not finish within %d s" % (prog, cores, WATCHDOG))
                continue
            if rc != 0:
                col.violation("program-fails-on-valid-input", "%s --cores %d exited %r: %s" % (prog, cores, rc, err2[-600:]), case)
                continue
            recs = cli.record_lines(out2)
            col.count("multicore_runs_compared")
            col.add_to_set("output_orders", "%s|%s" % (prog, ",".join(k[1] for k in map(rec_key, recs))))
            if [rec_key(l) for l in recs] != base_keys:
                col.count("runs_with_reordered_output")
            col.count("records_compared_across_cores", len(recs))
            bad_cols = [l for l in recs if len(l.split("\t")) != ncol]
            if bad_cols:
                col.violation("record-line-not-intact", "%s --cores %d: %d lines do not have %d columns, e.g. %r" % (prog, cores, len(bad_cols), ncol, bad_cols[0][:200]), case)
            if sorted(recs) != sorted(base):
                keys2 = sorted(rec_key(l) for l in recs)
                if keys2 != sorted(base_keys):
                    col.violation("locus-missing-or-duplicated", "%s --cores %d emitted loci %s, single-core run %s" % (prog, cores, keys2, sorted(base_keys)), case)
                else:
                    diff = [(a[:160], b[:160]) for a, b in zip(sorted(base), sorted(recs)) if a != b][:1]
                    col.violation("record-depends-on-core-count", "%s --cores %d: record differs from --cores 1: %s" % (prog, cores, diff), case)
            if stable_header(out2) != h0:
                col.violation("header-depends-on-core-count", "%s --cores %d: header differs beyond date/command line" % (prog, cores), case)
    shutil.rmtree(ds.root, ignore_errors=True)


# ---------------------------------------------------------------------------
# in-process: reruns, permutations, subsets, histories


def run_inproc(tier, seed, spec, col):
    import numba

    from mchap.jitutils import seed_numba

    ds = build(seed, spec["dataset"], spec["name"])
    rng = gen.rng_for(seed, ID, 2000 + spec["dataset"], 0)

    @numba.njit
    def burn_numba(n):
        s = 0.0
        for _ in range(n):
            s += np.random.random()
        return s

    combos = []
    for p in spec["programs"]:
        if p == "assemble":
            combos += [(p, m, []) for m in SEEDS]
        else:
            # the calling programs: plain, with an input filter that masks / removes alleles, with prior frequencies
            combos += [(p, SEEDS[k % 2], v) for k, v in enumerate(CALL_VARIANTS)]
            if p != "call-exact":
                combos.append((p, SEEDS[1], []))
    for prog, mseed, variant in combos:
        rep = {"dataset": spec["dataset"], "program": prog, "seed": seed, "mcmc_seed": mseed, "options": variant}
        col.add_to_set("mcmc_seeds", mseed)
        if variant:
            col.count("inproc_option_variants")
        AV = functools.partial(argv_for, mseed=mseed, extra=tuple(variant))
        out1, e1 = cli.run_inproc(AV(ds, prog))
        np.random.random(17)
        burn_numba(13)
        out2, e2 = cli.run_inproc(AV(ds, prog))
        col.case(dict(rep, what="rerun"), nontrivial=False)
        if e1 is not None or e2 is not None:
            col.violation("program-fails-on-valid-input", "%s raised %r / %r" % (prog, e1, e2), rep)
            continue
        r1, r2 = cli.record_lines(out1), cli.record_lines(out2)
        col.count("inproc_identical_reruns")
        if r1 != r2:
            diff = [(a[:160], b[:160]) for a, b in zip(r1, r2) if a != b][:1]
            col.violation("record-depends-on-process-history", "%s: second identical run in the same process differs: %s" % (prog, diff), rep)
        if stable_header(out1) != stable_header(out2):
            col.violation("header-depends-on-process-history", "%s: header differs between identical runs" % prog, rep)
        base = {rec_key(l): l for l in r1}
        if spec["name"].endswith("a") and prog == spec["programs"][0]:
            col.sample({"program": prog, "records": len(r1), "first_record": r1[0][:300] if r1 else None})
        # ---- permuted / sub-setted loci
        for trial in range(3):
            keep = sorted(rng.choice(len(ds.loci), size=int(rng.integers(1, len(ds.loci))), replace=False).tolist())
            if prog == "assemble":
                order = rng.permutation(len(ds.loci)).tolist() if trial == 0 else [keep[i] for i in rng.permutation(len(keep))]
                bed = os.path.join(ds.root, "perm%d.bed" % trial)
                datasets.write_bed(bed, [(ds.loci[i]["contig"], ds.loci[i]["start"], ds.loci[i]["stop"], ds.loci[i]["name"]) for i in order])
                out3, e3 = cli.run_inproc(AV(ds, prog, bed=bed))
                col.count("inproc_permuted_runs")
                idxs = order
            else:
                sub = os.path.join(ds.root, "sub%d.vcf" % trial)
                hp = hapvcf.write(sub, hapvcf.render(ds.contigs, [ds.hap_records[i] for i in keep], info_defs=HAP_INFO_DEFS))
                out3, e3 = cli.run_inproc(AV(ds, prog, hap=hp))
                idxs = keep
            col.count("inproc_subset_runs")
            case = dict(rep, what="subset", loci=idxs)
            col.case(case, nontrivial=True)
            if e3 is not None:
                col.violation("program-fails-on-valid-input", "%s on permuted/sub-setted loci raised %r" % (prog, e3), case)
                continue
            r3 = cli.record_lines(out3)
            want_keys = [(ds.loci[i]["contig"], str(ds.loci[i]["start"] + 1)) for i in idxs]
            if sorted(rec_key(l) for l in r3) != sorted(want_keys):
                col.violation("locus-missing-or-duplicated", "%s: loci emitted %s, requested %s" % (prog, [rec_key(l) for l in r3], want_keys), case)
                continue
            for l in r3:
                col.count("records_compared_across_orders")
                if base.get(rec_key(l)) != l:
                    col.violation("record-depends-on-locus-order-or-subset", "%s: record of locus %s changes when the locus list is permuted/sub-setted:\n %s\n %s"
                                  % (prog, rec_key(l), (base.get(rec_key(l)) or "")[:200], l[:200]), case)
                    break
        # ---- a single locus given with --region instead of a targets file
        if prog == "assemble":
            L = ds.loci[int(rng.integers(len(ds.loci)))]
            a = [x for x in AV(ds, prog)]
            i = a.index("--targets")
            a[i:i + 2] = ["--region", "%s:%d-%d" % (L["contig"], L["start"], L["stop"]), "--region-id", L["name"]]
            out4, e4 = cli.run_inproc(a)
            col.count("inproc_subset_runs")
            col.count("region_mode_runs")
            case = dict(rep, what="region", locus=L["name"])
            col.case(case, nontrivial=True)
            if e4 is not None:
                col.violation("program-fails-on-valid-input", "assemble --region raised %r" % e4, case)
            else:
                r4 = cli.record_lines(out4)
                if len(r4) != 1 or base.get(rec_key(r4[0])) != r4[0]:
                    col.violation("record-depends-on-locus-order-or-subset", "assemble --region %s gives %s, targets run gave %s"
                                  % (L["name"], [x[:160] for x in r4], (base.get((L["contig"], str(L["start"] + 1))) or "")[:160]), case)
        # ---- history of one locus inside a program object
        mod = {"assemble": "assemble", "call": "call", "call-exact": "call_exact", "call-pedigree": "call_pedigree"}[prog]
        import importlib
        import warnings

        P = importlib.import_module("mchap.application." + mod).program
        with warnings.catch_warnings():
            warnings.simplefilter("error", RuntimeWarning)
            po = P.cli(["mchap"] + AV(ds, prog))
            loci = list(po.loci())
            target = int(rng.integers(len(loci)))
            first = po.call_locus(loci[target], po.sample_bams)
            variants = []
            for h in range(4):
                others = [i for i in rng.permutation(len(loci)).tolist() if i != target][: int(rng.integers(0, len(loci)))]
                for i in others:
                    po.call_locus(loci[i], po.sample_bams)
                np.random.seed(int(rng.integers(2**31)))
                np.random.random(int(rng.integers(1, 50)))
                seed_numba(int(rng.integers(2**31)))
                burn_numba(int(rng.integers(1, 50)))
                variants.append(po.call_locus(loci[target], po.sample_bams))
        warnings.resetwarnings()
        for v in variants:
            col.count("history_variants_compared")
            col.case(dict(rep, what="history", target=target, n=len(variants)), nontrivial=True)
            if str(v) != str(first):
                col.violation("record-depends-on-process-history", "%s: record of locus %d differs after other loci / RNG use in the same process:\n %s\n %s"
                              % (prog, target, str(first)[:200], str(v)[:200]), dict(rep, target=target))
                break
        if base.get(rec_key(str(first))) != str(first):
            col.violation("record-depends-on-process-history", "%s: call_locus result differs from the run_stdout record of the same locus" % prog, rep)
    shutil.rmtree(ds.root, ignore_errors=True)


# ---------------------------------------------------------------------------
# faults


def judge_fault(col, prog, cores, rc, out, err, ds, bad_idx, case, kind):
    col.count("fault_runs" if kind == "natural" else "injected_fault_runs")
    if cores > 1:
        col.count("fault_runs_multicore")
    if rc == "timeout":
        col.violation("failing-locus-hangs-program", "%s --cores %d with a failing locus at position %d did not exit within the watchdog (4-10 min; the single-core run of the same input exits within seconds) (stdout so far %d record lines)"
                      % (prog, cores, bad_idx, len(cli.record_lines(out))), case)
        return
    recs = cli.record_lines(out)
    keys = [rec_key(l) for l in recs]
    bad_key = (ds.loci[bad_idx]["contig"], str(ds.loci[bad_idx]["start"] + 1))
    if rc == 0:
        col.violation("failing-locus-not-reported", "%s --cores %d exited 0 although locus %s (position %d of %d) fails; %d of %d loci in the output%s"
                      % (prog, cores, ds.loci[bad_idx]["name"], bad_idx, len(ds.loci), len(keys), len(ds.loci), "" if bad_key not in keys else " INCLUDING the failed one"), case)
    if bad_key in keys:
        col.violation("record-emitted-for-failed-locus", "%s --cores %d emitted a record for the failing locus %s" % (prog, cores, ds.loci[bad_idx]["name"]), case)
    if len(set(keys)) != len(keys):
        col.violation("locus-missing-or-duplicated", "%s --cores %d emitted a locus twice in a failing run" % (prog, cores), case)


def run_fault(tier, seed, spec, col):
    probe = build(seed, spec["dataset"], spec["name"] + "-probe")
    n = len(probe.loci)
    shutil.rmtree(probe.root, ignore_errors=True)
    positions = [i for i in range(n) if i % spec["parts"] == spec["part"]]
    for bad in positions:
        ds = build(seed, spec["dataset"], "%s-%d" % (spec["name"], bad), bad_locus=bad)
        inject = os.path.join(env.VERIF, "inject")
        pyp = os.pathsep.join([inject] + os.environ.get("PYTHONPATH", "").split(os.pathsep))
        bad_name = ds.loci[bad]["name"]
        # schedules: the failing locus' block may finish first, in the middle or LAST (an exception of the last job to
        # finish is the one a careless wait loop loses), so the failing locus is also made slow / the others slow
        variants = [(1, None), (3, None), (3, "slow=%s:2500" % bad_name), (2, "slow=%s:2500" % bad_name), (3, "slowothers=%s:700" % bad_name)]
        hung = False
        t_single = None
        for cores, inj in variants:
            if hung:
                col.count("fault_runs_skipped_after_a_hang")
                continue
            case = {"dataset": spec["dataset"], "program": "assemble", "bad_locus": bad, "cores": cores, "seed": seed, "inject": inj}
            col.case(case, nontrivial=True)
            e = {"PYTHONPATH": pyp}
            if inj:
                e["MCHAP_VERIF_INJECT"] = inj
                col.add_to_set("fault_schedules", inj.split("=")[0])
            # the single-core run of the same failing input is timed first; a multi-core run of it that needs more than 20x
            # that (never less than 4 minutes, never more than the 10-minute watchdog) is a hang - and one hang per failing
            # position is enough, the remaining schedules of that position are skipped
            limit = WATCHDOG if t_single is None else int(min(WATCHDOG, max(240, 20 * t_single + 30)))
            t0 = time.time()
            rc, out, err = cli.run_subprocess(argv_for(ds, "assemble", cores=cores), timeout=limit, extra_env=e)
            if cores == 1 and rc != "timeout":
                t_single = time.time() - t0
            hung = rc == "timeout"
            col.count("subprocess_runs")
            col.count("fault_positions_covered" if cores == 1 else "fault_positions_covered_multicore")
            if inj and inj.startswith("slow="):
                col.count("fault_runs_failing_block_finishes_last")
            judge_fault(col, "assemble", cores, rc, out, err, ds, bad, case, "natural")
            if bad == positions[0] and cores == 1 and spec["part"] == 0:
                col.sample({"fault_run": case, "exit_status": rc, "stderr_tail": err[-300:], "records_before_failure": len(cli.record_lines(out))})
            if inj is None and cores == 3 and bad == positions[0]:
                bed1 = os.path.join(ds.root, "one.bed")
                L = ds.loci[bad]
                datasets.write_bed(bed1, [(L["contig"], L["start"], L["stop"], L["name"])])
                case1 = dict(case, what="single-locus targets, cores 2")
                col.case(case1, nontrivial=True)
                rc1, out1, err1 = cli.run_subprocess(argv_for(ds, "assemble", bed=bed1, cores=2), timeout=limit, extra_env=e)
                col.count("subprocess_runs")
                col.count("fault_runs_single_locus_multicore")
                col.count("fault_runs")
                col.count("fault_runs_multicore")
                if rc1 == 0:
                    col.violation("failing-locus-not-reported", "assemble --cores 2 on a targets file holding only the failing locus %s exited 0 (%d records)" % (L["name"], len(cli.record_lines(out1))), case1)
                elif rc1 == "timeout":
                    col.violation("failing-locus-hangs-program", "assemble --cores 2 on a single failing locus did not exit within %d s" % WATCHDOG, case1)
        shutil.rmtree(ds.root, ignore_errors=True)


def run_faultinj(tier, seed, spec, col):
    ds = build(seed, spec["dataset"], spec["name"])
    inject = os.path.join(env.VERIF, "inject")
    rng = gen.rng_for(seed, ID, 3000, 0)
    for prog in ("call-exact", "call", "call-pedigree"):
        bad = int(rng.integers(len(ds.loci)))
        t_single = None
        for cores in (1, 4):
            e = {"PYTHONPATH": os.pathsep.join([inject] + os.environ.get("PYTHONPATH", "").split(os.pathsep)),
                 "MCHAP_VERIF_INJECT": "fail=%s,delay=%d:200" % (ds.loci[bad]["name"], seed + cores)}
            case = {"dataset": spec["dataset"], "program": prog, "bad_locus": bad, "cores": cores, "seed": seed, "inject": e["MCHAP_VERIF_INJECT"]}
            col.case(case, nontrivial=True)
            limit = WATCHDOG if t_single is None else int(min(WATCHDOG, max(240, 20 * t_single + 30)))
            t0 = time.time()
            rc, out, err = cli.run_subprocess(argv_for(ds, prog, cores=cores), timeout=limit, extra_env=e)
            if cores == 1 and rc != "timeout":
                t_single = time.time() - t0
            col.count("subprocess_runs")
            judge_fault(col, prog, cores, rc, out, err, ds, bad, case, "injected")
    col.sample({"injected_fault_runs": "fail=<locus> via inject/sitecustomize.py on call-exact, call, call-pedigree with 1 and 4 cores"})
    shutil.rmtree(ds.root, ignore_errors=True)


# ---------------------------------------------------------------------------
# split: how the loci are divided over workers


def run_hashseed(tier, seed, spec, col):
    prog = spec["program"]
    ds = build(seed, spec["dataset"], spec["name"], depth=(6, 12))
    # one sample loses all its reads: with no data its posterior is symmetric in the alleles and short chains tie exactly
    victim = "S2"
    bam = ds.sample_bam[victim]
    ids = set(ds.sample_rgs[victim])
    keep = [a for a in ds.bam_alignments[bam] if a["rg"] not in ids]
    datasets.write_bam(bam, ds.contigs, ds.bam_rgs[bam], keep)
    inject = os.path.join(env.VERIF, "inject")
    base_env = {"PYTHONPATH": os.pathsep.join([inject] + os.environ.get("PYTHONPATH", "").split(os.pathsep))}
    short = ["--mcmc-steps", "40", "--mcmc-burn", "20"] if prog != "call-exact" else []
    ref = None
    for hs in (["0", "1", "2", "3"] if tier == "quick" else ["0", "1", "2", "3", "4", "5", "17", "random"]):
        args = [a for a in argv_for(ds, prog, cores=1, mseed=SEEDS[spec["dataset"] % 2])]
        if short:
            # replace the default chain length of this check by a short one
            # 2 chains x 3 retained steps: several equally frequent genotype supports in most sample-loci (exact ties)
            for k_, v_ in (("--mcmc-steps", "13"), ("--mcmc-burn", "10")):
                args[args.index(k_) + 1] = v_
        e = dict(base_env)
        e["PYTHONHASHSEED"] = hs
        rc, out, err = cli.run_subprocess(args, timeout=WATCHDOG, extra_env=e)
        col.count("subprocess_runs")
        col.count("hashseed_runs")
        case = {"dataset": spec["dataset"], "program": prog, "seed": seed, "hashseed": hs, "kind": "hashseed"}
        col.case(case, nontrivial=True)
        if rc == "timeout":
            col.inconclusive_note("%s (PYTHONHASHSEED=%s) timed out" % (prog, hs))
            continue
        if rc != 0:
            col.violation("program-fails-on-valid-input", "%s (PYTHONHASHSEED=%s) exited %r: %s" % (prog, hs, rc, err[-600:]), case)
            continue
        recs = cli.record_lines(out)
        if ref is None:
            ref = (recs, stable_header(out))
            continue
        col.count("hashseed_runs_compared")
        if recs != ref[0]:
            diff = [(a[:200], b[:200]) for a, b in zip(ref[0], recs) if a != b][:1]
            col.violation("record-depends-on-interpreter-hash-seed", "%s: same command, same --mcmc-seed, PYTHONHASHSEED=%s vs 0: %d record(s) differ, e.g. %s"
                          % (prog, hs, sum(1 for a, b in zip(ref[0], recs) if a != b) + abs(len(recs) - len(ref[0])), diff), case)
        if stable_header(out) != ref[1]:
            col.violation("header-depends-on-interpreter-hash-seed", "%s: header differs between PYTHONHASHSEED=%s and 0" % (prog, hs), case)
    shutil.rmtree(ds.root, ignore_errors=True)


def run_to_file(args, path):
    """In-process run whose stdout is a real file, so that the forked writer process of a multi-core run shares it."""
    from mchap.application import cli as mcli

    old_argv, old_out = sys.argv, sys.stdout
    exc = None
    fh = open(path, "w")
    try:
        sys.argv = ["mchap"] + [str(a) for a in args]
        sys.stdout = fh
        try:
            mcli.main()
        except SystemExit as ex:
            if ex.code not in (0, None):
                exc = ex
        except BaseException as ex:  # noqa: BLE001
            exc = ex
    finally:
        sys.stdout = old_out
        sys.argv = old_argv
        fh.close()
    cli.relax_warnings()
    with open(path) as fh:
        return fh.read(), exc


def run_split(tier, seed, spec, col):
    """Every (--cores c, number of loci k) pair of a grid: the records of a multi-core run over the first k loci must be, as
    a multiset, the first k records of the single-core run over all loci (each locus once, none missing)."""
    rng = gen.rng_for(seed, ID, 1000 + spec["dataset"], 0)
    root = env.workdir("c08-%s" % spec["name"])
    shutil.rmtree(root, ignore_errors=True)
    n = spec["max_loci"]
    ds = datasets.make_dataset(rng, root, n_samples=2, n_loci=n, ploidy=[2], depth=(4, 6), contig_len=90 * n + 200, snv_range=(1, 2), hostile=0.0)
    recs = []
    for L in ds.loci:
        ref = ds.contigs[L["contig"]][L["start"]:L["stop"]]
        alts = []
        for s in ds.samples:
            for hap in ds.genotypes[(s, L["name"])]:
                sq = datasets.hap_sequence(ds.contigs, L, hap, L["start"], L["stop"])
                if sq != ref and sq not in alts:
                    alts.append(sq)
        recs.append({"contig": L["contig"], "pos0": L["start"], "id": L["name"], "ref": ref, "alts": alts[:5]})
    order = sorted(range(n), key=lambda i: (recs[i]["contig"], recs[i]["pos0"]))
    recs = [recs[i] for i in order]
    loci = [ds.loci[i] for i in order]
    progs = {
        "call-exact": lambda k, c: ["call-exact", "--haplotypes", hap_k(k), "--bam"] + ds.bams + ["--ploidy", "2"] + cores_arg(c),
        "assemble": lambda k, c: ["assemble", "--targets", bed_k(k), "--variants", ds.vcf, "--reference", ds.fasta, "--bam"] + ds.bams
        + ["--ploidy", "2", "--mcmc-steps", "60", "--mcmc-burn", "30", "--mcmc-seed", str(SEEDS[spec["part"] % 2])] + cores_arg(c),
    }

    def cores_arg(c):
        return [] if c is None else ["--cores", str(c)]

    def hap_k(k):
        return hapvcf.write(os.path.join(root, "haps%d.vcf" % k), hapvcf.render(ds.contigs, recs[:k]))

    def bed_k(k):
        path = os.path.join(root, "t%d.bed" % k)
        datasets.write_bed(path, [(L["contig"], L["start"], L["stop"], L["name"]) for L in loci[:k]])
        return path

    outp = os.path.join(root, "out.vcf")
    base = {}
    for prog in progs:
        out, exc = run_to_file(progs[prog](n, None), outp)
        rep = {"kind": "split", "program": prog, "seed": seed, "part": spec["part"], "loci": n, "cores": 1}
        if exc is not None:
            col.violation("program-fails-on-valid-input", "%s single core on %d small loci raised %r" % (prog, n, exc), rep)
            return
        lines = cli.record_lines(out)
        if [rec_key(l) for l in lines] != [(L["contig"], str(L["start"] + 1)) for L in loci]:
            col.violation("locus-missing-or-duplicated", "%s --cores 1 on %d loci emitted %d records / other loci than requested" % (prog, n, len(lines)), rep)
            return
        base[prog] = lines
    pairs = [(c, k) for c in range(2, 17) for k in range(1, n + 1)]
    mine = [p for i, p in enumerate(pairs) if i % spec["parts"] == spec["part"]]
    asm = set(mine[int(rng.integers(0, 7))::7])
    t0 = time.time()
    for c, k in mine:
        for prog in ["call-exact"] + (["assemble"] if (c, k) in asm else []):
            case = {"kind": "split", "program": prog, "seed": seed, "part": spec["part"], "loci": k, "cores": c}
            out, exc = run_to_file(progs[prog](k, c), outp)
            col.case(case, nontrivial=True)
            col.count("split_grid_pairs" if prog == "call-exact" else "split_assemble_pairs")
            col.add_to_set("split_cores", c)
            col.add_to_set("cores", c)
            col.maxv("split_max_loci", k)
            if exc is not None:
                col.violation("program-fails-on-valid-input", "%s --cores %d on %d loci raised %r" % (prog, c, k, exc), case)
                continue
            got = cli.record_lines(out)
            col.count("split_records_compared", len(got))
            if sorted(got) != sorted(base[prog][:k]):
                gk, wk = sorted(rec_key(l) for l in got), sorted(rec_key(l) for l in base[prog][:k])
                if gk != wk:
                    missing = [x for x in wk if x not in gk]
                    dup = sorted(set(x for x in gk if gk.count(x) > 1))
                    col.violation("locus-missing-or-duplicated", "%s --cores %d on a file of %d loci: %d records; missing %s duplicated %s"
                                  % (prog, c, k, len(got), missing[:3], dup[:3]), case)
                else:
                    col.violation("record-depends-on-core-count", "%s --cores %d on %d loci: a record differs from the single-core run" % (prog, c, k), case)
        if time.time() - t0 > 1500:
            col.inconclusive_note("split grid part %d stopped after 1500 s" % spec["part"])
            break
    col.sample({"split": "call-exact (and every 7th pair assemble) in-process, stdout to a real file shared with the forked writer",
                "pairs_in_this_shard": len(mine), "first_base_record": base["call-exact"][0][:200]})
    shutil.rmtree(root, ignore_errors=True)


def run_shard(tier, seed, spec, col):
    {"cores": run_cores, "inproc": run_inproc, "fault": run_fault, "faultinj": run_faultinj, "split": run_split, "hashseed": run_hashseed}[spec["kind"]](tier, seed, spec, col)


def replay(obj, col):
    col.inconclusive_note("C08 cases are process runs on regenerated datasets: rerun `VERIF_SEED=%s ./check C08 %s`; case: %s"
                          % (obj.get("seed"), obj.get("tier"), json.dumps(obj.get("case"))[:400]))
