"""Shard entry point: python -m vlib.shard <id> <tier> <seed> <spec-json> <out>."""

import importlib
import json
import os
import sys
import time
import traceback


def run(pid, tier, seed, spec, out):
    from vlib.report import Collector

    mod = importlib.import_module("checks.%s" % pid.lower())
    col = Collector()
    t0 = time.time()
    try:
        mod.run_shard(tier, int(seed), spec, col)
    except Exception:
        col.inconclusive_note("shard %s raised: %s" % (spec.get("name"), traceback.format_exc()[-1500:]))
    d = col.dump()
    d["wall"] = time.time() - t0
    tmp = out + ".tmp"
    with open(tmp, "w") as fh:
        json.dump(d, fh)
    os.replace(tmp, out)


if __name__ == "__main__":
    pid, tier, seed, spec, out = sys.argv[1:6]
    run(pid, tier, int(seed), json.loads(spec), out)
