#!/venv/bin/python
"""Regenerate MANIFEST.json from the check modules present in checks/ (python3 tools/mkmanifest.py)."""
import importlib
import json
import os
import sys

HERE = os.path.dirname(os.path.dirname(os.path.abspath(__file__)))
sys.path.insert(0, HERE)

props = [json.loads(l) for l in open(os.path.join(HERE, "properties.jsonl"))]
NOT_BUILT_REASON = {}
checks = []
na = []
for p in props:
    pid = p["id"]
    path = os.path.join(HERE, "checks", pid.lower() + ".py")
    reg = open(os.path.join(HERE, "checks", "REGISTERED")).read().split()
    if not os.path.exists(path) or pid not in reg:
        na.append({"property_id": pid, "reason": "check not built yet in this round (runtime monitor designed in DESIGN.md section 4, not implemented)"})
        continue
    src = open(path).read()
    ns = {}
    # read the declarative constants without importing numba etc.
    import ast
    tree = ast.parse(src)
    for node in tree.body:
        if isinstance(node, ast.Assign) and len(node.targets) == 1 and isinstance(node.targets[0], ast.Name):
            nm = node.targets[0].id
            if nm in ("LEVEL", "LEVEL_TEXT", "LEVEL_NOTE", "TECHNIQUE", "DESIGN_REF", "REGISTER"):
                ns[nm] = ast.literal_eval(node.value)
    if ns.get("REGISTER", True) is False:
        na.append({"property_id": pid, "reason": ns.get("LEVEL_NOTE", "not registered")})
        continue
    checks.append({
        "property_id": pid,
        "quick_cmd": "./check %s quick" % pid,
        "thorough_cmd": "./check %s thorough" % pid,
        "evidence_file": "/verif/evidence/%s.json" % pid,
        "replay_cmd_template": "./check %s --replay {path}" % pid,
        "engine": "mchap-runtime-monitors",
        "level_claimed": {
            "category": ns.get("LEVEL", "exploration"),
            "text": ns["LEVEL_TEXT"],
            "design_ref": ns.get("DESIGN_REF", "DESIGN.md section 4, %s" % pid),
        },
        "level_note": ns["LEVEL_NOTE"],
        "technique": ns["TECHNIQUE"],
    })

man = {
    "version": 1,
    "setup_cmd": "./setup.sh",
    "hooks": {
        "guard": "MCHAP_VERIF_INJECT",
        "enable": "no source hooks in /repo: monitors attach from /verif by wrapping module-level names of the real modules (dispatcher.py_func + replaced callees), by NUMBA_DISABLE_JIT=1 runs, and by inject/sitecustomize.py placed on PYTHONPATH of CLI subprocesses, which is inert unless MCHAP_VERIF_INJECT is set",
        "baseline_off_cmd": "rm -rf /verif/.cache/baseline-numba && cd /repo && env -u MCHAP_VERIF_INJECT NUMBA_CACHE_DIR=/verif/.cache/baseline-numba /venv/bin/python -m pytest -ra -q -p no:cacheprovider --timeout=900 --continue-on-collection-errors",
        "source_commits": [],
        "add_only": True,
    },
    "engines": [{
        "name": "mchap-runtime-monitors",
        "path": "/verif/vlib",
        "serves_properties": [c["property_id"] for c in checks],
        "kind_free_text": "runtime monitoring: the real (numba-compiled) MCHap code is executed on generated hostile workloads in sharded subprocesses; monitors record kernel probability vectors / return values / traces / CLI output and independent oracles in vlib/oracles decide each observation; numba cache is keyed by a hash of /repo/mchap/**/*.py so every run executes the current working tree",
    }],
    "checks": checks,
    "not_applicable": na,
    "notes": "Verdicts are three-valued: exit 0 held on everything observed, exit 1 VIOLATION, exit 2 INCONCLUSIVE (a deciding monitor was not reached / watchdog). known_findings.txt lists known:/fixed: findings by mechanism. Seeded property-breaking changes live in seeded/.",
}
json.dump(man, open(os.path.join(HERE, "MANIFEST.json"), "w"), indent=1)
print("checks:", [c["property_id"] for c in checks])
print("not_applicable:", [c["property_id"] for c in na])
