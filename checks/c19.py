"""C19 - find-snvs depths equal the filtered pileup; thresholds applied as documented.

Monitors
  * every call the real `mchap find-snvs` (run in-process) makes to bam_region_depths: arguments and returned array (spy on the
    module attribute, the real function does the work);
  * the real bam_region_depths re-invoked with exactly the keyword arguments write_vcf_block used, on other windows (whole contigs,
    random sub-windows, single positions);
  * stdout of `mchap find-snvs` on synthetic single-end BAMs with known per-read flags / MAPQ, parsed with vlib.vcfparse.
Oracle (this file; never imports mchap): per-position A/C/G/T counts from the generator's own alignment records through the
independent CIGAR walker (datasets.walk_alignment) restricted to the reads the documented filters keep; the listing rule with exact
rational frequencies (fractions.Fraction), emission rule, REF / REFMASKED, ALT order, AD / ADMF values.
"""

import inspect
import os
import shutil
from fractions import Fraction

import numpy as np

from vlib import gen

ID = "C19"
TECHNIQUE = "runtime monitoring: arguments and return value of every bam_region_depths call made by the real find-snvs run in-process (plus the real function re-invoked with the same keywords on other windows) and the VCF it prints, on generated BAMs with known per-read flags and MAPQ; independent filtered-pileup and exact-rational threshold oracle"
LEVEL = "exploration"
LEVEL_TEXT = (
    "Exploration: on generated data sets (1-4 single-sample BAMs, 1-2 contigs with upper/lower-case and N reference bases, 2-4 target "
    "intervals plus uncovered ones, single-end reads on both strands with base qualities 30-40, CIGARs with indels / clips / skips, "
    "duplicate / QC-fail / supplementary flags in every combination, MAPQ 0-60) the real find-snvs was run in-process under every "
    "combination of the three keep flags with --mapping-quality 0/1/19/20/21/30/60/61 or default, each data set under a base option "
    "set and its four single-option toggles, with thresholds --ind-maf/--ind-mad/--min-ind/--maf/--mad at defaults, fixed dyadic "
    "values, values equal to an observed frequency/depth and random values. Observed: the array bam_region_depths returned for every "
    "block equals the filtered pileup derived from the generator's records; toggling one filter option changes the depths exactly by "
    "the bases of the reads that option governs; listed alleles, emitted positions, REF, REFMASKED, ALT order, INFO AD/ADMF and "
    "FORMAT AD of every record agree with the threshold rule applied to those depths. Sampled, not exhaustive."
)
LEVEL_TEXT += " Session 4: the allele LISTING is decided also at positions where a sample has no base call, wherever both readings of 'mean sample frequency' (uncovered sample counted as 0, or left out) agree."
LEVEL_NOTE = (
    "Trusts the generator's record of what it wrote into each BAM (vlib/datasets.py, written through pysam), the CIGAR walker, "
    "fractions.Fraction and the VCF text parser vlib/vcfparse.py. Paired reads, secondary alignments, unmapped-flag records, base "
    "qualities below 30, MAPQ 255 and positions where some sample has no coverage are outside the listing oracle (depths are still "
    "compared there). Tolerances: exact for depths, 1e-9 ambiguity band on frequency thresholds unless the frequency is an exactly "
    "representable rational equal to the threshold, 0.0005 on 3-decimal ADMF text."
)
RULE = (
    "case = one find-snvs run (data set, filter options, thresholds); data set = seeded generator output; non-trivial = at least one "
    "polymorphic target position whose listing is decided; distinct by hash of (generator coordinates, option list)"
)
ASSUMPTIONS = [
    "a base call = an aligned (M/=/X) read base A/C/G/T; deletions, reference skips, insertions and clipped bases are not base calls",
    "a read passes the filters iff MAPQ >= --mapping-quality (default 20) and it is not duplicate / QC-fail / supplementary unless the matching --keep-* flag is given",
    "one sample per BAM, single-end reads with unique names, no secondary or unmapped-flag records, base qualities >= 30",
    "positions where any sample has zero filtered coverage, reference N positions and thresholds within 1e-9 of a non-representable frequency are ambiguous: listing not checked there",
    "--min-ind >= 1, --maf >= 0, --mad >= 0",
    "the ADMF and INFO/AD entry of a masked reference allele are not constrained beyond AD being the true depth or '.'",
]

KNOWN = "read-filter-options-not-applied"
BASES = "ACGT"
BIDX = {"A": 0, "C": 1, "G": 2, "T": 3}
TOL = 1e-9
TEXT_TOL = 0.0005
FLAG_REVERSE, FLAG_QCFAIL, FLAG_DUP, FLAG_SUPP = 16, 512, 1024, 2048
DEFAULT_T = {"ind_maf": 0.1, "ind_mad": 3, "min_ind": 1, "maf": 0.0, "mad": 0}
MAPQ_OPTIONS = [None, 0, 1, 19, 20, 21, 30, 60, 61]
# what pysam's pileup does when it is given no (recognised) filter arguments
PYSAM_DEFAULT_F = {"mapq": 0, "keep_dup": False, "keep_qc": False, "keep_supp": True}


# ---------------------------------------------------------------------------------------------------------------------
# plan


def plan(tier, seed):
    n = 40 if tier == "quick" else 400
    return [{"name": "s%02d" % i, "shard": i, "datasets": n, "timeout": 3000 if tier == "quick" else 12000} for i in range(16)]


def required(tier):
    req = {
        "cli_runs": 3000, "cli_runs_clean_dataset": 1000, "cli_runs_depths_equal_generator_pileup": 500, "depth_calls_observed": 10000,
        "depth_calls_compared": 10000, "depth_cells_compared": 15000000, "fn_direct_calls": 20000, "fn_single_position_calls": 10000,
        "runs_with_filtered_reads_in_targets": 1200,
        "toggle_pairs_with_effect_dup": 150, "toggle_pairs_with_effect_qc": 150, "toggle_pairs_with_effect_supp": 150,
        "toggle_pairs_with_effect_mapq": 150,
        "positions_decided": 150000, "positions_expected_emitted": 4000, "positions_expected_suppressed_polymorphic": 20000,
        "alleles_listed_expected": 100000, "alleles_excluded_with_depth": 50000,
        "decisive_ind_mad_boundary": 8000, "decisive_ind_maf_boundary": 10000, "decisive_maf_mean_vs_max": 400,
        "decisive_min_ind_boundary": 40000, "decisive_mad_boundary": 5000, "decisive_maf_boundary": 800,
        "refmasked_expected": 600, "ref_listed_expected": 3000, "alt_order_pairs_decisive": 1000,
        "records_checked": 5000, "info_ad_values_checked": 10000, "format_ad_values_checked": 25000,
        "format_ad_values_checked_against_generator_pileup": 8000, "admf_values_checked": 8000,
        "ref_lowercase_in_fasta_records": 400,
    }
    for bits in range(8):
        req["runs_keepflags_%d%d%d" % (bits & 1, (bits >> 1) & 1, (bits >> 2) & 1)] = 300
    if tier != "quick":
        req = {k: 5 * v for k, v in req.items()}
    return req


def coverage_extra(tier, col):
    return {"filter_option_sets_seen": sorted(col.sets.get("filter_option_sets", []))[:200],
            "threshold_kinds_seen": sorted(col.sets.get("threshold_kinds", []))}


# ---------------------------------------------------------------------------------------------------------------------
# data set generation (uses only the generic low level writers; keeps every record it wrote)


class DS(object):
    pass


def gen_params(rng, shard, idx):
    clean = (idx % 3 == 0)
    return {
        "clean": clean,
        "n_samples": int(rng.choice([1, 2, 2, 3, 4])),
        "n_contigs": int(rng.choice([1, 1, 2])),
        "contig_len": int(rng.integers(260, 520)),
        "n_loci": int(rng.integers(2, 5)),
        "depth": [int(x) for x in [(2, 8), (6, 20), (12, 36)][int(rng.integers(3))]],
        "err": float(rng.choice([0.0, 0.01, 0.04])),
        "hostile": float(rng.choice([0.0, 0.0, 0.35])),
        "flag_rate": 0.0 if clean else float(rng.choice([0.25, 0.5])),
        "mapq_mixed": False if clean else bool(rng.random() < 0.8),
        "lower_frac": float(rng.choice([0.0, 0.25])),
        "n_frac": float(rng.choice([0.0, 0.0, 0.03])),
        "block": bool(rng.random() < 0.4),
        "ploidy": int(rng.choice([2, 4, 6])),
    }


def make_genotype(rng, locus, ploidy):
    """ploidy haplotypes (tuples of bases at the locus' SNVs) drawn from 1-3 founder haplotypes."""
    pool = []
    for _ in range(int(rng.integers(1, 4))):
        h = []
        for v in locus["snvs"]:
            alts = v["alts"]
            if v["mode"] == "refless":
                h.append(alts[int(rng.integers(len(alts)))])
            elif v["mode"] == "rare":
                h.append(alts[int(rng.integers(len(alts)))] if rng.random() < 0.15 else v["ref"])
            else:
                h.append(([v["ref"]] + alts)[int(rng.integers(1 + len(alts)))])
        pool.append(tuple(h))
    return [pool[int(rng.integers(len(pool)))] for _ in range(ploidy)]


def build_dataset(rng, root, P):
    from vlib import datasets as D

    os.makedirs(root, exist_ok=True)
    ds = DS()
    ds.root = root
    ds.P = P
    ds.contigs_u = D.make_contigs(rng, P["n_contigs"], P["contig_len"])
    loci, _ = D.make_loci(rng, ds.contigs_u, P["n_loci"], snv_range=(3, 9), multi_allelic=0.5)
    ds.loci = loci
    # per SNV (shared by all samples): "normal" = reference and alternatives segregate, "refless" = no haplotype carries the
    # reference base (REFMASKED candidates), "rare" = alternatives are rare
    for locus in loci:
        for v in locus["snvs"]:
            r = rng.random()
            v["mode"] = "refless" if (r < 0.3 and len(v["alts"]) >= 2) or r < 0.08 else ("rare" if r < 0.45 else "normal")
    fasta = {}
    for c, s in ds.contigs_u.items():
        chars = list(s)
        r = rng.random(len(chars))
        for j in range(len(chars)):
            if r[j] < P["n_frac"]:
                chars[j] = "N" if rng.random() < 0.7 else "n"
            elif r[j] < P["n_frac"] + P["lower_frac"]:
                chars[j] = chars[j].lower()
        fasta[c] = "".join(chars)
    ds.fasta_contigs = fasta
    ds.fasta = D.write_fasta(os.path.join(root, "ref.fa"), fasta)
    # targets: the loci, sometimes an interval at the very start / end of a contig, in file order or shuffled
    iv = [(l["contig"], l["start"], l["stop"], l["name"]) for l in loci]
    names = list(ds.contigs_u)
    if rng.random() < 0.5:
        iv.append((names[0], 0, int(rng.integers(1, 5)), "head"))
    if rng.random() < 0.5:
        c = names[-1]
        L = len(ds.contigs_u[c])
        iv.append((c, L - int(rng.integers(1, 5)), L, "tail"))
    if rng.random() < 0.3:
        iv = [iv[i] for i in rng.permutation(len(iv))]
    ds.intervals = iv
    ds.bed = D.write_bed(os.path.join(root, "targets.bed"), iv)
    ds.samples = ["S%d" % (i + 1) for i in range(P["n_samples"])]
    ds.bams = []
    ds.reads = []  # per sample: list of alignment dicts
    flag_sets = [FLAG_DUP, FLAG_QCFAIL, FLAG_SUPP, FLAG_DUP | FLAG_QCFAIL, FLAG_DUP | FLAG_SUPP, FLAG_QCFAIL | FLAG_SUPP, FLAG_DUP | FLAG_QCFAIL | FLAG_SUPP]
    for si, s in enumerate(ds.samples):
        n_rg = int(rng.integers(1, 3))
        ids = ["%s_rg%d" % (s, j) for j in range(n_rg)]
        alns = []
        qn = 0
        for locus in loci:
            if rng.random() < 0.06 and len(ds.samples) > 1:
                continue  # this sample has no reads at this locus
            g = make_genotype(rng, locus, P["ploidy"])
            ln = locus["stop"] - locus["start"]
            if P["block"]:
                n_reads = int(rng.choice([2, 4, 8, 16, 32]))
            else:
                n_reads = int(rng.integers(P["depth"][0], P["depth"][1] + 1))
            for _ in range(n_reads):
                hap = g[int(rng.integers(len(g)))]
                flag = FLAG_REVERSE if rng.random() < 0.5 else 0
                mapq = 60
                if rng.random() < P["flag_rate"]:
                    flag |= int(flag_sets[int(rng.integers(len(flag_sets)))]) if rng.random() < 0.4 else int(flag_sets[int(rng.integers(3))])
                if P["mapq_mixed"] and rng.random() < 0.4:
                    mapq = int(rng.choice([0, 1, 19, 20, 21, 29, 30, 59, 60]))
                qname = "%s_%s_r%04d" % (s, locus["name"], qn)
                qn += 1
                if P["block"]:
                    m = int(rng.integers(1, 6))
                    full = min(ln + 2 * m, len(ds.contigs_u[locus["contig"]]))
                    a = D.simulate_read(rng, ds.contigs_u, locus, hap, qname, ids[int(rng.integers(n_rg))], read_len=(full, full),
                                        hostile=0.0, err=P["err"] * 0.5, flag=flag, mapq=mapq, anchor=locus["start"] - m)
                else:
                    a = D.simulate_read(rng, ds.contigs_u, locus, hap, qname, ids[int(rng.integers(n_rg))], read_len=(15, 45),
                                        hostile=P["hostile"], err=P["err"], flag=flag, mapq=mapq)
                alns.append(a)
        bam = os.path.join(root, "bam%d.bam" % si)
        D.write_bam(bam, ds.contigs_u, [{"ID": i, "SM": s} for i in ids], alns)
        ds.bams.append(bam)
        ds.reads.append(alns)
    # oracle side index: per sample, per read: (flag, mapq, contig, positions, base indices)
    ds.walked = []
    for alns in ds.reads:
        rows = []
        for a in alns:
            calls, _ = D.walk_alignment(a)
            pos, bi = [], []
            for p, (b, q) in calls.items():
                k = BIDX.get(b.upper(), -1)
                if k >= 0:
                    pos.append(p)
                    bi.append(k)
            rows.append((a["flag"], a["mapq"], a["contig"], np.array(pos, dtype=np.int64), np.array(bi, dtype=np.int64), a["qname"]))
        ds.walked.append(rows)
    ds.min_qual = min([min(ord(ch) - 33 for ch in a["qual"]) for alns in ds.reads for a in alns] or [99])
    return ds


# ---------------------------------------------------------------------------------------------------------------------
# oracle: filtered pileup


def eff_mapq(F):
    return 20 if F["mapq"] is None else int(F["mapq"])


def read_passes(flag, mapq, F):
    if flag & 4 or flag & 256:
        return False
    if mapq < eff_mapq(F):
        return False
    if (flag & FLAG_DUP) and not F["keep_dup"]:
        return False
    if (flag & FLAG_QCFAIL) and not F["keep_qc"]:
        return False
    if (flag & FLAG_SUPP) and not F["keep_supp"]:
        return False
    return True


def oracle_depths(ds, F):
    out = {c: np.zeros((len(s), len(ds.samples), 4), dtype=np.int64) for c, s in ds.contigs_u.items()}
    for si, rows in enumerate(ds.walked):
        for flag, mapq, c, pos, bi, _ in rows:
            if read_passes(flag, mapq, F) and len(pos):
                np.add.at(out[c], (pos, si, bi), 1)
    return out


def explain(ds, c, p, si, b, F):
    """Reads of sample si that call base b at c:p with their flags and whether the documented filters keep them."""
    items = []
    for flag, mapq, cc, pos, bi, qn in ds.walked[si]:
        if cc != c:
            continue
        hit = np.nonzero(pos == p)[0]
        if len(hit) and bi[hit[0]] == b:
            items.append("%s(flag=%d,MAPQ=%d,%s)" % (qn, flag, mapq, "kept" if read_passes(flag, mapq, F) else "filtered"))
    return items


def fdesc(F):
    return "--mapping-quality %s%s%s%s" % ("default(20)" if F["mapq"] is None else F["mapq"], " --keep-duplicate-reads" if F["keep_dup"] else "",
                                          " --keep-qcfail-reads" if F["keep_qc"] else "", " --keep-supplementary-reads" if F["keep_supp"] else "")


# ---------------------------------------------------------------------------------------------------------------------
# oracle: thresholds (exact rationals)


def cmp_exact(x, thr):
    """x: Fraction; thr: float.  'pass' / 'fail' / 'amb'.  Equality of an exactly representable x with thr is decided (a correctly
    rounded float division reproduces x), anything else within 1e-9 is ambiguous."""
    t = Fraction(thr)
    if x == t:
        return "pass"
    if abs(x - t) <= TOL:
        return "amb"
    return "pass" if x > t else "fail"


def dyadic(fr):
    d = fr.denominator
    return d & (d - 1) == 0 and d <= (1 << 40)


def allele_status_uncovered(d, tot, a, T):
    """Position at which some sample has no base call.  The statement does not say whether such a sample counts in the mean
    (as frequency 0) or is left out, nor whether it can 'meet' thresholds of zero; the status is decided only where both
    readings agree: 'pass' = listed under either reading, 'fail' = listed under neither."""
    S = len(tot)
    cov = [s for s in range(S) if tot[s] > 0]
    fr = {s: Fraction(int(d[s, a]), int(tot[s])) for s in cov}
    lo = hi = 0
    for s in range(S):
        if s not in fr:
            if T["ind_mad"] <= 0:
                hi += 1      # depth 0 reaches a depth threshold of 0; its frequency is undefined: open
            continue
        if int(d[s, a]) < T["ind_mad"]:
            continue
        c1 = cmp_exact(fr[s], T["ind_maf"])
        if c1 == "pass":
            lo += 1
            hi += 1
        elif c1 == "amb":
            hi += 1
    parts = ["pass" if lo >= T["min_ind"] else ("fail" if hi < T["min_ind"] else "amb")]
    if T["maf"] > 0:
        if not cov:
            parts.append("amb")
        else:
            tsum_f = sum(fr.values(), Fraction(0))
            cs = set()
            for x in (tsum_f / S, tsum_f / len(cov)):
                c = cmp_exact(x, T["maf"])
                cs.add("amb" if x == Fraction(T["maf"]) else c)
            parts.append(cs.pop() if len(cs) == 1 else "amb")
    tsum = int(d[:, a].sum())
    if T["mad"] > 0:
        parts.append("pass" if tsum >= T["mad"] else "fail")
    return "fail" if "fail" in parts else ("amb" if "amb" in parts else "pass")


def allele_status(d, tot, a, T, strict_mad=False, strict_maf=False, pop="mean"):
    S = len(tot)
    fr = [Fraction(int(d[s, a]), int(tot[s])) for s in range(S)]
    lo = hi = 0
    t_ind = Fraction(T["ind_maf"])
    for s in range(S):
        depth_ok = (int(d[s, a]) > T["ind_mad"]) if strict_mad else (int(d[s, a]) >= T["ind_mad"])
        if not depth_ok:
            continue
        c1 = cmp_exact(fr[s], T["ind_maf"])
        if strict_maf and fr[s] == t_ind:
            c1 = "fail"
        if c1 == "pass":
            lo += 1
            hi += 1
        elif c1 == "amb":
            hi += 1
    parts = ["pass" if lo >= T["min_ind"] else ("fail" if hi < T["min_ind"] else "amb")]
    mean = sum(fr, Fraction(0)) / S
    if T["maf"] > 0:
        x = mean if pop == "mean" else max(fr)
        c = cmp_exact(x, T["maf"])
        if c == "pass" and x == Fraction(T["maf"]) and pop == "mean" and not all(dyadic(f) for f in fr):
            c = "amb"  # float mean of rounded quotients: exact coincidence not guaranteed
        parts.append(c)
    tsum = int(d[:, a].sum())
    if T["mad"] > 0:
        parts.append("pass" if tsum >= T["mad"] else "fail")
    st = "fail" if "fail" in parts else ("amb" if "amb" in parts else "pass")
    return st, mean, tsum, lo, fr


def classify_position(d, T, col=None):
    """d (S,4) with all row sums > 0.  Returns (status per allele, mean per allele, sum per allele)."""
    tot = d.sum(axis=1)
    S = len(tot)
    sts, means, sums = [], [], []
    for a in range(4):
        st, mean, tsum, lo, fr = allele_status(d, tot, a, T)
        sts.append(st)
        means.append(mean)
        sums.append(tsum)
        if col is not None and st != "amb":
            # how often the observation can tell the documented rule from near misses
            if any(int(d[s, a]) == T["ind_mad"] for s in range(S)):
                if allele_status(d, tot, a, T, strict_mad=True)[0] not in (st, "amb"):
                    col.count("decisive_ind_mad_boundary")
            t = Fraction(T["ind_maf"])
            if any(f == t for f in fr):
                if allele_status(d, tot, a, T, strict_maf=True)[0] not in (st, "amb"):
                    col.count("decisive_ind_maf_boundary")
            if T["maf"] > 0 and S > 1:
                if allele_status(d, tot, a, T, pop="max")[0] not in (st, "amb"):
                    col.count("decisive_maf_mean_vs_max")
                if mean == Fraction(T["maf"]):
                    col.count("decisive_maf_boundary")
            if lo == T["min_ind"] and tsum > 0:
                col.count("decisive_min_ind_boundary")
            if T["mad"] > 0 and tsum == T["mad"]:
                col.count("decisive_mad_boundary")
    return sts, means, sums


# ---------------------------------------------------------------------------------------------------------------------
# option sets


def base_filters(rng, shard, idx):
    bits = (shard + idx) % 8
    return {"mapq": MAPQ_OPTIONS[int(rng.integers(len(MAPQ_OPTIONS)))], "keep_dup": bool(bits & 1), "keep_qc": bool(bits & 2), "keep_supp": bool(bits & 4)}


def toggles(rng, F0):
    out = []
    for key, kind in (("keep_dup", "dup"), ("keep_qc", "qc"), ("keep_supp", "supp")):
        F = dict(F0)
        F[key] = not F0[key]
        out.append((kind, F))
    F = dict(F0)
    others = [m for m in MAPQ_OPTIONS if (20 if m is None else m) != eff_mapq(F0)]
    F["mapq"] = others[int(rng.integers(len(others)))]
    out.append(("mapq", F))
    return out


def target_slices(ds):
    return [(c, s, e) for c, s, e, _ in ds.intervals]


def pick_thresholds(rng, ds, doc):
    """Explicit threshold options for one run (dict, only the options given on the command line) + the kinds chosen."""
    S = len(ds.samples)
    cand = []  # polymorphic target positions with coverage in every sample (documented pileup)
    for c, s, e in target_slices(ds):
        arr = doc[c][s:e]
        poly = ((arr.sum(axis=1) > 0).sum(axis=1) >= 2) & (arr.sum(axis=2) > 0).all(axis=1)
        cand += [(c, s + int(i)) for i in np.nonzero(poly)[0]]
    T, kinds = {}, {}

    def a_position():
        c, p = cand[int(rng.integers(len(cand)))]
        return doc[c][p]

    def minor(values):
        """index of a non-zero entry, preferring the non-maximal ones (thresholds near the major allele list nothing)."""
        nz = [int(i) for i in np.nonzero(np.asarray(values) > 0)[0]]
        small = [i for i in nz if values[i] < max(values)]
        pool = small if small and rng.random() < 0.8 else nz
        return pool[int(rng.integers(len(pool)))]

    r = rng.random()
    if r < 0.30:
        kinds["ind_maf"] = "default"
    elif r < 0.38:
        T["ind_maf"], kinds["ind_maf"] = 0.0, "zero"
    elif r < 0.58:
        T["ind_maf"], kinds["ind_maf"] = float(rng.choice([0.03125, 0.0625, 0.125, 0.25, 0.25, 0.5, 0.5, 0.75, 1.0])), "dyadic"
    elif r < 0.88 and cand:
        d = a_position()
        s = int(rng.integers(S))
        a = minor(d[s])
        T["ind_maf"], kinds["ind_maf"] = int(d[s, a]) / int(d[s].sum()), "observed"
    else:
        T["ind_maf"], kinds["ind_maf"] = float(rng.uniform(0, 0.4)), "random"
    r = rng.random()
    if r < 0.25:
        kinds["ind_mad"] = "default"
    elif r < 0.55:
        T["ind_mad"], kinds["ind_mad"] = int(rng.integers(0, 3)), "small"
    elif r < 0.90 and cand:
        d = a_position()
        s = int(rng.integers(S))
        a = minor(d[s])
        T["ind_mad"], kinds["ind_mad"] = int(d[s, a]) + int(rng.random() < 0.2), "observed"
    else:
        T["ind_mad"], kinds["ind_mad"] = int(rng.integers(1, 8)), "random"
    r = rng.random()
    if r < 0.4:
        kinds["min_ind"] = "default"
    else:
        T["min_ind"], kinds["min_ind"] = int(rng.integers(1, S + 1)) + int(rng.random() < 0.05), "explicit"
    r = rng.random()
    if r < 0.45:
        kinds["maf"] = "default"
    elif r < 0.75 and cand:
        d = a_position()
        a = minor(d.sum(axis=0))
        m = sum((Fraction(int(d[s, a]), int(d[s].sum())) for s in range(S)), Fraction(0)) / S
        T["maf"], kinds["maf"] = float(m), "observed"
    elif r < 0.92:
        T["maf"], kinds["maf"] = float(rng.choice([0.015625, 0.03125, 0.05, 0.125, 0.25, 0.5])), "fixed"
    else:
        T["maf"], kinds["maf"] = float(rng.uniform(0, 0.3)), "random"
    r = rng.random()
    if r < 0.45:
        kinds["mad"] = "default"
    elif r < 0.80 and cand:
        d = a_position()
        tot = d.sum(axis=0)
        a = minor(tot)
        T["mad"], kinds["mad"] = int(tot[a]) + int(rng.random() < 0.2), "observed"
    else:
        T["mad"], kinds["mad"] = int(rng.integers(1, 3 * S + 2)), "random"
    return T, kinds


def cli_args(ds, F, T):
    args = ["find-snvs", "--targets", ds.bed, "--reference", ds.fasta, "--bam"] + list(ds.bams)
    if F["mapq"] is not None:
        args += ["--mapping-quality", str(int(F["mapq"]))]
    if F["keep_dup"]:
        args.append("--keep-duplicate-reads")
    if F["keep_qc"]:
        args.append("--keep-qcfail-reads")
    if F["keep_supp"]:
        args.append("--keep-supplementary-reads")
    for key, opt in (("ind_maf", "--ind-maf"), ("ind_mad", "--ind-mad"), ("min_ind", "--min-ind"), ("maf", "--maf"), ("mad", "--mad")):
        if key in T:
            args += [opt, repr(T[key])]
    return args


# ---------------------------------------------------------------------------------------------------------------------
# monitors


def observe_cli(args):
    """Run find-snvs in-process with a spy on bam_region_depths.  Returns (stdout, exception, calls, real function)."""
    import mchap.application.find_snvs as FS
    from vlib import cli

    real = FS.bam_region_depths
    calls = []

    def spy(*a, **k):
        r = real(*a, **k)
        calls.append((a, dict(k), np.array(r, copy=True)))
        return r

    FS.bam_region_depths = spy
    try:
        out, exc = cli.run_inproc(args)
    finally:
        FS.bam_region_depths = real
    return out, exc, calls, real


def bind_call(real, a, k):
    try:
        ba = inspect.signature(real).bind(*a, **k)
    except TypeError:
        return None
    need = ("bam_paths", "contig", "start", "stop")
    if any(n not in ba.arguments for n in need):
        return None
    return ba


def sample_perm(ds, bam_paths):
    """index array: observed sample axis -> our sample order (None when the paths are not ours)."""
    paths = [os.path.abspath(str(p)) for p in bam_paths]
    mine = [os.path.abspath(p) for p in ds.bams]
    if sorted(paths) != sorted(mine):
        return None
    return [paths.index(p) for p in mine]


def compare_depths(ds, obs, c, start, F, doc, pys, col, what, found):
    """obs (n, S, 4) in our sample order against the documented pileup.  Appends to found.  Returns True when equal."""
    n = obs.shape[0]
    want = doc[c][start:start + n]
    col.count("depth_cells_compared", obs.size)
    if obs.shape == want.shape and np.array_equal(obs, want):
        return True
    if obs.shape != want.shape:
        found.append(("depth-array-shape-wrong", "%s: bam_region_depths returned shape %s for %s:%d-%d with %d BAMs" % (what, obs.shape, c, start, start + n, len(ds.bams))))
        return False
    i, si, b = [int(x[0]) for x in np.nonzero(obs != want)]
    p = start + i
    same_as_unfiltered = np.array_equal(obs, pys[c][start:start + n])
    msg = ("%s: %s:%d (0-based %d) sample %s base %s with options [%s]: filtered pileup has depth %d, bam_region_depths returned %d "
           "(%d of %d cells of the block differ); reads calling %s there: %s" % (
               what, c, p + 1, p, ds.samples[si], BASES[b], fdesc(F), int(want[i, si, b]), int(obs[i, si, b]), int((obs != want).sum()), obs.size,
               BASES[b], ", ".join(explain(ds, c, p, si, b, F)[:12])))
    if same_as_unfiltered:
        found.append((KNOWN, msg + "; the returned block equals the pileup with NO option applied (MAPQ >= 0, duplicates and QC-fail dropped, supplementary kept)"))
    else:
        found.append(("depth-not-equal-filtered-pileup", msg))
    return False


# ---------------------------------------------------------------------------------------------------------------------
# VCF against the threshold rule


def check_vcf(text, ds, basis, T, col, found, depths_are_oracle):
    from vlib import vcfparse

    try:
        header, recs = vcfparse.parse(text)
    except Exception as ex:  # noqa: BLE001
        found.append(("output-not-parseable", "find-snvs stdout could not be parsed as VCF: %s: %s" % (type(ex).__name__, ex)))
        return
    if sorted(header.samples) != sorted(ds.samples):
        found.append(("sample-columns-wrong", "header samples %s, BAM samples %s" % (header.samples, ds.samples)))
        return
    by_pos = {}
    for r in recs:
        by_pos.setdefault((r.chrom, r.pos - 1), []).append(r)
    targets = set()
    for c, s, e in target_slices(ds):
        targets.update((c, p) for p in range(s, e))
    for key, rs in by_pos.items():
        if key not in targets:
            found.append(("position-missing-or-spurious", "record at %s:%d is outside every target interval: %s" % (key[0], key[1] + 1, rs[0].line[:200])))
        elif len(rs) > 1:
            found.append(("position-missing-or-spurious", "%d records at %s:%d" % (len(rs), key[0], key[1] + 1)))
    S = len(ds.samples)
    n_poly_decided = 0
    for (c, p) in sorted(targets):
        fa = ds.fasta_contigs[c][p]
        refb = fa.upper()
        rs = by_pos.get((c, p), [])
        rec = rs[0] if rs else None
        if refb not in BIDX:
            col.count("positions_reference_n_skipped")
            continue
        d = basis[c][p]
        where = "%s:%d" % (c, p + 1)
        alleles = None
        masked = False
        if rec is not None:
            col.count("records_checked")
            if fa != refb:
                col.count("ref_lowercase_in_fasta_records")
            # ---- fields that must hold whatever the listing is
            if rec.ref != refb:
                found.append(("ref-not-fasta-base", "%s: REF %r, FASTA base %r" % (where, rec.ref, fa)))
            al = [rec.ref] + list(rec.alts)
            if any(x not in BIDX for x in al) or len(set(al)) != len(al):
                found.append(("alleles-malformed", "%s: REF/ALT %s,%s are not distinct nucleotides" % (where, rec.ref, rec.alts)))
            else:
                alleles = [BIDX[x] for x in al]
                masked = rec.info.get("REFMASKED") is True
                try:
                    iad = rec.info_list("AD", int)
                    admf = rec.info_list("ADMF", float)
                    fads = [rec.sample_list(s, "AD", int) for s in ds.samples]
                except ValueError as ex:
                    found.append(("depth-field-wrong", "%s: AD/ADMF not numeric (%s): %s" % (where, ex, rec.line[:200])))
                    iad = admf = fads = None
                    alleles = None
                if alleles is not None:
                    if iad is None or len(iad) != len(alleles) or admf is None or len(admf) != len(alleles) or any(f is None or len(f) != len(alleles) for f in fads):
                        found.append(("depth-field-wrong", "%s: INFO AD %s / ADMF %s / FORMAT AD %s do not have one value per allele %s" % (where, iad, admf, fads, al)))
                        alleles = None
                if alleles is not None:
                    for j, a in enumerate(alleles):
                        want = int(d[:, a].sum())
                        col.count("info_ad_values_checked")
                        if iad[j] != want and not (j == 0 and masked and iad[j] is None):
                            found.append(("depth-field-wrong", "%s: INFO AD[%d] (allele %s) = %s, summed depth %d (sample depths %s)" % (where, j, al[j], iad[j], want, d[:, a].tolist())))
                            break
                    for si in range(S):
                        bad = False
                        for j, a in enumerate(alleles):
                            col.count("format_ad_values_checked")
                            if depths_are_oracle:
                                col.count("format_ad_values_checked_against_generator_pileup")
                            if fads[si][j] != int(d[si, a]) and not (j == 0 and masked and fads[si][j] is None):
                                found.append(("depth-field-wrong", "%s: sample %s FORMAT AD[%d] (allele %s) = %s, depth %d" % (where, ds.samples[si], j, al[j], fads[si][j], int(d[si, a]))))
                                bad = True
                                break
                        if bad:
                            break
        # ---- listing: only where every sample has coverage and no threshold coincidence decides
        tot = d.sum(axis=1)
        if (tot == 0).any():
            col.count("positions_zero_coverage_sample_skipped")
            # the listing thresholds are not decided here (the statement does not say whether a sample without a single base
            # call counts in the MEAN), but the ORDER of the ALT alleles is the same under either reading - the divisor is common
            # to all alleles of the position - so it is decided: by decreasing sum of the covered samples' frequencies
            if rec is not None and alleles is not None and len(alleles) >= 3 and (tot > 0).any():
                score = {a: sum(Fraction(int(d[si, a]), int(tot[si])) for si in range(S) if tot[si] > 0) for a in alleles[1:]}
                alts = alleles[1:]
                col.count("alt_order_checked_with_uncovered_sample")
                for i in range(len(alts)):
                    for j in range(i + 1, len(alts)):
                        if score[alts[j]] > score[alts[i]] + Fraction(TOL):
                            found.append(("alt-order-not-by-frequency", "%s: ALT %s: over the samples with coverage %s has summed frequency %.6f but the later %s has %.6f (a sample has no base call here; depths %s)" % (
                                where, ",".join(rec.alts), BASES[alts[i]], float(score[alts[i]]), BASES[alts[j]], float(score[alts[j]]), d.tolist())))
            # session 4: the LISTING is decided too wherever both readings of the statement agree (an uncovered sample counted in the
            # mean as frequency 0, or left out of it; an uncovered sample never "meets" a positive individual depth threshold)
            sts_u = [allele_status_uncovered(d, tot, a, T) for a in range(4)]
            if "amb" in sts_u:
                col.count("positions_uncovered_sample_listing_open")
                continue
            col.count("positions_uncovered_sample_listing_decided")
            L = [a for a in range(4) if sts_u[a] == "pass"]
            emit = len(L) >= 2
            if emit:
                col.count("positions_uncovered_sample_expected_emitted")
                if T["maf"] > 0:
                    col.count("positions_uncovered_sample_expected_emitted_with_maf")
            desc = "thresholds %s; depths (samples x ACGT, a sample has no base call here) %s; alleles meeting them whether or not the uncovered sample counts in the mean: %s" % (T, d.tolist(), [BASES[a] for a in L])
            mech_sfx = "-with-uncovered-sample"
            if rec is None:
                if emit:
                    found.append(("position-missing-or-spurious" + mech_sfx, "%s: %d alleles meet the thresholds but no record was written; %s" % (where, len(L), desc)))
                continue
            if alleles is None:
                continue
            if not emit:
                found.append(("position-missing-or-spurious" + mech_sfx, "%s: record written (%s %s) although only %d allele(s) meet the thresholds; %s" % (where, rec.ref, ",".join(rec.alts), len(L), desc)))
                continue
            if set(alleles[1:]) != set(L) - {alleles[0]}:
                found.append(("allele-listing-threshold-wrong" + mech_sfx, "%s: ALT %s, expected the set %s; %s" % (where, rec.alts, [BASES[a] for a in L if a != alleles[0]], desc)))
                continue
            if masked != (alleles[0] not in L):
                found.append(("refmasked-flag-wrong" + mech_sfx, "%s: REFMASKED %s but the reference base %s %s the thresholds; %s" % (where, "present" if masked else "absent", refb, "failed" if alleles[0] not in L else "meets", desc)))
            continue
        sts, means, sums = classify_position(d, T, col)
        if "amb" in sts:
            col.count("positions_threshold_coincidence_skipped")
            continue
        col.count("positions_decided")
        L = [a for a in range(4) if sts[a] == "pass"]
        n_seen = int((d.sum(axis=0) > 0).sum())
        if n_seen >= 2:
            n_poly_decided += 1
        col.count("alleles_listed_expected", len(L))
        col.count("alleles_excluded_with_depth", sum(1 for a in range(4) if sts[a] == "fail" and sums[a] > 0))
        emit = len(L) >= 2
        if emit:
            col.count("positions_expected_emitted")
            col.count("refmasked_expected" if BIDX[refb] not in L else "ref_listed_expected")
        elif n_seen >= 2:
            col.count("positions_expected_suppressed_polymorphic")
        desc = "thresholds %s; depths (samples x ACGT) %s; alleles meeting them: %s" % (T, d.tolist(), [BASES[a] for a in L])
        if rec is None:
            if emit:
                found.append(("position-missing-or-spurious", "%s: %d alleles meet the thresholds but no record was written; %s" % (where, len(L), desc)))
            continue
        if alleles is None:
            continue
        listed = set(alleles[1:]) | (set() if masked else {alleles[0]})
        if not emit:
            if listed == set(L) or (not masked and set(alleles[1:]) == set(L) - {alleles[0]}):
                found.append(("position-missing-or-spurious", "%s: record written (%s %s%s) although only %d allele(s) meet the thresholds; %s" % (where, rec.ref, ",".join(rec.alts), " REFMASKED" if masked else "", len(L), desc)))
            else:
                found.append(("allele-listing-threshold-wrong", "%s: record lists %s%s but %s" % (where, [BASES[a] for a in alleles], " (REFMASKED)" if masked else "", desc)))
            continue
        if set(alleles[1:]) != set(L) - {alleles[0]}:
            found.append(("allele-listing-threshold-wrong", "%s: ALT %s, expected the set %s; %s" % (where, rec.alts, [BASES[a] for a in L if a != alleles[0]], desc)))
            continue
        if masked != (alleles[0] not in L):
            found.append(("refmasked-flag-wrong", "%s: REFMASKED %s but the reference base %s %s the thresholds; %s" % (where, "present" if masked else "absent", refb, "failed" if alleles[0] not in L else "meets", desc)))
        # order of ALT alleles
        alts = alleles[1:]
        for i in range(len(alts)):
            for j in range(i + 1, len(alts)):
                if abs(means[alts[i]] - means[alts[j]]) > TOL:
                    col.count("alt_order_pairs_decisive")
                if means[alts[j]] > means[alts[i]] + Fraction(TOL):
                    found.append(("alt-order-not-by-frequency", "%s: ALT %s: %s has mean sample frequency %.6f but the later %s has %.6f; %s" % (
                        where, ",".join(rec.alts), BASES[alts[i]], float(means[alts[i]]), BASES[alts[j]], float(means[alts[j]]), desc)))
        for j, a in enumerate(alleles):
            if j == 0 and masked:
                continue
            col.count("admf_values_checked")
            if admf[j] is None or abs(admf[j] - float(means[a])) > TEXT_TOL + TOL:
                found.append(("admf-field-wrong", "%s: ADMF[%d] (allele %s) = %s, mean sample frequency %.6f; %s" % (where, j, BASES[a], admf[j], float(means[a]), desc)))
                break
    return n_poly_decided


# ---------------------------------------------------------------------------------------------------------------------
# one data set = base option set + four toggles


def report(col, found, payload):
    seen = set()
    for mech, msg in found:
        if mech in seen:
            continue
        seen.add(mech)
        col.violation(mech, msg, payload)


def run_one(ds, F, T, kinds, col, payload, rng):
    """One find-snvs run.  Returns whole-contig observed depths {contig: array in our sample order} or None."""
    found = []
    Teff = dict(DEFAULT_T)
    Teff.update(T)
    doc = oracle_depths(ds, F)
    pys = oracle_depths(ds, PYSAM_DEFAULT_F)
    args = cli_args(ds, F, T)
    out, exc, calls, real = observe_cli(args)
    col.count("cli_runs")
    if ds.P["clean"]:
        col.count("cli_runs_clean_dataset")
    col.count("runs_keepflags_%d%d%d" % (F["keep_dup"], F["keep_qc"], F["keep_supp"]))
    col.add_to_set("filter_option_sets", fdesc(F))
    for k, v in kinds.items():
        col.add_to_set("threshold_kinds", "%s:%s" % (k, v))
    n_filtered = 0
    for si, rows in enumerate(ds.walked):
        for flag, mapq, c, pos, bi, _ in rows:
            if not read_passes(flag, mapq, F) and any(c == tc and ((pos >= s) & (pos < e)).any() for tc, s, e in target_slices(ds)):
                n_filtered += 1
    if n_filtered:
        col.count("runs_with_filtered_reads_in_targets")
    if exc is not None:
        found.append(("find-snvs-raised", "mchap %s raised %s: %s" % (" ".join(os.path.basename(a) if os.sep in a else a for a in args), type(exc).__name__, exc)))
        report(col, found, payload)
        col.case({"p": payload, "args": args[7:]}, nontrivial=False)
        return None
    # ---- monitor (a): what write_vcf_block got from bam_region_depths
    basis = {c: np.array(a, copy=True) for c, a in doc.items()}
    depths_ok = True
    template = None
    blocks = set()
    for a, k, ret in calls:
        col.count("depth_calls_observed")
        ba = bind_call(real, a, k)
        if ba is None:
            col.count("depth_calls_not_understood")
            continue
        perm = sample_perm(ds, ba.arguments["bam_paths"])
        c, s, e = str(ba.arguments["contig"]), int(ba.arguments["start"]), int(ba.arguments["stop"])
        if perm is None or c not in doc or ret.ndim != 3 or ret.shape[1] != len(ds.bams):
            col.count("depth_calls_not_understood")
            continue
        obs = ret[:, perm, :]
        template = (a, k)
        blocks.add((c, s, e))
        col.count("depth_calls_compared")
        ok = compare_depths(ds, obs, c, s, F, doc, pys, col, "find-snvs block", found)
        depths_ok = depths_ok and ok
        if obs.shape == basis[c][s:e].shape:
            basis[c][s:e] = obs
    captured = blocks == set(target_slices(ds))
    if not captured:
        col.count("cli_runs_without_captured_depths")
        basis = doc
    # ---- the real function, same keywords, other windows
    full = None
    if template is not None:
        a, k = template
        full = {}
        windows = []
        for c, seq in ds.contigs_u.items():
            windows.append((c, 0, len(seq), "full"))
        for _ in range(3):
            c = list(ds.contigs_u)[int(rng.integers(len(ds.contigs_u)))]
            L = len(ds.contigs_u[c])
            s = int(rng.integers(0, L - 1))
            windows.append((c, s, min(L, s + int(rng.integers(2, 80))), "window"))
        for _ in range(4):
            c, s, e = target_slices(ds)[int(rng.integers(len(ds.intervals)))]
            p = int(rng.integers(s, e))
            windows.append((c, p, p + 1, "single"))
        for c, s, e, kind in windows:
            ba = bind_call(real, a, k)
            perm = sample_perm(ds, ba.arguments["bam_paths"])
            ba.arguments["contig"], ba.arguments["start"], ba.arguments["stop"] = c, s, e
            ret = np.asarray(real(*ba.args, **ba.kwargs))
            col.count("fn_direct_calls")
            if kind == "single":
                col.count("fn_single_position_calls")
            if ret.ndim != 3 or ret.shape[1] != len(ds.bams):
                found.append(("depth-array-shape-wrong", "bam_region_depths(%s:%d-%d) returned shape %s" % (c, s, e, ret.shape)))
                continue
            obs = ret[:, perm, :]
            compare_depths(ds, obs, c, s, F, doc, pys, col, "bam_region_depths(%s, %d, %d, **%s)" % (c, s, e, {kk: vv for kk, vv in ba.arguments.get("kwargs", {}).items()} or "same keywords as find-snvs"), found)
            if kind == "full":
                full[c] = obs
    # ---- monitor (b): the VCF
    if depths_ok and captured:
        col.count("cli_runs_depths_equal_generator_pileup")
    n_poly = check_vcf(out, ds, basis, Teff, col, found, depths_ok and captured)
    report(col, found, payload)
    col.case({"p": payload, "args": args[7:]}, nontrivial=bool(n_poly))
    return full


def run_dataset(seed, shard, idx, col, want_sample=False):
    from vlib import env

    rng = gen.rng_for(seed, ID, shard, idx)
    P = gen_params(rng, shard, idx)
    root = os.path.join(env.workdir("c19-s%02d" % shard), "case%05d" % idx)
    shutil.rmtree(root, ignore_errors=True)
    try:
        ds = build_dataset(rng, root, P)
        if ds.min_qual < 30:
            col.inconclusive_note("generator wrote base qualities below 30")
            return
        col.count("datasets")
        F0 = base_filters(rng, shard, idx)
        runs = [("base", F0)] + toggles(rng, F0)
        observed = {}
        for j, (kind, F) in enumerate(runs):
            T, kinds = pick_thresholds(rng, ds, oracle_depths(ds, F))
            payload = {"seed": int(seed), "shard": int(shard), "index": int(idx), "run": j, "options": cli_args(ds, F, T)[7:], "params": P}
            observed[kind] = (F, run_one(ds, F, T, kinds, col, payload, rng), payload)
            if want_sample and j == 0:
                col.sample({"params": P, "samples": ds.samples, "targets": [list(iv) for iv in ds.intervals],
                            "reads_per_sample": [len(r) for r in ds.reads], "options": payload["options"]})
        # ---- changing one filter option changes the depths exactly by the reads it governs
        F0, obs0, _ = observed["base"]
        if obs0 is not None:
            doc0 = oracle_depths(ds, F0)
            pys = oracle_depths(ds, PYSAM_DEFAULT_F)
            for kind in ("dup", "qc", "supp", "mapq"):
                F1, obs1, payload = observed[kind]
                if obs1 is None:
                    continue
                doc1 = oracle_depths(ds, F1)
                col.count("toggle_pairs_checked")
                for c in doc0:
                    want = doc1[c] - doc0[c]
                    if not want.any():
                        continue
                    col.count("toggle_pairs_with_effect_%s" % kind)
                    got = obs1[c] - obs0[c]
                    if np.array_equal(got, want):
                        col.count("toggle_effect_confirmed_%s" % kind)
                        continue
                    i, si, b = [int(x[0]) for x in np.nonzero(got != want)]
                    n_reads = sum(1 for flag, mapq, cc, pos, bi, _ in ds.walked[si] if cc == c and read_passes(flag, mapq, F0) != read_passes(flag, mapq, F1))
                    msg = ("options [%s] versus [%s]: %d reads of sample %s on %s pass one filter set but not the other, so the depth of %s at %s:%d "
                           "must change by %+d (%d -> %d); bam_region_depths changed by %+d (%d -> %d); reads calling %s there: %s" % (
                               fdesc(F0), fdesc(F1), n_reads, ds.samples[si], c, BASES[b], c, i + 1, int(want[i, si, b]), int(doc0[c][i, si, b]), int(doc1[c][i, si, b]),
                               int(got[i, si, b]), int(obs0[c][i, si, b]), int(obs1[c][i, si, b]), BASES[b], ", ".join(explain(ds, c, i, si, b, F1)[:12])))
                    if np.array_equal(obs0[c], pys[c]) and np.array_equal(obs1[c], pys[c]):
                        col.violation(KNOWN, msg + "; both results equal the pileup with no option applied", payload)
                    else:
                        col.violation("filter-option-effect-wrong", msg, payload)
                    break
    finally:
        shutil.rmtree(root, ignore_errors=True)


def run_shard(tier, seed, spec, col):
    sh = spec["shard"]
    for i in range(spec["datasets"]):
        run_dataset(seed, sh, i, col, want_sample=(sh == 0 and i < 2))


def replay(obj, col):
    case = obj["case"]
    run_dataset(case["seed"], case["shard"], case["index"], col)
