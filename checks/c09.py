"""C09 - likelihood caches are transparent; the carried likelihood always equals the recomputed one.

Monitors
  trace  (M1) llk traces of the compiled assemble / call samplers vs likelihood recomputed for the traced genotype
         (all temperatures), identical seeds with the cache disabled / enabled; (M2) _denovo_assembler.py_func with
         new_log_likelihood_cache wrapped to force tiny max_size: cache tuple watched between calls (insertions, growths,
         flushes), traces must be bit-identical across cache sizes;
  nojit  (M3, NUMBA_DISABLE_JIT=1) every return of the cached wrappers of the assemble, call and call-pedigree samplers
         compared with a fresh oracle computation for that genotype and that sample's own positive-count reads; hits and
         misses counted separately;
  amap   the compiled arraymap against a dict model (history + executable model);
  cli    (M4a) real `mchap assemble` runs with --mcmc-llk-cache-threshold in {-1, 0, small, 100, large, 10^6}, without and with
         tempering (list and per-sample file): records must be identical to the cache-disabled run;
  dict   contents of caller-supplied caches after compiled call / call-pedigree steps (every entry == fresh likelihood
         of that (sample, genotype)).
"""

import math

import numpy as np

from vlib import gen, monitors, pedgen
from vlib.oracles import model as M
from vlib.report import unjson_array

ID = "C09"
TECHNIQUE = "runtime monitoring: llk traces vs recomputed likelihood, cache on/off/resized trajectory equality with a cache-tuple watcher, wrapped cached-likelihood functions under NUMBA_DISABLE_JIT, arraymap vs dict model, inspection of caller-supplied cache contents; real mchap assemble under every --mcmc-llk-cache-threshold setting with and without tempering; sampler objects re-fitted on other reads vs fresh objects"
LEVEL = "exploration"
LEVEL_TEXT = (
    "Exploration: the assemble, call and call-pedigree samplers were run on generated instances (ploidy 2-6, 2-10 sites, "
    "0-20 weighted gapped reads, 1-4 temperatures, pedigrees whose samples have unequal numbers of distinct reads) and "
    "observed: every traced likelihood equals the likelihood recomputed for the traced genotype; trajectories are "
    "bit-identical with the assemble cache disabled, enabled and resized to force repeated flushes (flushes and array "
    "growths were actually observed); under NUMBA_DISABLE_JIT every value served by a cached wrapper (hit or miss) equals "
    "a fresh computation for that sample's own reads; the array-map agrees with a dict model on random histories; every "
    "entry left in caller-supplied caches is the right likelihood. Histories not generated are not covered."
)
LEVEL_TEXT += ' Session 3: the cold-chain-only trace (return_heated_trace=False, the path fit() uses) must equal the T=1 slice of the all-temperatures trace, likelihoods included.'
LEVEL_NOTE = "Trusts the independent likelihood oracle; M3 runs Python semantics of the same source (numba semantics are covered by the trace and cache-content monitors on the compiled code)."
RULE = (
    "case = one sampler run (instance, seed, cache setting), one arraymap history or one pedigree/call cache inspection; "
    "non-trivial = the run used a cache and performed at least one insertion; distinct by hash of (instance, seed, setting)"
)
LEVEL_TEXT += ' The real mchap assemble was run under --mcmc-llk-cache-threshold -1, 0, small, 100, large and 10^6, without and with tempering (list and per-sample file): identical records; DenovoMCMC and PedigreeCallingMCMC objects fitted a second time on other reads behave as fresh objects.'
LEVEL_TEXT += ' Session 4: a quarter of the assemble trace runs use loci of 33-160 SNVs; the call-cache monitor also runs pooled ploidies 8-12 over 70-400 haplotypes (sampler state, single-allele neighbours, random genotypes).'
ASSUMPTIONS = ["a flushed arraymap may forget values (miss), it may never return a wrong one", "states with zero likelihood are not visited"]


def plan(tier, seed):
    q = tier == "quick"
    specs = []
    for i in range(6):
        specs.append({"name": "trace%02d" % i, "kind": "trace", "shard": i, "runs": 8 if q else 40, "timeout": 7000})
    for i in range(3):
        specs.append({"name": "nojit%02d" % i, "kind": "nojit", "shard": 10 + i, "runs": 2 if q else 10, "timeout": 7000, "mode": {"disable_jit": True}})
    specs.append({"name": "amap", "kind": "amap", "shard": 20, "histories": 150 if q else 2500, "timeout": 7000})
    for i in range(4):
        specs.append({"name": "dict%02d" % i, "kind": "dict", "shard": 30 + i, "runs": 12 if q else 120, "timeout": 7000})
    for i in range(2):
        specs.append({"name": "refit%02d" % i, "kind": "refit", "shard": 60 + i, "runs": 12 if q else 120, "timeout": 7000})
    for i in range(2 if q else 6):
        specs.append({"name": "cli%02d" % i, "kind": "cli", "shard": 50 + i, "timeout": 7000})
    if not q:
        specs.append({"name": "tracebc", "kind": "trace", "shard": 40, "runs": 8, "timeout": 7000, "mode": {"boundscheck": True}})
        specs.append({"name": "amapbc", "kind": "amap", "shard": 41, "histories": 400, "timeout": 7000, "mode": {"boundscheck": True}})
    return specs


def required(tier):
    return {"trace_cells_checked": 3000, "runs_cache_on_off_equal": 10, "runs_resized_equal": 10, "cache_flushes_observed": 5,
            "cache_growths_observed": 5, "cache_insertions_observed": 500, "nojit_cached_returns_checked": 1000, "nojit_hits": 100,
            "nojit_misses": 100, "nojit_pedigree_returns": 100, "nojit_calling_returns": 100, "nojit_structural_returns": 50,
            "amap_ops": 5000, "amap_flushes": 20, "amap_hits": 1000, "ped_cache_entries_checked": 300,
            "call_cache_entries_checked": 200, "ped_unequal_read_runs": 10, "tempered_runs": 5, "call_cache_high_ploidy_runs": 3,
            "cli_threshold_settings_compared": 12, "cli_records_compared": 60, "cli_tempered_settings": 2,
            "refit_assemble_compared": 15, "refit_pedigree_compared": 15, "refit_llk_cells_checked": 1000,
            "cold_only_traces_checked": 20, "refit_read_sets_with_all_gap_reads": 8, "long_locus_runs": 6,
            "call_cache_high_ploidy_many_haplotypes_runs": 4}


# ---------------------------------------------------------------------------
# instances


def make_instance(rng, small=False):
    ploidy = int(rng.integers(2, 5 if small else 7))
    n_pos = int(rng.integers(2, 5 if small else 11))
    n_alleles = rng.choice([2, 2, 2, 3], size=n_pos)
    n_reads = int(rng.integers(3, 10 if small else 21))
    truth = gen.gen_genotype(rng, ploidy, n_alleles, dup_rate=0.3)
    reads = gen.gen_reads_from_haps(rng, truth, n_reads, n_alleles, n_nucl=int(n_alleles.max()), gap_rate=float(rng.choice([0, 0.2, 0.5])),
                                    err=float(rng.choice([0.0024, 0.05])), flip=0.05)
    counts = gen.gen_counts(rng, n_reads)
    n_t = int(rng.integers(1, 5))
    temps = np.sort(np.concatenate([rng.uniform(0.1, 0.9, size=n_t - 1), [1.0]]))
    return dict(ploidy=ploidy, n_alleles=n_alleles.astype(np.int8), reads=reads, counts=counts, temps=temps,
                F=float(rng.choice([0.0, 0.1])), g0=gen.gen_genotype(rng, ploidy, n_alleles))


def make_long_instance(rng):
    """33-160 SNVs (session 4): cache keys as long as ploidy x 160 alleles, reads covering windows of 8-30 sites so that every
    likelihood stays a normal double."""
    ploidy = int(rng.integers(2, 7))
    n_pos = int(rng.choice([33, 48, 64, 65, 96, 128, 129, 160]))
    n_alleles = rng.choice([2, 2, 2, 3, 4], size=n_pos)
    n_nucl = int(n_alleles.max())
    truth = gen.gen_genotype(rng, ploidy, n_alleles, dup_rate=0.3)
    n_reads = int(rng.integers(6, 25))
    reads = np.full((n_reads, n_pos, n_nucl), np.nan)
    err = float(rng.choice([0.0024, 0.05]))
    for r in range(n_reads):
        w = int(rng.integers(8, 31))
        lo = int(rng.integers(0, n_pos - w + 1))
        hap = truth[int(rng.integers(ploidy))]
        for j in range(lo, lo + w):
            if rng.random() < 0.1:
                continue
            na = int(n_alleles[j])
            call = int(hap[j]) if rng.random() > 0.05 else int(rng.integers(na))
            row = np.zeros(n_nucl)
            row[:na] = err / max(1, na - 1)
            row[call] = 1 - err
            reads[r, j] = row
    counts = gen.gen_counts(rng, n_reads)
    n_t = int(rng.integers(1, 4))
    temps = np.sort(np.concatenate([rng.uniform(0.1, 0.9, size=n_t - 1), [1.0]]))
    g0 = truth.copy()
    for _ in range(int(rng.integers(0, 6))):
        h, j = int(rng.integers(ploidy)), int(rng.integers(n_pos))
        g0[h, j] = int(rng.integers(int(n_alleles[j])))
    return dict(ploidy=ploidy, n_alleles=n_alleles.astype(np.int8), reads=reads, counts=counts, temps=temps,
                F=float(rng.choice([0.0, 0.1])), g0=g0.astype(np.int8), long=True)


def pack(I):
    d = {k: (v.tolist() if isinstance(v, np.ndarray) else v) for k, v in I.items()}
    d["reads_shape"] = list(I["reads"].shape)
    return d


def unpack(d):
    I = dict(d)
    I["n_alleles"] = np.array(d["n_alleles"], dtype=np.int8)
    I["reads"] = unjson_array(d["reads"], float).reshape(d["reads_shape"])
    I["counts"] = None if d["counts"] is None else np.array(d["counts"], dtype=np.int64)
    I["temps"] = np.array(d["temps"], dtype=float)
    I["g0"] = np.array(d["g0"], dtype=np.int8)
    return I


def llk_close(a, b):
    if math.isinf(a) or math.isinf(b):
        return a == b
    return abs(a - b) <= 1e-9 * max(1.0, abs(b))


class Oracle:
    def __init__(self, reads, counts):
        self.reads, self.counts = reads, counts
        self.memo = {}

    def llk(self, g):
        k = tuple(sorted(tuple(int(a) for a in r) for r in g))
        if k not in self.memo:
            self.memo[k] = M.log_likelihood(self.reads, k, self.counts)
        return self.memo[k]


# ---------------------------------------------------------------------------
# trace shards (M1 + M2)


def run_assembler(I, steps, thr, seed, heated=True):
    from mchap.assemble import mcmc as AM
    from mchap.jitutils import seed_numba

    np.random.seed(seed)
    seed_numba(seed)
    bd = AM._point_beta_probabilities(len(I["n_alleles"]), 1.0, 3.0)
    return AM._denovo_assembler(genotype=I["g0"].copy(), inbreeding=I["F"], reads=I["reads"], read_counts=I["counts"],
                                n_alleles=I["n_alleles"], steps=steps, break_dist=bd, recombination_step_probability=0.5,
                                partial_dosage_step_probability=0.5, dosage_step_probability=1.0, temperatures=I["temps"],
                                return_heated_trace=heated, llk_cache_threshold=thr)


class CacheWatcher:
    def __init__(self, col):
        self.col = col
        self.prev = None

    def see(self, cache):
        if cache is None:
            return
        tree, values, _, empty_node, empty_values, max_size = cache
        cur = (len(tree), len(values), int(empty_node), int(empty_values))
        if self.prev is not None:
            if cur[3] < self.prev[3] or cur[2] < self.prev[2]:
                self.col.count("cache_flushes_observed")
            else:
                self.col.count("cache_insertions_observed", cur[3] - self.prev[3])
            if cur[0] > self.prev[0] or cur[1] > self.prev[1]:
                self.col.count("cache_growths_observed")
        if len(tree) > max_size or len(values) > max_size:
            self.col.violation("cache-grows-beyond-max-size", "arraymap arrays %d/%d exceed max_size %d" % (len(tree), len(values), max_size), None)
        self.prev = cur


def run_assembler_m2(I, steps, seed, max_size, col):
    """_denovo_assembler.py_func with the cache constructor wrapped (max_size None => cache disabled)."""
    from mchap.assemble import mcmc as AM
    from mchap.assemble import mutation, structural
    from mchap.jitutils import seed_numba

    real_new = AM.new_log_likelihood_cache
    real_mut, real_struct = mutation.compound_step, structural.compound_step
    watcher = CacheWatcher(col)

    def new_cache(ploidy, n_base, max_alleles):
        return real_new(ploidy, n_base, max_alleles, max_size)

    def w_mut(**kw):
        out = real_mut(kw["genotype"], kw["reads"], kw["llk"], kw["n_alleles"].astype(np.int8), kw["log_unique_haplotypes"], kw["inbreeding"], kw["temp"], kw["read_counts"], kw["cache"])
        watcher.see(out[1])
        return out

    def w_struct(**kw):
        out = real_struct(kw["genotype"], kw["reads"], kw["llk"], kw["intervals"], kw["log_unique_haplotypes"], kw["inbreeding"], kw["step_type"], True, kw["temp"], kw["read_counts"], kw["cache"])
        watcher.see(out[1])
        return out

    np.random.seed(seed)
    seed_numba(seed)
    bd = AM._point_beta_probabilities(len(I["n_alleles"]), 1.0, 3.0)
    with monitors.patched((AM, "new_log_likelihood_cache", new_cache), (mutation, "compound_step", w_mut), (structural, "compound_step", w_struct)):
        return AM._denovo_assembler.py_func(
            genotype=I["g0"].copy(), inbreeding=I["F"], reads=I["reads"], read_counts=I["counts"], n_alleles=I["n_alleles"].astype(np.int64),
            steps=steps, break_dist=bd, recombination_step_probability=0.5, partial_dosage_step_probability=0.5,
            dosage_step_probability=1.0, temperatures=I["temps"], return_heated_trace=True,
            llk_cache_threshold=(-1 if max_size is None else 0))


def run_trace(tier, seed, spec, col):
    from mchap.calling import mcmc as CM
    from mchap.jitutils import seed_numba

    monitors.ensure_compiled()
    for r in range(spec["runs"]):
        rng = gen.rng_for(seed, ID, spec["shard"], r)
        is_long = r % 4 == 3
        I = make_long_instance(rng) if is_long else make_instance(rng)
        orc = Oracle(I["reads"], I["counts"])
        if orc.llk(I["g0"]) == -math.inf:
            continue
        s = int(rng.integers(1, 2**31 - 1))
        steps = int(rng.choice([50, 150, 400])) if tier == "quick" else int(rng.choice([150, 600, 3000]))
        if is_long:
            steps = 40 if tier == "quick" else 150
            col.count("long_locus_runs")
        rep = {"instance": pack(I), "seed": s, "steps": steps}
        if len(I["temps"]) > 1:
            col.count("tempered_runs")
        # M1: compiled, cache off vs on
        g_off, l_off = run_assembler(I, steps, -1, s)
        g_on, l_on = run_assembler(I, steps, 0, s)
        col.case({"kind": "asm", "inst": rep["instance"], "seed": s, "steps": steps}, nontrivial=True)
        if np.array_equal(g_off, g_on) and np.array_equal(l_off, l_on):
            col.count("runs_cache_on_off_equal")
        else:
            first = int(np.argwhere((g_off != g_on).any(axis=(0, 2, 3)) | (l_off != l_on).any(axis=0))[0][0])
            col.violation("cache-changes-trajectory", "assemble trajectories differ between cache disabled and enabled from step %d (seed %d)" % (first, s), rep)
        for name, gt, lt in (("off", g_off, l_off), ("on", g_on, l_on)):
            bad = False
            for t in range(gt.shape[0]):
                for i in range(gt.shape[1]):
                    col.count("trace_cells_checked")
                    want = orc.llk(gt[t, i])
                    if not llk_close(float(lt[t, i]), want):
                        col.violation("carried-likelihood-differs-from-recomputed", "assemble (cache %s) temp index %d step %d: traced llk %.12g, genotype has %.12g" % (name, t, i, lt[t, i], want), rep)
                        bad = True
                        break
                if bad:
                    break
        # the cold-chain-only trace (what DenovoMCMC.fit keeps: return_heated_trace=False) is a separate recording path:
        # it must be the cold slice of the all-temperatures trace, likelihoods included
        for thr in (-1, 0):
            g_c, l_c = run_assembler(I, steps, thr, s, heated=False)
            g_c, l_c = np.asarray(g_c)[0], np.asarray(l_c)[0]   # shape (1, steps, ...): the only row is the cold chain
            col.count("cold_only_traces_checked")
            gh, lh = (g_off, l_off) if thr == -1 else (g_on, l_on)
            # the cold chain is the LAST temperature of the heated trace (temperatures ascend to 1.0)
            if g_c.shape != gh[-1].shape or not np.array_equal(g_c, gh[-1]):
                col.violation("cold-trace-differs-from-heated-trace", "cold-only genotype trace differs from the T=1 slice of the all-temperatures trace (cache %s, seed %d)" % (thr, s), rep)
                continue
            for i in range(g_c.shape[0]):
                col.count("trace_cells_checked")
                want = orc.llk(g_c[i])
                if not llk_close(float(l_c[i]), want):
                    col.violation("carried-likelihood-differs-from-recomputed", "assemble cold-only trace (cache threshold %d, %d temperatures) step %d: traced llk %.12g, genotype has %.12g"
                                  % (thr, len(I["temps"]), i, l_c[i], want), rep)
                    break
        # M2: resized caches force flushes; all trajectories identical
        m2_steps = min(steps, 60 if tier == "quick" else 150)
        if is_long:
            m2_steps = 3 if tier == "quick" else 6   # the Python body of one iteration costs seconds on 100+ sites
        base = run_assembler_m2(I, m2_steps, s, None, col)
        for ms in (64, 128, 512):
            gt, lt = run_assembler_m2(I, m2_steps, s, ms, col)
            if np.array_equal(gt, base[0]) and np.array_equal(lt, base[1]):
                col.count("runs_resized_equal")
            else:
                col.violation("cache-changes-trajectory", "assemble trajectory with cache max_size=%d differs from the uncached one (seed %d)" % (ms, s), dict(rep, max_size=ms, steps=m2_steps))
            for t in range(gt.shape[0]):
                for i in range(0, gt.shape[1], 3):
                    col.count("trace_cells_checked")
                    want = orc.llk(gt[t, i])
                    if not llk_close(float(lt[t, i]), want):
                        col.violation("carried-likelihood-differs-from-recomputed", "assemble (max_size %d) temp %d step %d: traced %.12g, recomputed %.12g" % (ms, t, i, lt[t, i], want), rep)
                        break
        # call sampler: llk trace vs recomputed, cache on/off
        haps, na = gen.gen_haplotype_set(rng, int(rng.integers(2, 7)), int(rng.integers(1, 5)))
        ploidy = int(rng.integers(2, 5))
        creads = gen.gen_reads_from_haps(rng, haps[rng.integers(0, len(haps), size=ploidy)], int(rng.integers(1, 12)), na, n_nucl=int(max(2, na.max())))
        ccounts = rng.integers(1, 4, size=len(creads)).astype(np.int64)
        Mx = M.hap_read_matrix(creads, haps)
        init = np.sort(rng.integers(0, len(haps), size=ploidy)).astype(np.int32)
        for st in (0, 1):
            outs = []
            for cache in (False, True):
                seed_numba(s)
                outs.append(CM.mcmc_sampler(init, haps, creads, ccounts, 0.1, None, 300, cache, st))
            col.case({"kind": "call", "haps": haps.tolist(), "seed": s, "st": st, "reads": creads.tolist()}, nontrivial=True)
            # NB: the statement promises trajectory transparency for the *assemble* cache only; the call cache is keyed
            # by the sorted genotype so a cached value may differ from a fresh one in the last ulp (summation order).
            if np.array_equal(outs[0][0], outs[1][0]):
                col.count("call_runs_cache_on_off_same_genotypes")
            for gt, lt in outs:
              for i in range(len(gt)):
                col.count("trace_cells_checked")
                want = M.log_likelihood_alleles_fast(Mx, [int(a) for a in gt[i]], ccounts)
                if not llk_close(float(lt[i]), want):
                    col.violation("carried-likelihood-differs-from-recomputed", "call sampler step %d: traced llk %.12g, genotype %s has %.12g" % (i, lt[i], gt[i].tolist(), want), {"haps": haps.tolist(), "seed": s})
                    break
        if r == 0 and spec["shard"] == 0:
            col.sample({"assemble_run": {"ploidy": I["ploidy"], "n_alleles": I["n_alleles"].tolist(), "temps": I["temps"].tolist(), "steps": steps, "seed": s,
                                         "first_llks_cold_chain": l_on[-1, :5].tolist()}})


# ---------------------------------------------------------------------------
# nojit shards (M3)


def run_nojit(tier, seed, spec, col):
    import os

    assert os.environ.get("NUMBA_DISABLE_JIT") == "1"
    from mchap.assemble import arraymap, mutation, structural
    from mchap.assemble import mcmc as AM
    from mchap.calling import mcmc as CM
    from mchap.pedigree import mcmc as PM

    for r in range(spec["runs"]):
        rng = gen.rng_for(seed, ID, spec["shard"], r)
        # ---------- assemble
        I = make_instance(rng, small=True)
        orc = Oracle(I["reads"], I["counts"])
        if orc.llk(I["g0"]) == -math.inf:
            continue
        real_c, real_sc = mutation.log_likelihood_cached, structural.log_likelihood_structural_change_cached
        rep = {"instance": pack(I)}

        def w_cached(reads, genotype, cache=None, read_counts=None):
            hit = cache is not None and not np.isnan(arraymap.get(cache, genotype.ravel()))
            out = real_c(reads, genotype, read_counts=read_counts, cache=cache)
            col.count("nojit_cached_returns_checked")
            col.count("nojit_hits" if hit else "nojit_misses")
            want = orc.llk(genotype)
            if not llk_close(float(out[0]), want):
                col.violation("cache-returns-wrong-likelihood", "log_likelihood_cached (%s) returned %.12g for %s, fresh value %.12g" % ("hit" if hit else "miss", out[0], genotype.tolist(), want), rep)
            return out

        def w_struct_cached(reads, genotype, haplotype_indices, interval=None, read_counts=None, cache=None):
            g2 = genotype.copy()
            lo, hi = (0, g2.shape[1]) if interval is None else (int(interval[0]), int(interval[1]))
            for j in range(lo, hi):
                g2[:, j] = genotype[haplotype_indices, j]
            hit = cache is not None and not np.isnan(arraymap.get(cache, g2.ravel()))
            out = real_sc(reads=reads, genotype=genotype, haplotype_indices=haplotype_indices, interval=interval, read_counts=read_counts, cache=cache)
            col.count("nojit_cached_returns_checked")
            col.count("nojit_structural_returns")
            col.count("nojit_hits" if hit else "nojit_misses")
            want = orc.llk(g2)
            if not llk_close(float(out[0]), want):
                col.violation("cache-returns-wrong-likelihood", "log_likelihood_structural_change_cached (%s) returned %.12g, rearranged genotype %s has %.12g" % ("hit" if hit else "miss", out[0], g2.tolist(), want), rep)
            return out

        s = int(rng.integers(1, 2**31 - 1))
        np.random.seed(s)
        real_new = AM.new_log_likelihood_cache

        def new_cache(ploidy, n_base, max_alleles):
            return real_new(ploidy, n_base, max_alleles, 128)

        steps = 20 if tier == "quick" else 60
        with monitors.patched((mutation, "log_likelihood_cached", w_cached), (structural, "log_likelihood_structural_change_cached", w_struct_cached),
                              (AM, "new_log_likelihood_cache", new_cache)):
            gt, lt = AM._denovo_assembler(
                genotype=I["g0"].copy(), inbreeding=I["F"], reads=I["reads"], read_counts=I["counts"], n_alleles=I["n_alleles"].astype(np.int64),
                steps=steps, break_dist=AM._point_beta_probabilities(len(I["n_alleles"]), 1.0, 3.0), recombination_step_probability=0.5,
                partial_dosage_step_probability=0.5, dosage_step_probability=1.0, temperatures=I["temps"], return_heated_trace=True, llk_cache_threshold=0)
        col.case({"kind": "nojit-asm", "inst": rep["instance"], "seed": s}, nontrivial=True)
        for t in range(gt.shape[0]):
            for i in range(gt.shape[1]):
                col.count("trace_cells_checked")
                if not llk_close(float(lt[t, i]), orc.llk(gt[t, i])):
                    col.violation("carried-likelihood-differs-from-recomputed", "nojit assemble temp %d step %d" % (t, i), rep)
                    break
        # ---------- call sampler
        haps, na = gen.gen_haplotype_set(rng, int(rng.integers(2, 5)), int(rng.integers(1, 4)))
        ploidy = int(rng.integers(2, 4))
        creads = gen.gen_reads_from_haps(rng, haps[rng.integers(0, len(haps), size=ploidy)], int(rng.integers(1, 8)), na, n_nucl=int(max(2, na.max())))
        ccounts = rng.integers(1, 4, size=len(creads)).astype(np.int64)
        Mx = M.hap_read_matrix(creads, haps)
        real_cc = CM.log_likelihood_alleles_cached

        def w_call(reads, read_counts, haplotypes, genotype_alleles, cache=None):
            out = real_cc(reads=reads, read_counts=read_counts, haplotypes=haplotypes, genotype_alleles=genotype_alleles, cache=cache)
            col.count("nojit_cached_returns_checked")
            col.count("nojit_calling_returns")
            want = M.log_likelihood_alleles_fast(Mx, [int(a) for a in genotype_alleles], ccounts)
            if not llk_close(float(out), want):
                col.violation("cache-returns-wrong-likelihood", "calling log_likelihood_alleles_cached returned %.12g for %s, fresh %.12g" % (out, list(genotype_alleles), want),
                              {"haps": haps.tolist(), "reads": creads.tolist()})
            return out

        with monitors.patched((CM, "log_likelihood_alleles_cached", w_call)):
            for st in (0, 1):
                CM.mcmc_sampler(np.zeros(ploidy, dtype=np.int32), haps, creads, ccounts, 0.1, None, 25, True, st)
        # ---------- pedigree sampler
        P_I = pedgen.make_pedigree(rng, str(rng.choice(["trio2", "halfsibs", "mixed_4x2_3", "fullsibs"])))
        J = pedgen.Joint(P_I)
        real_pc = PM.log_likelihood_alleles_cached

        def w_ped(reads, read_counts, haplotypes, sample, genotype_alleles, cache=None):
            out = real_pc(reads=reads, read_counts=read_counts, haplotypes=haplotypes, sample=sample, genotype_alleles=genotype_alleles, cache=cache)
            col.count("nojit_cached_returns_checked")
            col.count("nojit_pedigree_returns")
            want = J.llk(int(sample), tuple(sorted(int(a) for a in genotype_alleles)))
            if not llk_close(float(out), want):
                col.violation("cache-returns-wrong-likelihood", "pedigree log_likelihood_alleles_cached returned %.12g for sample %d genotype %s; that sample's own reads give %.12g"
                              % (out, sample, list(genotype_alleles), want), {"pedigree": pedgen.pack(P_I)})
            return out

        st0 = pedgen.random_state(rng, P_I)
        with monitors.patched((PM, "log_likelihood_alleles_cached", w_ped)):
            PM.mcmc_sampler(st0, P_I["ploidy"], P_I["parents"], P_I["tau"], P_I["lam"], P_I["err"], P_I["reads"], P_I["counts"], P_I["haps"],
                            np.log(P_I["freqs"]), 6 if tier == "quick" else 15, 0, int(rng.integers(0, 2)), True)
        if r == 0:
            col.sample({"nojit_run": {"assemble_steps": steps, "pedigree": P_I["name"]}})


# ---------------------------------------------------------------------------
# arraymap vs dict model


def run_amap(tier, seed, spec, col):
    from mchap.assemble import arraymap

    for hI in range(spec["histories"]):
        rng = gen.rng_for(seed, ID, spec["shard"], hI)
        length = int(rng.integers(1, 9))
        branches = int(rng.integers(2, 5))
        max_size = int(rng.choice([8, 16, 64, 256, 2**16]))
        init = int(rng.choice([2, 4, 8]))
        if init > max_size:
            init = max_size
        amap = arraymap.new(length, branches, init, max_size)
        model = {}
        flushed_since = {}
        n_ops = int(rng.integers(20, 200))
        pool = [rng.integers(0, branches, size=length).astype(np.int8) for _ in range(int(rng.integers(2, 60)))]
        hist = []
        ok = True
        for op in range(n_ops):
            k = pool[int(rng.integers(len(pool)))]
            kt = tuple(int(a) for a in k)
            col.count("amap_ops")
            if rng.random() < 0.5:
                v = float(op) + 0.5
                amap = arraymap.set(amap, k, v, True)
                hist.append(("set", kt, v))
                # a successful set always leaves at least one stored value; empty_values == 0 <=> the map was emptied
                if amap[4] == 0:
                    col.count("amap_flushes")
                    model = {}  # everything may be forgotten (the value just set as well)
                else:
                    model[kt] = v
                if len(amap[0]) > max(max_size, init) or len(amap[1]) > max(max_size, init):
                    col.violation("cache-grows-beyond-max-size", "arraymap arrays %d/%d exceed max_size %d" % (len(amap[0]), len(amap[1]), max_size), {"hist": hist[-50:]})
                    ok = False
            else:
                got = float(arraymap.get(amap, k))
                hist.append(("get", kt, got))
                if kt in model:
                    col.count("amap_hits")
                    if got != model[kt]:
                        col.violation("arraymap-returns-wrong-value", "get(%s) returned %r, model has %r (length %d, branches %d, max_size %d)" % (kt, got, model[kt], length, branches, max_size),
                                      {"length": length, "branches": branches, "max_size": max_size, "init": init, "hist": hist[-80:]})
                        ok = False
                else:
                    col.count("amap_misses")
                    if not math.isnan(got):
                        col.violation("arraymap-returns-wrong-value", "get(%s) of a key never set (or flushed) returned %r" % (kt, got),
                                      {"length": length, "branches": branches, "max_size": max_size, "init": init, "hist": hist[-80:]})
                        ok = False
            if not ok:
                break
        col.case({"kind": "amap", "h": hI, "len": length, "br": branches, "ms": max_size, "pool": len(pool), "ops": n_ops}, nontrivial=True)
        if hI == 0:
            col.sample({"arraymap_history": hist[:12]})


# ---------------------------------------------------------------------------
# contents of caller-supplied caches (compiled samplers)


def run_dict(tier, seed, spec, col):
    from numba import types
    from numba.typed import Dict

    from mchap.calling import mcmc as CM
    from mchap.jitutils import seed_numba

    for r in range(spec["runs"]):
        rng = gen.rng_for(seed, ID, spec["shard"], r)
        # ---- pedigree
        names = sorted(pedgen.SCENARIOS)
        P_I = pedgen.make_pedigree(rng, names[(spec["shard"] * 1000 + r) % len(names)])
        K = pedgen.Kernels(P_I)
        J = pedgen.Joint(P_I)
        PM = K.PM
        nreads = (P_I["counts"] > 0).sum(axis=1)
        if len(set(nreads.tolist())) > 1:
            col.count("ped_unequal_read_runs")
        state = pedgen.random_state(rng, P_I)
        cache = K.new_cache()
        seed_numba(int(rng.integers(1, 2**31 - 1)))
        for it in range(8):
            kw = K._common(state, cache)
            PM.compound_step(sample_children=K.children, step_type=int(rng.integers(0, 2)), **kw)
            for pi in range(len(K.pairs)):
                PM.pair_allele_swap_step(**K.swap_args(state, pi, cache))
        col.case({"kind": "pedcache", "ped": pedgen.pack(P_I), "r": r}, nontrivial=True)
        # every value the cache now SERVES (key format is the implementation's business): ask the real cached wrapper
        # for every genotype of every sample and compare with the fresh value for that sample's own reads
        from mchap.pedigree import likelihood as PLK
        import itertools as _it

        served_bad = False
        for smp in range(len(P_I["ploidy"])):
            ploidy = int(P_I["ploidy"][smp])
            keep = P_I["counts"][smp] > 0
            gl = list(_it.combinations_with_replacement(range(len(P_I["haps"])), ploidy))
            if len(gl) > 300:
                gl = [gl[i] for i in rng.permutation(len(gl))[:300]]
            for g in gl:
                got = float(PLK.log_likelihood_alleles_cached(P_I["reads"][smp][keep], P_I["counts"][smp][keep], P_I["haps"], smp, np.array(g, dtype=np.int16), cache))
                want = J.llk(int(smp), tuple(g))
                col.count("ped_cache_entries_checked")
                if not llk_close(got, want):
                    col.violation("cache-holds-wrong-likelihood", "pedigree cache serves %.12g for (sample %d, genotype %s) but that sample's own reads give %.12g [%s; distinct reads per sample %s]"
                                  % (got, smp, g, want, P_I["name"], nreads.tolist()), {"pedigree": pedgen.pack(P_I)})
                    served_bad = True
                    break
            if served_bad:
                break
        # ---- call (also pooled / high ploidy genotypes with few haplotypes)
        from mchap.calling import likelihood as CLK

        many = rng.random() < 0.25
        if many:
            # session 4: pooled / high ploidy AND hundreds of known haplotypes (a genotype no longer fits a packed 64-bit key)
            ploidy = int(rng.choice([8, 10, 12]))
            n_h = int(rng.choice([70, 130, 300, 400]))
            codes = rng.permutation(512)[:n_h]
            haps = np.array([[(int(c_) >> j) & 1 for j in range(9)] for c_ in codes], dtype=np.int8)
            na = np.full(9, 2)
            col.count("call_cache_high_ploidy_many_haplotypes_runs")
        elif rng.random() < 0.3:
            ploidy = int(rng.choice([8, 10, 12]))
            haps, na = gen.gen_haplotype_set(rng, int(rng.integers(2, 4)), int(rng.integers(1, 4)))
        else:
            ploidy = int(rng.integers(2, 5))
            haps, na = gen.gen_haplotype_set(rng, int(rng.integers(2, 7)), int(rng.integers(1, 5)))
        creads = gen.gen_reads_from_haps(rng, haps[rng.integers(0, len(haps), size=ploidy)], int(rng.integers(1, 12)), na, n_nucl=int(max(2, na.max())))
        ccounts = rng.integers(1, 4, size=len(creads)).astype(np.int64)
        Mx = M.hap_read_matrix(creads, haps)
        d = Dict.empty(key_type=types.int64, value_type=types.float64)
        d[-1] = np.nan
        g = np.sort(rng.integers(0, len(haps), size=ploidy)).astype(np.int32)
        for it in range(30):
            CM.compound_step(g, haps, creads, ccounts, 0.1, None, d, int(rng.integers(0, 2)))
        if many:
            # the space cannot be listed: the sampler's own state, its single-allele neighbours (what a sweep looks up) and random genotypes
            gl = [tuple(sorted(int(a) for a in g))]
            for _k in range(300):
                base_g = list(gl[int(rng.integers(len(gl)))]) if rng.random() < 0.7 else [int(a) for a in rng.integers(0, len(haps), size=ploidy)]
                base_g[int(rng.integers(ploidy))] = int(rng.integers(len(haps)))
                gl.append(tuple(sorted(base_g)))
        else:
            gl = list(_it.combinations_with_replacement(range(len(haps)), ploidy))
            if len(gl) > 400:
                gl = [gl[i] for i in rng.permutation(len(gl))[:400]]
        if ploidy >= 8:
            col.count("call_cache_high_ploidy_runs")
        for gg in gl:
            got = float(CLK.log_likelihood_alleles_cached(creads, ccounts, haps, np.array(gg, dtype=np.int32), d))
            want = M.log_likelihood_alleles_fast(Mx, list(gg), ccounts)
            col.count("call_cache_entries_checked")
            if not llk_close(got, want):
                col.violation("cache-holds-wrong-likelihood", "call cache serves %.12g for genotype %s (ploidy %d, %d haplotypes), fresh %.12g" % (got, gg, ploidy, len(haps), want), {"haps": haps.tolist()})
                break
        if r == 0 and spec["shard"] == 30:
            col.sample({"pedigree_cache_entries": len(cache), "scenario": P_I["name"], "distinct_reads_per_sample": nreads.tolist()})


def unrank(i, ploidy):
    out = [0] * ploidy
    rem = i
    for pos in range(ploidy, 0, -1):
        a = 0
        while math.comb(a + 1 + pos - 1, pos) <= rem:
            a += 1
        out[pos - 1] = a
        rem -= math.comb(a + pos - 1, pos)
    return out


# ---------------------------------------------------------------------------
# cli: the real `mchap assemble` with every --mcmc-llk-cache-threshold setting


def run_cli(tier, seed, spec, col):
    """The public switch of the assemble cache is --mcmc-llk-cache-threshold (-1 off, 0 always, t: on when ploidy x SNVs x
    distinct reads > t).  The records of a run must not depend on it (same --mcmc-seed), with and without tempering."""
    import os
    import shutil

    from vlib import cli, datasets, env

    rng = gen.rng_for(seed, ID, spec["shard"], 0)
    root = env.workdir("c09-%s" % spec["name"])
    shutil.rmtree(root, ignore_errors=True)
    ds = datasets.make_dataset(rng, root, n_samples=4, n_loci=int(rng.integers(3, 6)), ploidy=[2, 4, 6], depth=(2, 30), contig_len=700,
                               snv_range=(2, 7), hostile=0.1, err=0.01)
    pl = os.path.join(root, "ploidy.txt")
    with open(pl, "w") as fh:
        for smp in ds.samples:
            fh.write("%s\t%d\n" % (smp, ds.ploidy[smp]))
    tfile = os.path.join(root, "temps.txt")
    with open(tfile, "w") as fh:  # per-sample ladders of different length; the last sample is left at the default
        for i, smp in enumerate(ds.samples[:-1]):
            fh.write("\t".join([smp] + ["%.2f" % t for t in ([0.2, 0.5, 1.0], [0.6, 1.0], [0.1, 0.3, 0.6, 1.0])[i % 3]]) + "\n")
    tempers = [[], ["--mcmc-temperatures", "0.25", "0.5", "1.0"], ["--mcmc-temperatures", tfile]]
    thresholds = [-1, 0, int(rng.integers(10, 60)), 100, int(rng.integers(150, 2000)), 10 ** 6]
    for ti, temper in enumerate(tempers):
        for mseed in (0, 11):
            if ti and mseed:
                continue
            outs = {}
            for thr in thresholds:
                argv = ["assemble", "--targets", ds.bed, "--variants", ds.vcf, "--reference", ds.fasta, "--bam"] + ds.bams + [
                    "--ploidy", pl, "--mcmc-steps", "150", "--mcmc-burn", "50", "--mcmc-seed", str(mseed), "--inbreeding", "0.1",
                    "--mcmc-llk-cache-threshold", str(thr)] + temper
                out, exc = cli.run_inproc(argv)
                case = {"kind": "cli", "seed": seed, "shard": spec["shard"], "threshold": thr, "temper": ti, "mcmc_seed": mseed}
                col.case(case, nontrivial=thr != -1)
                if exc is not None:
                    col.violation("program-fails-with-cache-setting", "assemble --mcmc-llk-cache-threshold %d %s raised %r" % (thr, temper[:1], exc), case)
                    continue
                outs[thr] = cli.record_lines(out)
            if -1 not in outs:
                continue
            for thr, recs in outs.items():
                if thr == -1:
                    continue
                col.count("cli_threshold_settings_compared")
                if ti:
                    col.count("cli_tempered_settings")
                col.count("cli_records_compared", len(recs))
                if recs != outs[-1]:
                    diff = [(a[:140], b[:140]) for a, b in zip(outs[-1], recs) if a != b][:1]
                    col.violation("cache-changes-trajectory", "mchap assemble: records with --mcmc-llk-cache-threshold %d differ from those with the cache disabled (-1)%s: %s"
                                  % (thr, " under tempering" if ti else "", diff or "different number of records"),
                                  {"kind": "cli", "seed": seed, "shard": spec["shard"], "threshold": thr, "temper": ti, "mcmc_seed": mseed})
    cli.relax_warnings()
    shutil.rmtree(root, ignore_errors=True)


def run_refit(tier, seed, spec, col):
    """A sampler OBJECT fitted twice, on different reads: whatever it caches may not outlive a fit.  The second fit of one
    DenovoMCMC / PedigreeCallingMCMC object must be bit-identical to the fit of a fresh object with the same seed, and the
    assemble trace's log-likelihoods must be those of the second read set."""
    from mchap.assemble.mcmc import DenovoMCMC
    from mchap.pedigree.classes import PedigreeCallingMCMC

    monitors.ensure_compiled()
    for r in range(spec["runs"]):
        rng = gen.rng_for(seed, ID, spec["shard"], r)
        # ---- assemble
        I = make_instance(rng, small=True)
        J = make_instance(rng, small=True)
        n_alleles = [int(x) for x in I["n_alleles"]]
        truth = gen.gen_genotype(rng, I["ploidy"], I["n_alleles"], dup_rate=0.3)
        n2 = int(rng.integers(3, 12))
        reads2 = gen.gen_reads_from_haps(rng, truth, n2, I["n_alleles"], n_nucl=I["reads"].shape[2], gap_rate=0.2, err=0.01, flip=0.05)
        counts2 = gen.gen_counts(rng, n2)
        if rng.random() < 0.5:
            # reads that overlap the locus without covering a single SNV (all gaps), anywhere in the array, with their own
            # counts: reads and counts are parallel arrays, whatever fit() does to one it must do to the other
            k_gap = int(rng.integers(1, 3))
            for _ in range(k_gap):
                at = int(rng.integers(0, len(reads2) + 1)) if rng.random() < 0.5 else 0
                reads2 = np.insert(reads2, at, np.nan, axis=0)
                c_new = int(rng.integers(1, 6))
                counts2 = None if counts2 is None else np.insert(counts2, at, c_new)
            if counts2 is not None and len(set(int(c) for c in counts2)) == 1:
                counts2 = counts2.copy()
                counts2[-1] += 3
            col.count("refit_read_sets_with_all_gap_reads")
        for thr in (0, -1):
            s0 = int(rng.integers(0, 2**31 - 1))
            kw = dict(ploidy=I["ploidy"], n_alleles=n_alleles, inbreeding=I["F"], steps=40, chains=2, fix_homozygous=1.5, random_seed=s0,
                      temperatures=tuple(float(t) for t in I["temps"]), llk_cache_threshold=thr)
            case = {"kind": "refit", "sampler": "DenovoMCMC", "seed": seed, "shard": spec["shard"], "run": r, "cache_threshold": thr}
            col.case("REFIT-A|%d|%d|%d" % (spec["shard"], r, thr), nontrivial=thr == 0)
            try:
                m = DenovoMCMC(**kw)
                m.fit(I["reads"], read_counts=I["counts"])
                t2 = m.fit(reads2, read_counts=counts2)
                fresh = DenovoMCMC(**kw).fit(reads2, read_counts=counts2)
            except AssertionError:
                col.count("fits_aborted_by_invalid_initial_allele")  # DESIGN.md 8.6
                continue
            col.count("refit_assemble_compared")
            if not (np.array_equal(np.asarray(t2.genotypes), np.asarray(fresh.genotypes)) and np.array_equal(np.asarray(t2.llks), np.asarray(fresh.llks), equal_nan=True)):
                col.violation("refit-depends-on-earlier-fit", "second fit() of one DenovoMCMC object (other reads, cache threshold %d) differs from a fresh object with the same seed" % thr, case)
                continue
            orc = Oracle(reads2, counts2)
            g2, l2 = np.asarray(t2.genotypes), np.asarray(t2.llks, dtype=float)
            for ch in range(g2.shape[0]):
                for st in range(0, g2.shape[1], 3):
                    col.count("refit_llk_cells_checked")
                    if not llk_close(float(l2[ch, st]), orc.llk(g2[ch, st])):
                        col.violation("carried-likelihood-differs-from-recomputed", "second fit() of one DenovoMCMC object: chain %d step %d carries %.10g, the reads of this fit give %.10g"
                                      % (ch, st, float(l2[ch, st]), orc.llk(g2[ch, st])), case)
                        break
        # ---- pedigree
        P = pedgen.make_pedigree(rng, None)
        Q = pedgen.make_pedigree(rng, None)
        reads_b = P["reads"].copy()
        counts_b = P["counts"].copy()
        # second data set: the same pedigree, reads of the samples rotated (so every sample gets other reads)
        reads_b = np.roll(reads_b, 1, axis=0)
        counts_b = np.roll(counts_b, 1, axis=0)
        s0 = int(rng.integers(0, 2**31 - 1))
        kw = dict(sample_ploidy=P["ploidy"], sample_inbreeding=np.zeros(len(P["ploidy"])), sample_parents=P["parents"], gamete_tau=P["tau"], gamete_lambda=P["lam"],
                  gamete_error=np.clip(P["err"], 0.01, 1.0), haplotypes=P["haps"], frequencies=P["freqs"], steps=30, annealing=10, chains=2, random_seed=s0)
        case = {"kind": "refit", "sampler": "PedigreeCallingMCMC", "seed": seed, "shard": spec["shard"], "run": r, "pedigree": P["name"]}
        col.case("REFIT-P|%d|%d" % (spec["shard"], r), nontrivial=True)
        try:
            m = PedigreeCallingMCMC(**kw)
            m.fit(P["reads"], P["counts"])
            t2 = m.fit(reads_b, counts_b)
            fresh = PedigreeCallingMCMC(**kw).fit(reads_b, counts_b)
        except Exception as ex:  # noqa: BLE001
            col.count("refit_pedigree_raised")
            col.add_to_set("refit_pedigree_exceptions", "%s: %s" % (type(ex).__name__, str(ex)[:100]))
            continue
        col.count("refit_pedigree_compared")
        if not np.array_equal(np.asarray(t2.genotypes), np.asarray(fresh.genotypes)):
            col.violation("refit-depends-on-earlier-fit", "second fit() of one PedigreeCallingMCMC object (other reads) differs from a fresh object with the same seed [%s]" % P["name"], case)


def run_shard(tier, seed, spec, col):
    if spec["kind"] == "refit":
        return run_refit(tier, seed, spec, col)
    {"trace": run_trace, "nojit": run_nojit, "amap": run_amap, "dict": run_dict, "cli": run_cli}[spec["kind"]](tier, seed, spec, col)


def replay(obj, col):
    c = obj["case"]
    if c and "instance" in c:
        monitors.ensure_compiled()
        I = unpack(c["instance"])
        orc = Oracle(I["reads"], I["counts"])
        s, steps = c.get("seed", 1), c.get("steps", 100)
        g_off, l_off = run_assembler(I, steps, -1, s)
        g_on, l_on = run_assembler(I, steps, 0, s)
        if not (np.array_equal(g_off, g_on) and np.array_equal(l_off, l_on)):
            col.violation("cache-changes-trajectory", "trajectories differ", c)
        for gt, lt in ((g_off, l_off), (g_on, l_on)):
            for t in range(gt.shape[0]):
                for i in range(gt.shape[1]):
                    if not llk_close(float(lt[t, i]), orc.llk(gt[t, i])):
                        col.violation("carried-likelihood-differs-from-recomputed", "temp %d step %d" % (t, i), c)
                        return
    else:
        col.inconclusive_note("replay for this C09 case kind: rerun the tier with the same VERIF_SEED")
