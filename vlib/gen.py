"""Seeded generators of function-level instances (reads, genotypes, haplotype sets)."""

import itertools

import numpy as np


def rng_for(seed, prop, shard, case=0):
    pid = int(prop[1:]) if isinstance(prop, str) else int(prop)
    return np.random.default_rng([int(seed), pid, int(shard), int(case)])


def gen_reads(rng, n_reads, n_alleles, n_nucl=None, gap_rate=0.15, style=None, err_choices=(0.001, 0.01, 0.05, 0.2)):
    """Probabilistic read tensor (n_reads, n_pos, n_nucl).

    style 'mchap': called allele 1-e, other nucleotides e/3, entries beyond n_alleles[j] zero.
    style 'dirichlet': arbitrary probabilities within the alleles, zero beyond.
    style 'hard': 0/1 calls (creates exact zero likelihoods -> -inf).
    NaN rows are gaps.
    """
    n_alleles = np.asarray(n_alleles, dtype=int)
    n_pos = len(n_alleles)
    if n_nucl is None:
        n_nucl = int(max(n_alleles.max() if n_pos else 2, 2))
    if style is None:
        style = rng.choice(["mchap", "mchap", "dirichlet", "hard"], p=[0.5, 0.2, 0.25, 0.05])
    reads = np.zeros((n_reads, n_pos, n_nucl), dtype=float)
    for r in range(n_reads):
        for j in range(n_pos):
            if rng.random() < gap_rate:
                reads[r, j, :] = np.nan
                continue
            na = n_alleles[j]
            if style == "mchap":
                e = rng.choice(err_choices)
                a = rng.integers(na)
                reads[r, j, :na] = e / 3
                reads[r, j, a] = 1 - e
            elif style == "dirichlet":
                reads[r, j, :na] = rng.dirichlet(np.ones(na) * 0.7)
            else:
                a = rng.integers(na)
                reads[r, j, a] = 1.0
    return reads


def gen_reads_from_haps(rng, haps, n_reads, n_alleles, n_nucl=None, gap_rate=0.2, err=0.01, flip=0.02):
    """Reads drawn from given haplotypes (informative data), MCHap style encoding."""
    haps = np.asarray(haps, dtype=int)
    n_alleles = np.asarray(n_alleles, dtype=int)
    n_pos = haps.shape[1]
    if n_nucl is None:
        n_nucl = int(max(n_alleles.max() if n_pos else 2, 2))
    reads = np.zeros((n_reads, n_pos, n_nucl), dtype=float)
    for r in range(n_reads):
        h = haps[rng.integers(len(haps))]
        for j in range(n_pos):
            if rng.random() < gap_rate:
                reads[r, j, :] = np.nan
                continue
            na = n_alleles[j]
            a = h[j]
            if rng.random() < flip:
                a = rng.integers(na)
            reads[r, j, :na] = err / 3
            reads[r, j, a] = 1 - err
    return reads


def gen_counts(rng, n_reads, mode=None, high=4):
    if mode is None:
        mode = rng.choice(["none", "ones", "rand"])
    if mode == "none":
        return None
    if mode == "ones":
        return np.ones(n_reads, dtype=np.int64)
    return rng.integers(1, high, size=n_reads).astype(np.int64)


def gen_genotype(rng, ploidy, n_alleles, dup_rate=0.4):
    """Random genotype (ploidy, n_pos) int8 with a good chance of duplicated haplotypes."""
    n_alleles = np.asarray(n_alleles, dtype=int)
    g = np.zeros((ploidy, len(n_alleles)), dtype=np.int8)
    for h in range(ploidy):
        if h > 0 and rng.random() < dup_rate:
            g[h] = g[rng.integers(h)]
        else:
            for j, na in enumerate(n_alleles):
                g[h, j] = rng.integers(na)
    return g


def all_haplotypes(n_alleles):
    return [tuple(h) for h in itertools.product(*[range(int(n)) for n in n_alleles])]


def all_multisets(items, k):
    return list(itertools.combinations_with_replacement(items, k))


def gen_haplotype_set(rng, n_haps, n_pos, n_alleles=None):
    """Distinct haplotypes (n_haps, n_pos) int8; first row all-zero (reference)."""
    if n_alleles is None:
        n_alleles = rng.integers(2, 4, size=n_pos)
    allh = all_haplotypes(n_alleles)
    n_haps = min(n_haps, len(allh))
    rest = [h for h in allh if any(h)]
    idx = rng.permutation(len(rest))[: n_haps - 1]
    haps = [tuple([0] * n_pos)] + [rest[i] for i in idx]
    return np.array(haps, dtype=np.int8).reshape(len(haps), n_pos), np.asarray(n_alleles)


def gen_frequencies(rng, n, mode=None):
    if mode is None:
        mode = rng.choice(["none", "flat", "skew", "zeros", "rand"])
    if mode == "none":
        return None
    if mode == "flat":
        return np.full(n, 1.0 / n)
    if mode == "skew":
        f = rng.dirichlet(np.ones(n) * 0.3)
        f = np.maximum(f, 1e-6)
        return f / f.sum()
    if mode == "zeros" and n >= 2:
        f = rng.dirichlet(np.ones(n))
        k = rng.integers(1, n)
        f[rng.permutation(n)[:k]] = 0.0
        return f / f.sum()
    f = rng.dirichlet(np.ones(n))
    return f / f.sum()


def gen_inbreeding(rng, modes=(0.0, 0.0, 0.01, 0.1, 0.5, 0.9)):
    if rng.random() < 0.3:
        return float(rng.uniform(0.001, 0.98))
    return float(rng.choice(modes))
