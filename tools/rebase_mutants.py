#!/venv/bin/python
"""tools/rebase_mutants.py <mutant.diff>...
Some mutants were written while a candidate repair of a genuine defect was applied to a scratch tree, so their diffs carry
the repair's hunks too and no longer apply to the repaired /repo.  This rewrites each such diff against the current /repo:
hunks that are already present (reverse-apply cleanly) are dropped, the rest is applied to a scratch copy and re-diffed."""
import os, re, shutil, subprocess, sys, tempfile

def split(diff):
    files, cur = [], None
    for line in diff.splitlines(True):
        if line.startswith("--- "):
            cur = {"head": [line], "hunks": []}
            files.append(cur)
        elif line.startswith("+++ "):
            cur["head"].append(line)
        elif line.startswith("@@"):
            cur["hunks"].append([line])
        elif cur and cur["hunks"]:
            cur["hunks"][-1].append(line)
    return files

def run(cmd, cwd, inp):
    return subprocess.run(cmd, cwd=cwd, input=inp, text=True, capture_output=True)

for path in sys.argv[1:]:
    diff = open(path).read()
    tmp = tempfile.mkdtemp(prefix="mchap-rebase-", dir="/tmp")
    try:
        subprocess.run(["rsync", "-a", "--exclude", ".git", "--exclude", "__pycache__", "/repo/mchap", tmp + "/"], check=True)
        kept = 0
        for f in split(diff):
            for h in f["hunks"]:
                one = "".join(f["head"]) + "".join(h)
                if run(["patch", "--dry-run", "-R", "-s", "-p1", "-F0"], tmp, one).returncode == 0:
                    continue  # already in the tree (part of a committed fix)
                r = run(["patch", "-s", "-p1", "-F3", "--no-backup-if-mismatch"], tmp, one)
                if r.returncode != 0:
                    print("FAILED", path, r.stdout[-200:]); kept = -1; break
                kept += 1
            if kept < 0:
                break
        if kept <= 0:
            print("NOTHING-LEFT" if kept == 0 else "SKIP", path); continue
        out = subprocess.run(["diff", "-ru", "--exclude=__pycache__", "--exclude=*.orig", "--exclude=*.rej", "/repo/mchap", tmp + "/mchap"], capture_output=True, text=True).stdout
        out = re.sub(r"^diff -ru.*\n", "", out, flags=re.M)
        out = re.sub(r"^--- /repo/(\S+).*$", r"--- a/\1", out, flags=re.M)
        out = re.sub(r"^\+\+\+ " + re.escape(tmp) + r"/(\S+).*$", r"+++ b/\1", out, flags=re.M)
        open(path, "w").write(out)
        print("REBASED", path, "hunks kept:", kept)
    finally:
        shutil.rmtree(tmp, ignore_errors=True)
