#!/bin/bash
# tools/ingest_seeded.sh <tag e.g. C06g> <kebab-name> <Cxx> [Cxx ...]
# Copies a sub-agent's deliverables from /tmp/wt-<tag>/SEEDED into seeded/<tag>-<name>/, removes the agent's worktree,
# then confirms the change independently (tools/verify_seeded.sh: demo both ways, the repository suite with the change,
# the named checks against a patched scratch copy).  Log: .work/ingest-<tag>.log
tag="$1"; name="$2"; shift 2
cd /verif; mkdir -p .work "seeded/$tag-$name"
cp /tmp/wt-$tag/SEEDED/patch.diff /tmp/wt-$tag/SEEDED/NOTES.md "seeded/$tag-$name/" 2>/dev/null
cp /tmp/wt-$tag/SEEDED/demo*.py "seeded/$tag-$name/" 2>/dev/null
git -C /repo worktree remove --force /tmp/wt-$tag 2>/dev/null; rm -rf /tmp/wt-$tag
tools/verify_seeded.sh "seeded/$tag-$name" "${SUITE:-mchap/tests}" "$@" > .work/ingest-$tag.log 2>&1
echo "INGESTED $tag: $(grep -E '^(DEMO|CAUGHT|MISSED|INCONCLUSIVE|PATCH-FAILED)|suite:' .work/ingest-$tag.log | tr '\n' '|' | cut -c1-900)"
