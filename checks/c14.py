"""C14 - posterior summaries are exact functionals of the retained trace.

Monitors (return values of the real classes on generated traces and on traces the real samplers emit)
  burn / split / individual / relabel          -> which steps and columns the returned trace holds
  posterior / mode / mode_genotype_support / allele_frequencies / posterior_frequencies / as_array
  replicate_incongruence
  every step of CallingMCMC.fit and PedigreeCallingMCMC.fit traces (sortedness, padding last)
Oracle: collections.Counter over canonical multisets (pure Python, never imports mchap) of the steps that remain
after removing exactly n steps from the start of every chain; every summary is recomputed from that Counter.
Ties (mode, mode support, best genotype of a support) and thresholds hit within 1e-9: any answer accepted.
"""

import hashlib
import itertools
from collections import Counter

import numpy as np

from vlib import gen, pedgen
from vlib.oracles import model as M

ID = "C14"
TECHNIQUE = "runtime monitoring: return values of the real trace / posterior classes observed on generated traces (random within-step row order) and on traces emitted by the real call and pedigree samplers; independent Counter-over-canonical-multisets oracle; program level: trace captured at CallingMCMC.fit inside mchap call, printed GT/GPM/SPM/MCI/AFP/ACP/AOP vs the functionals of the steps retained after --mcmc-burn"
LEVEL = "exploration"
LEVEL_TEXT = (
    "Exploration: on generated traces (1-4 chains x 1-400 steps x ploidy 1-6 x 0-6 sites for haplotype traces with random "
    "within-step row order, 1-8 alleles for allele traces, 1-5 individuals of mixed ploidy for pedigree traces; few distinct "
    "genotypes so that repeats and exact ties are common, plus fully random ones) and on short traces emitted by the real "
    "CallingMCMC / PedigreeCallingMCMC samplers (both step types) the monitors observed: burn(n) returns exactly steps n.. of "
    "every chain (burn 0..steps-1), individual(i) exactly that individual's unpadded columns, every sampler step sorted with "
    "padding last, and posterior / mode / mode support / allele frequencies, counts and occurrence / G-ordered array / "
    "chain-incongruence flag equal to the same functionals recomputed from a Counter over canonical multisets of the "
    "retained steps. Held on what was observed; traces outside these bounds were not run."
)
LEVEL_TEXT += ' Session 3: pooled ploidies (8-256) in the generated traces, and query-order variants - the incongruence flag and the per-chain split asked of a fresh (burned or unburned) trace before any posterior() was computed on it.'
LEVEL_NOTE = (
    "Trusts collections.Counter, Python tuple sorting and the VCF genotype index in vlib/oracles/model.py (cross-checked against "
    "explicit enumeration). Tolerances: 1e-12 on count/N probabilities, 1e-9 on accumulated sums; ties and thresholds within "
    "1e-9 accept any answer; the incongruence flag accepts 0 or 1 when chains agree on the support but differ in dosage "
    "(statement silent). burn == steps (empty trace) is undocumented and not run."
)
RULE = (
    "case = one (trace, burn-in, threshold) evaluation of all summaries; traces are drawn per (seed, shard, index) from a "
    "small pool of genotypes (shared or chain-specific weights, exact cycles for ties) or fully at random; non-trivial = "
    "the retained steps hold >= 2 distinct genotypes or >= 2 chains; distinct by hash of (trace bytes, burn, threshold)"
)
LEVEL_TEXT += ' At program level the full trace of every sample was captured inside mchap call (1-4 chains, several --mcmc-burn values and incongruence thresholds, masked alleles) and the printed GT/GPM/SPM/MCI/AFP/ACP/AOP equal the functionals of the retained steps to the printed precision; allele_frequencies is queried repeatedly on one object in varying order.'
ASSUMPTIONS = [
    "allele traces given to GenotypeAllelesMultiTrace are sorted at every step (the samplers establish this; monitored separately on real sampler output)",
    "the CNV value 2 of the incongruence flag means: the compared chain modes jointly hold more than ploidy distinct haplotypes/alleles",
    "a chain takes part in the incongruence comparison iff its mode-support probability >= threshold",
    "empty traces (burn == steps) have no documented behaviour and are skipped",
]

TOL_P = 1e-12
TOL_S = 1e-9
BAND = 1e-9
FAMILIES = ("hap", "allele", "ped", "realcall", "realped")
FCODE = {f: i for i, f in enumerate(FAMILIES)}
PED_REAL = ["mixed_4x2_3", "mixed_2x4_3", "unreduced", "mixed_then_child", "mixed_4x2_3", "mixed_2x4_3", "trio2", "trio4", "duo4", "halfsibs"]


# ---------------------------------------------------------------------------
# plan


def per_shard(tier):
    if tier == "quick":
        return {"hap": 100, "allele": 70, "ped": 14, "realcall": 4, "realped": 2}
    return {"hap": 5000, "allele": 4000, "ped": 700, "realcall": 150, "realped": 60}


def plan(tier, seed):
    specs = [{"name": "s%02d" % i, "shard": i, "timeout": 1500 if tier == "quick" else 6000} for i in range(16)]
    specs += [{"name": "prog%d" % i, "kind": "prog", "shard": 40 + i, "datasets": 6 if tier == "quick" else 150, "timeout": 6000} for i in range(4)]
    return specs


def required(tier):
    k = 1 if tier == "quick" else 10
    return {
        "traces_hap": 1400 * k, "traces_allele": 1000 * k, "traces_ped": 200 * k, "traces_realcall": 100 * k, "traces_realped": 50 * k,
        "burn_checked": 4000 * k, "burn_multichain_positive": 1500 * k, "posterior_checked": 6000 * k,
        "mode_checked": 4000 * k, "support_checked": 4000 * k, "support_with_dosage_variants": 400 * k,
        "support_differs_from_mode_genotype_support": 40 * k,
        "allele_frequencies_checked": 3000 * k, "repeated_unit_in_genotype": 2500 * k, "posterior_frequencies_checked": 2000 * k, "posterior_frequencies_order_variants": 300 * k,
        "second_pass_on_same_objects": 500 * k, "incongruence_queried_before_posterior": 500 * k,
        "prog_traces_checked": 100 * k, "prog_modes_checked": 60 * k, "prog_allele_vectors_checked": 200 * k, "prog_mci_checked": 80 * k,
        "prog_traces_relabelled_after_masking": 5 * k,
        "as_array_checked": 2000 * k, "incongruence_checked": 4000 * k, "incongruence_decided_0": 2000 * k,
        "incongruence_decided_1": 300 * k, "incongruence_decided_2": 300 * k, "individual_checked": 600 * k,
        "individual_padded_checked": 250 * k,
        "order_variant_traces": 500 * k, "zero_site_traces": 20 * k, "mode_ties": 500 * k, "support_ties": 500 * k,
        "real_call_steps_sorted": 5000 * k, "real_call_steps_heterozygous": 2500 * k, "real_pedigree_steps_sorted": 5000 * k,
        "real_pedigree_padded_steps": 1000 * k, "split_checked": 900 * k, "relabel_checked": 300 * k,
    }


# ---------------------------------------------------------------------------
# oracle (pure Python; no mchap)


def hap_key(rows):
    """canonical multiset of a haplotype genotype given as nested lists."""
    return tuple(sorted(tuple(r) for r in rows))


def allele_key(vals):
    return tuple(sorted(vals))


class Emp:
    """Empirical distribution of canonical genotypes over retained steps; chains = list of lists of keys."""

    def __init__(self, chains):
        self.chains = chains
        self.per_chain = [Counter(c) for c in chains]
        self.counts = Counter()
        for c in self.per_chain:
            self.counts.update(c)
        self.n = sum(len(c) for c in chains)
        self.ploidy = len(next(iter(self.counts)))

    def prob(self, g):
        return self.counts.get(g, 0) / self.n

    def max_count(self):
        return max(self.counts.values())

    def supports(self):
        return support_counts(self.counts)

    def unit_stats(self):
        """distinct haplotype/allele -> (posterior mean copy number, occurrence probability)."""
        cnt, occ = Counter(), Counter()
        for g, c in self.counts.items():
            for a, d in Counter(g).items():
                cnt[a] += c * d
                occ[a] += c
        return {a: (cnt[a] / self.n, occ[a] / self.n) for a in cnt}


def support_counts(counter):
    d = Counter()
    for g, c in counter.items():
        d[frozenset(g)] += c
    return d


def incongruence_allowed(per_chain, ploidy, thr):
    """Set of admissible flags, or None when too many tie combinations.  Second value: dosage-only ambiguity used."""
    options = []
    best = []
    for cnt in per_chain:
        n = sum(cnt.values())
        sc = support_counts(cnt)
        mx = max(sc.values())
        opts = []
        for S, c in sc.items():
            if c != mx:
                continue
            p = c / n
            if p >= thr + BAND:
                opts.append(S)
            elif p < thr - BAND:
                opts.append(None)
            else:
                opts.extend([S, None])
        # de-duplicate None
        seen, o2 = set(), []
        for o in opts:
            if o not in seen:
                seen.add(o)
                o2.append(o)
        options.append(o2)
        bb = {}
        for S in sc:
            if sc[S] == mx:
                m = max(c for g, c in cnt.items() if frozenset(g) == S)
                bb[S] = frozenset(g for g, c in cnt.items() if frozenset(g) == S and c == m)
        best.append(bb)
    ncomb = 1
    for o in options:
        ncomb *= len(o)
    if ncomb > 512:
        return None, False
    allowed = set()
    dosage_only = False
    for combo in itertools.product(*options):
        kept = [(i, S) for i, S in enumerate(combo) if S is not None]
        distinct = {S for _, S in kept}
        if len(distinct) <= 1:
            allowed.add(0)
            if len(kept) >= 2:
                bs = {best[i][S] for i, S in kept}
                if len(bs) > 1 or any(len(b) > 1 for b in bs):
                    # same support in every compared chain, different (or tied) most probable dosage: statement silent
                    allowed.add(1)
                    dosage_only = True
        else:
            union = set()
            for _, S in kept:
                union |= S
            allowed.add(2 if len(union) > ploidy else 1)
    return allowed, dosage_only


_index_ok = {}


def vcf_index(g, n_alleles):
    """VCF G-field index of sorted genotype g, cross-checked once per space against explicit enumeration."""
    k = (n_alleles, len(g))
    if k not in _index_ok and M.n_genotypes(*k) <= 20000:   # larger spaces: closed form only (cross-checked on the small ones)
        gs = M.genotypes_vcf_order(n_alleles, len(g))
        assert all(M.genotype_index(x) == i for i, x in enumerate(gs)) and len(gs) == M.n_genotypes(*k)
        _index_ok[k] = True
    return M.genotype_index(g)


# ---------------------------------------------------------------------------
# trace generators


def gen_sizes(rng):
    chains = int(rng.integers(1, 5))
    if rng.random() < 0.75:
        steps = int(rng.choice([1, 2, 3, 4, 5, 6, 8, 10, 12, 20, 30, 60, 100, 200, 400]))
    else:
        steps = int(rng.integers(1, 401))
    return chains, steps


def index_trace(rng, chains, steps, k, style):
    """(chains, steps) indices into a pool of k genotypes."""
    if style == "cycle":
        shift = rng.integers(0, k, size=chains)
        idx = (np.arange(steps)[None, :] + shift[:, None]) % k
        if rng.random() < 0.5:
            idx = rng.permuted(idx, axis=1)
        return idx
    idx = np.empty((chains, steps), dtype=int)
    shared = rng.dirichlet(np.ones(k) * float(rng.choice([0.3, 1.0, 5.0])))
    mode = str(rng.choice(["shared", "own", "dominant", "dominant"]))
    for c in range(chains):
        if mode == "shared":
            w = shared
        elif mode == "own":
            w = rng.dirichlet(np.ones(k) * 0.5)
        else:
            w = np.full(k, 1e-9)
            d = int(rng.integers(k))
            rest = rng.dirichlet(np.ones(k))
            top = float(rng.uniform(0.45, 0.97))
            w = rest * (1 - top)
            w[d] += top
        idx[c] = rng.choice(k, size=steps, p=w / w.sum())
    return idx


HIGH_ALLELE_PLOIDIES = [8, 12, 20, 64, 127, 128, 129, 200, 256]
HIGH_HAP_PLOIDIES = [8, 12, 20, 64, 128, 130, 200]


def gen_hap_trace(rng):
    chains, steps = gen_sizes(rng)
    ploidy = int(rng.integers(1, 7))
    if rng.random() < 0.05:
        ploidy = int(rng.choice(HIGH_HAP_PLOIDIES))   # pooled samples
        steps = min(steps, 100)
    n_pos = 0 if rng.random() < 0.04 else int(rng.integers(1, 7))
    n_all = rng.integers(2, 5, size=n_pos)
    style = str(rng.choice(["pool", "pool", "pool", "cycle", "random"]))
    if style == "random" and n_pos:
        hi = np.minimum(n_all, int(rng.choice([2, 2, 4])))
        G = rng.integers(0, hi, size=(chains, steps, ploidy, n_pos)).astype(np.int8)
    else:
        nh = int(rng.integers(1, min(ploidy + 2, 8) + 1))
        hp = np.array([[rng.integers(0, a) for a in n_all] for _ in range(nh)], dtype=np.int8).reshape(nh, n_pos)
        k = int(rng.integers(1, 7))
        pool = np.empty((k, ploidy, n_pos), dtype=np.int8)
        for j in range(k):
            m = int(rng.integers(1, nh + 1))
            sub = rng.permutation(nh)[:m]
            rows = list(sub[:ploidy]) if rng.random() < 0.6 else []
            while len(rows) < ploidy:
                rows.append(int(rng.choice(sub)))
            pool[j] = hp[np.array(rows, dtype=int)]
        G = pool[index_trace(rng, chains, steps, k, style)]
    # random within-step row order
    perm = np.argsort(rng.random((chains, steps, ploidy)), axis=2)
    G = np.take_along_axis(G, perm[..., None], axis=2)
    return np.ascontiguousarray(G)


def gen_allele_matrix(rng, chains, steps, ploidy, n_allele):
    style = str(rng.choice(["pool", "pool", "pool", "cycle", "random"]))
    if style == "random":
        G = rng.integers(0, n_allele, size=(chains, steps, ploidy))
    else:
        k = int(rng.integers(1, 7))
        pool = np.empty((k, ploidy), dtype=int)
        for j in range(k):
            m = int(rng.integers(1, n_allele + 1))
            sub = rng.permutation(n_allele)[:m]
            vals = list(sub[:ploidy]) if rng.random() < 0.6 else []
            while len(vals) < ploidy:
                vals.append(int(rng.choice(sub)))
            pool[j] = vals
        G = pool[index_trace(rng, chains, steps, k, style)]
    return np.sort(G, axis=-1)


def gen_allele_trace(rng):
    chains, steps = gen_sizes(rng)
    ploidy = int(rng.integers(1, 7))
    n_allele = int(rng.integers(1, 9))
    if rng.random() < 0.06:
        # pooled samples: copy numbers of one allele beyond 127 / 255 (few alleles, so that G-length arrays stay small)
        ploidy = int(rng.choice(HIGH_ALLELE_PLOIDIES))
        n_allele = int(rng.integers(1, 4)) if ploidy > 20 else int(rng.integers(1, 6))
        steps = min(steps, 120)
    G = gen_allele_matrix(rng, chains, steps, ploidy, n_allele)
    dtype = [np.int32, np.int32, np.int16, np.int8, np.int64][int(rng.integers(5))]
    return np.ascontiguousarray(G.astype(dtype)), n_allele


def gen_ped_trace(rng):
    chains, steps = gen_sizes(rng)
    steps = min(steps, 200)
    n_samples = int(rng.integers(1, 6))
    ploidies = rng.integers(1, 7, size=n_samples)
    n_allele = int(rng.integers(1, 9))
    mp = int(ploidies.max())
    T = np.full((chains, steps, n_samples, mp), -1, dtype=np.int16)
    for i, pl in enumerate(ploidies):
        T[:, :, i, :pl] = gen_allele_matrix(rng, chains, steps, int(pl), n_allele)
    return T, [int(p) for p in ploidies], n_allele


def tag_llks(chains, steps):
    return (np.arange(chains)[:, None] * 100000.0 + np.arange(steps)[None, :]).astype(np.float64)


def pick_burns(rng, steps):
    out = {0 if rng.random() < 0.4 else int(rng.integers(0, steps))}
    out.add(steps - 1 if rng.random() < 0.3 else int(rng.integers(0, steps)))
    return sorted(out)


def pick_threshold(rng, emp):
    """A threshold near what the chains actually reach (harness only; the oracle re-decides from scratch)."""
    r = rng.random()
    if r < 0.15:
        return 0.6
    if r < 0.25:
        return float(rng.uniform(0, 1))
    if r < 0.30:
        return float(rng.choice([0.0, 1.0]))
    tops = []
    for cnt in emp.per_chain:
        n = sum(cnt.values())
        tops.append((max(support_counts(cnt).values()), n))
    if r < 0.36:
        c, n = tops[int(rng.integers(len(tops)))]
        return c / n  # exactly on a chain's value: ambiguity band
    if r < 0.8:
        c, n = min(tops, key=lambda t: t[0] / t[1])
        return max(0.0, (c - 0.5) / n)  # every chain takes part
    c, n = tops[int(rng.integers(len(tops)))]
    return (c + (0.5 if rng.random() < 0.5 else -0.5)) / n


# ---------------------------------------------------------------------------
# the checks proper


class Ctx:
    def __init__(self, col, payload, what):
        self.col, self.payload, self.what = col, payload, what

    def v(self, mech, msg, **extra):
        self.col.violation(mech, "%s: %s" % (self.what, msg), dict(self.payload, **extra))


def short(x, n=400):
    s = repr(x)
    return s if len(s) <= n else s[:n] + "..."


def check_posterior(post, emp, keyf, cx):
    col = cx.col
    col.count("posterior_checked")
    G = post.genotypes
    p = np.asarray(post.probabilities, dtype=float)
    keys = [keyf(g.tolist()) for g in G]
    if len(keys) != len(p):
        cx.v("posterior-malformed", "%d genotypes but %d probabilities" % (len(keys), len(p)))
        return None
    dup = [k for k, c in Counter(keys).items() if c > 1]
    if dup:
        cx.v("posterior-lists-one-unordered-genotype-more-than-once", "the unordered genotype %s appears %d times among the %d reported genotypes (expected %d distinct)"
             % (short(dup[0], 200), Counter(keys)[dup[0]], len(keys), len(emp.counts)))
        return None
    if set(keys) != set(emp.counts):
        miss = [k for k in emp.counts if k not in set(keys)][:2]
        extra = [k for k in keys if k not in emp.counts][:2]
        cx.v("posterior-genotypes-differ-from-retained-steps", "missing %s, unexpected %s (retained steps hold %d distinct genotypes, reported %d)"
             % (short(miss, 200), short(extra, 200), len(emp.counts), len(keys)))
        return None
    got = dict(zip(keys, p.tolist()))
    for k, pi in got.items():
        if not abs(pi - emp.prob(k)) <= TOL_P:
            cx.v("posterior-probability-not-relative-frequency", "genotype %s reported %.15g but occurs in %d of the %d retained steps (%.15g)"
                 % (short(k, 200), pi, emp.counts[k], emp.n, emp.prob(k)))
            return None
    return got


def check_mode(g, p, emp, keyf, cx, name):
    cx.col.count("mode_checked")
    k = keyf(np.asarray(g).tolist())
    mx = emp.max_count()
    if sum(1 for c in emp.counts.values() if c == mx) > 1:
        cx.col.count("mode_ties")
    if k not in emp.counts or emp.counts[k] != mx:
        cx.v("mode-is-not-a-most-frequent-genotype", "%s returned %s (count %d) but the largest count among retained steps is %d of %d"
             % (name, short(k, 200), emp.counts.get(k, 0), mx, emp.n))
    elif not abs(float(p) - emp.prob(k)) <= TOL_P:
        cx.v("mode-probability-wrong", "%s returned probability %.15g for a genotype of relative frequency %.15g" % (name, float(p), emp.prob(k)))


def support_facts(emp, cx):
    sc = emp.supports()
    mx = max(sc.values())
    if sum(1 for c in sc.values() if c == mx) > 1:
        cx.col.count("support_ties")
    # reach: the mode genotype's support is not the mode support
    top = emp.max_count()
    if all(sc[frozenset(g)] != mx for g, c in emp.counts.items() if c == top):
        cx.col.count("support_differs_from_mode_genotype_support")
    return sc, mx


def check_support_hap(post, emp, cx):
    """PosteriorGenotypeDistribution.mode_genotype_support() and the GenotypeSupportDistribution it returns."""
    col = cx.col
    col.count("support_checked")
    sd = post.mode_genotype_support()
    sc, mx = support_facts(emp, cx)
    keys = [hap_key(g.tolist()) for g in sd.genotypes]
    probs = np.asarray(sd.probabilities, dtype=float).tolist()
    if not keys or len(keys) != len(probs):
        cx.v("mode-support-malformed", "%d genotypes, %d probabilities" % (len(keys), len(probs)))
        return
    sups = {frozenset(k) for k in keys}
    if len(sups) != 1:
        cx.v("mode-support-mixes-supports", "returned genotypes span %d different haplotype sets" % len(sups))
        return
    S = next(iter(sups))
    if sc.get(S, 0) != mx:
        cx.v("mode-support-is-not-the-most-probable-support", "returned support %s has %d of %d steps, the best support has %d"
             % (short(sorted(S), 200), sc.get(S, 0), emp.n, mx))
        return
    members = {g for g in emp.counts if frozenset(g) == S}
    if len(members) > 1:
        col.count("support_with_dosage_variants")
    if len(set(keys)) != len(keys) or set(keys) != members:
        cx.v("mode-support-members-wrong", "returned %d genotypes (%d distinct) but %d retained genotypes have exactly this support"
             % (len(keys), len(set(keys)), len(members)))
        return
    for k, pi in zip(keys, probs):
        if not abs(pi - emp.prob(k)) <= TOL_P:
            cx.v("mode-support-member-probability-wrong", "member %s reported %.15g, relative frequency %.15g" % (short(k, 200), pi, emp.prob(k)))
            return
    if not abs(sum(probs) - mx / emp.n) <= TOL_S:
        cx.v("mode-support-probability-wrong", "member probabilities sum to %.15g, support frequency %.15g" % (sum(probs), mx / emp.n))
    al = [tuple(r) for r in sd.alleles().tolist()]
    if len(set(al)) != len(al) or set(al) != set(S):
        cx.v("support-alleles-wrong", "alleles() returned %s for support %s" % (short(al, 200), short(sorted(S), 200)))
    g, p = sd.mode_genotype()
    k = hap_key(g.tolist())
    bm = max(emp.counts[m] for m in members)
    if k not in members or emp.counts[k] != bm:
        cx.v("support-mode-genotype-not-most-frequent-member", "mode_genotype() returned %s (count %d), best member count %d" % (short(k, 200), emp.counts.get(k, 0), bm))
    elif not abs(float(p) - emp.prob(k)) <= TOL_P:
        cx.v("mode-support-member-probability-wrong", "mode_genotype() probability %.15g, relative frequency %.15g" % (float(p), emp.prob(k)))


def check_support_allele(post, emp, cx):
    """PosteriorGenotypeAllelesDistribution.mode(genotype_support=True)."""
    col = cx.col
    col.count("support_checked")
    g, p, sp = post.mode(genotype_support=True)
    sc, mx = support_facts(emp, cx)
    k = allele_key(np.asarray(g).tolist())
    S = frozenset(k)
    if k not in emp.counts or sc.get(S, 0) != mx:
        cx.v("mode-support-is-not-the-most-probable-support", "mode(genotype_support=True) returned %s whose allele set has %d of %d steps, the best allele set has %d"
             % (k, sc.get(S, 0), emp.n, mx))
        return
    members = {m for m in emp.counts if frozenset(m) == S}
    if len(members) > 1:
        col.count("support_with_dosage_variants")
    bm = max(emp.counts[m] for m in members)
    if emp.counts[k] != bm:
        cx.v("support-mode-genotype-not-most-frequent-member", "returned %s (count %d) but a genotype with the same alleles has count %d" % (k, emp.counts[k], bm))
    elif not abs(float(p) - emp.prob(k)) <= TOL_P:
        cx.v("mode-support-member-probability-wrong", "genotype probability %.15g, relative frequency %.15g" % (float(p), emp.prob(k)))
    if not abs(float(sp) - mx / emp.n) <= TOL_S:
        cx.v("mode-support-probability-wrong", "support probability %.15g, frequency of the allele set %.15g" % (float(sp), mx / emp.n))


def check_allele_frequencies(post, emp, cx):
    col = cx.col
    stats = emp.unit_stats()
    if any(len(set(g)) < len(g) for g in emp.counts):
        col.count("repeated_unit_in_genotype")
    # repeated calls on ONE posterior object, in an order that depends on the object: every answer must be right, whatever was asked before
    order = [(False, True, True, False), (True, False, False, True), (True, True, False), (False, False, True)][len(emp.counts) % 4]
    for dosage in order:
        col.count("allele_frequencies_checked")
        haps, fr, oc = post.allele_frequencies(dosage=dosage)
        hk = [tuple(h) for h in haps.tolist()]
        if len(set(hk)) != len(hk) or set(hk) != set(stats) or len(fr) != len(hk) or len(oc) != len(hk):
            cx.v("allele-frequencies-haplotype-set-wrong", "allele_frequencies(dosage=%s) lists %d haplotypes (%d distinct), retained steps hold %d"
                 % (dosage, len(hk), len(set(hk)), len(stats)))
            return
        for h, f, o in zip(hk, np.asarray(fr, float).tolist(), np.asarray(oc, float).tolist()):
            mean, occ = stats[h]
            want = mean if dosage else mean / emp.ploidy
            if not abs(f - want) <= TOL_S:
                cx.v("allele-frequency-wrong", "allele_frequencies(dosage=%s): haplotype %s reported %.12g, posterior mean %s is %.12g"
                     % (dosage, h, f, "count" if dosage else "frequency", want))
                return
            if not abs(o - occ) <= TOL_S:
                cx.v("allele-occurrence-wrong", "allele_frequencies(dosage=%s): haplotype %s occurrence reported %.12g, it occurs in a fraction %.12g of retained steps"
                     % (dosage, h, o, occ))
                return


def check_posterior_frequencies(trace, emp, n_allele, cx):
    col = cx.col
    col.count("posterior_frequencies_checked")
    if any(len(set(g)) < len(g) for g in emp.counts):
        col.count("repeated_unit_in_genotype")
    fr, cn, oc = trace.posterior_frequencies()
    stats = emp.unit_stats()
    if not (len(fr) == len(cn) == len(oc) == n_allele):
        cx.v("posterior-frequencies-length-wrong", "lengths %d/%d/%d for n_allele %d" % (len(fr), len(cn), len(oc), n_allele))
        return
    for a in range(n_allele):
        mean, occ = stats.get(a, (0.0, 0.0))
        if not abs(float(cn[a]) - mean) <= TOL_S:
            cx.v("allele-frequency-wrong", "posterior_frequencies: allele %d count %.12g, posterior mean count %.12g" % (a, float(cn[a]), mean))
            return
        if not abs(float(fr[a]) - mean / emp.ploidy) <= TOL_S:
            cx.v("allele-frequency-wrong", "posterior_frequencies: allele %d frequency %.12g, posterior mean frequency %.12g" % (a, float(fr[a]), mean / emp.ploidy))
            return
        if not abs(float(oc[a]) - occ) <= TOL_S:
            cx.v("allele-occurrence-wrong", "posterior_frequencies: allele %d occurrence %.12g, it occurs in a fraction %.12g of retained steps" % (a, float(oc[a]), occ))
            return


def check_as_array(post, emp, n_alleles, cx):
    ng = M.n_genotypes(n_alleles, emp.ploidy)
    if ng > 300000:
        # a G-length array of this size (large pool x many labels) is not something to allocate per case
        cx.col.count("as_array_skipped_more_than_300000_genotypes")
        return
    cx.col.count("as_array_checked")
    arr = np.asarray(post.as_array(n_alleles), dtype=float)
    if arr.shape != (ng,):
        cx.v("as-array-length-wrong", "as_array(%d) has shape %s, ploidy %d has %d genotypes" % (n_alleles, arr.shape, emp.ploidy, ng))
        return
    want = np.zeros(ng)
    for g in emp.counts:
        want[vcf_index(g, n_alleles)] = emp.prob(g)
    bad = np.nonzero(~(np.abs(arr - want) <= TOL_P))[0]
    if len(bad):
        i = int(bad[0])
        cx.v("as-array-probability-at-wrong-index", "as_array(%d)[%d] = %.12g, relative frequency of the genotype with that VCF index %.12g; %d of %d entries differ"
             % (n_alleles, i, arr[i], want[i], len(bad), ng))


def check_incongruence(trace, emp, thr, cx, kind):
    col = cx.col
    col.count("incongruence_checked")
    got = trace.replicate_incongruence(thr)
    allowed, dosage_only = incongruence_allowed(emp.per_chain, emp.ploidy, thr)
    if allowed is None:
        col.count("incongruence_skipped_many_ties")
        return
    if dosage_only:
        col.count("incongruence_dosage_only_ambiguous")
    if len(allowed) == 1:
        col.count("incongruence_decided_%d" % next(iter(allowed)))
    else:
        col.count("incongruence_ambiguous")
    try:
        gi = int(got)
    except Exception:
        gi = None
    if gi != got or gi not in allowed:
        sup = []
        for cnt in emp.per_chain:
            sc = support_counts(cnt)
            S, c = max(sc.items(), key=lambda t: t[1])
            sup.append("%s:%d/%d" % (sorted(S), c, sum(cnt.values())))
        msg = "replicate_incongruence(%r) returned %r, admissible %s; ploidy %d; per-chain mode supports %s" % (thr, got, sorted(allowed), emp.ploidy, short(sup, 900))
        if gi == 2 and 2 not in allowed:
            mech = "cnv-flag-raised-with-at-most-ploidy-%s" % ("haplotypes" if kind == "hap" else "alleles")
        elif 2 in allowed and len(allowed) == 1:
            mech = "cnv-flag-missing-with-more-than-ploidy-%s" % ("haplotypes" if kind == "hap" else "alleles")
        else:
            mech = "incongruence-flag-wrong"
        cx.v(mech, msg, threshold=thr)


def check_split(trace, emp, keyf, cx):
    parts = list(trace.split())
    cx.col.count("split_checked")
    if len(parts) != len(emp.chains):
        cx.v("split-wrong-number-of-chains", "split() yielded %d traces for %d chains" % (len(parts), len(emp.chains)))
        return
    for c, part in enumerate(parts):
        sub = Emp([emp.chains[c]])
        cx2 = Ctx(cx.col, cx.payload, cx.what + " split chain %d" % c)
        if part.genotypes.shape[0] != 1:
            cx2.v("split-wrong-number-of-chains", "a split trace holds %d chains" % part.genotypes.shape[0])
            return
        check_posterior(part.posterior(), sub, keyf, cx2)


def nontrivial(emp):
    return len(emp.counts) >= 2 or len(emp.chains) >= 2


def case_id(arr, *meta):
    h = hashlib.blake2b(digest_size=8)
    h.update(np.ascontiguousarray(arr).tobytes())
    h.update(repr((arr.shape, str(arr.dtype)) + meta).encode())
    return h.hexdigest()


def check_burn_common(bt, G, llks, n, cx):
    """Shapes and step identity (llks carry a (chain, step) tag)."""
    col = cx.col
    col.count("burn_checked")
    chains, steps = G.shape[:2]
    if chains >= 2 and n >= 1:
        col.count("burn_multichain_positive")
    want_shape = (chains, steps - n) + G.shape[2:]
    if tuple(bt.genotypes.shape) != want_shape:
        cx.v("burn-removes-wrong-number-of-steps", "burn(%d) of a %d-chain x %d-step trace returned genotypes of shape %s, expected %s"
             % (n, chains, steps, tuple(bt.genotypes.shape), want_shape))
        return False
    if llks is not None:
        if tuple(bt.llks.shape) != (chains, steps - n):
            cx.v("burn-removes-wrong-number-of-steps", "burn(%d) returned llks of shape %s, expected %s" % (n, tuple(bt.llks.shape), (chains, steps - n)))
            return False
        if not np.array_equal(bt.llks, llks[:, n:]):
            bad = np.argwhere(bt.llks != llks[:, n:])[0]
            cx.v("burn-retains-wrong-steps", "burn(%d): retained llk at chain %d position %d carries tag %r, expected step %d of that chain (tag %r)"
                 % (n, bad[0], bad[1], float(bt.llks[bad[0], bad[1]]), n + bad[1], float(llks[bad[0], n + bad[1]])))
            return False
    return True


# ---- family: haplotype traces ------------------------------------------------


def run_hap(rng, col, payload):
    from mchap.assemble.classes import GenotypeMultiTrace

    G = gen_hap_trace(rng)
    chains, steps, ploidy, n_pos = G.shape
    llks = tag_llks(chains, steps)
    col.count("traces_hap")
    if n_pos == 0:
        col.count("zero_site_traces")
    col.maxv("max_steps", steps)
    col.maxv("max_ploidy", ploidy)
    col.maxv("max_sites", n_pos)
    col.maxv("max_chains", chains)
    nested = G.tolist()
    keys = [[hap_key(st) for st in ch] for ch in nested]
    raw = {}
    for ch in nested:
        for st in ch:
            raw.setdefault(hap_key(st), set()).add(repr(st))
    if any(len(v) > 1 for v in raw.values()):
        col.count("order_variant_traces")
    G_in = G.copy()
    trace = GenotypeMultiTrace(G.copy(), llks.copy())
    what = "haplotype trace %dx%dx%dx%d" % G.shape
    for n in pick_burns(rng, steps):
        cx = Ctx(col, dict(payload, burn=n), what + " burn %d" % n)
        emp = Emp([k[n:] for k in keys])
        thr = pick_threshold(rng, emp)
        col.case(case_id(G_in, n, thr), nontrivial=nontrivial(emp))
        bt = trace.burn(n)
        if not check_burn_common(bt, G_in, llks, n, cx):
            continue
        # each retained step holds the same multiset as the corresponding input step
        got_keys = [[hap_key(st) for st in ch] for ch in bt.genotypes.tolist()]
        if got_keys != emp.chains:
            cx.v("burn-retains-wrong-steps", "burn(%d): retained steps are not steps %d.. of every chain as multisets" % (n, n))
            continue
        if rng.random() < 0.5:
            # query order is an input dimension too: the incongruence flag and the per-chain split asked of a FRESH burned
            # trace, before any posterior() was computed on that object (the programs happen to ask for posterior() first)
            cx.col.count("incongruence_queried_before_posterior")
            fresh = trace.burn(n)
            check_incongruence(fresh, emp, thr, cx, "hap")
            if rng.random() < 0.5:
                check_split(trace.burn(n), emp, hap_key, cx)
            if n == 0 and rng.random() < 0.5:
                check_incongruence(GenotypeMultiTrace(G_in.copy(), llks.copy()), emp, thr, cx, "hap")
        post = bt.posterior()
        if check_posterior(post, emp, hap_key, cx) is None:
            continue
        g, p = post.mode()
        check_mode(g, p, emp, hap_key, cx, "mode()")
        check_support_hap(post, emp, cx)
        check_allele_frequencies(post, emp, cx)
        check_incongruence(bt, emp, thr, cx, "hap")
        if rng.random() < 0.3:
            check_split(bt, emp, hap_key, cx)
        if rng.random() < 0.3:
            # object history: the same trace / posterior objects queried a second time must answer as the first time
            cx.col.count("second_pass_on_same_objects")
            g, p = post.mode()
            check_mode(g, p, emp, hap_key, cx, "mode() [second query]")
            check_support_hap(post, emp, cx)
            check_allele_frequencies(post, emp, cx)
            check_incongruence(bt, emp, thr, cx, "hap")
            check_posterior(bt.posterior(), emp, hap_key, cx)
    return {"genotypes_shape": list(G.shape), "first_steps": G_in[:, :3].tolist()}


# ---- family: allele traces -----------------------------------------------------


def allele_functionals(trace, keys, n_allele, n, rng, col, payload, what, llks=None, G_in=None, burn_check=True, relabel=True):
    """All summaries of GenotypeAllelesMultiTrace `trace` after burn(n); keys = canonical keys of the unburnt steps."""
    cx = Ctx(col, dict(payload, burn=n), what + " burn %d" % n)
    emp = Emp([k[n:] for k in keys])
    thr = pick_threshold(rng, emp)
    col.case(case_id(np.asarray(trace.genotypes), n, thr, what), nontrivial=nontrivial(emp))
    bt = trace.burn(n)
    if burn_check:
        if not check_burn_common(bt, np.asarray(trace.genotypes) if G_in is None else G_in, llks, n, cx):
            return
        src = np.asarray(trace.genotypes) if G_in is None else G_in
        if not np.array_equal(bt.genotypes, src[:, n:]):
            cx.v("burn-retains-wrong-steps", "burn(%d): retained genotypes are not steps %d.. of every chain" % (n, n))
            return
    post = bt.posterior()
    if check_posterior(post, emp, allele_key, cx) is None:
        return
    g, p = post.mode()
    check_mode(g, p, emp, allele_key, cx, "mode()")
    check_support_allele(post, emp, cx)
    check_posterior_frequencies(bt, emp, n_allele, cx)
    # allele frequencies / counts / occurrence are functionals of the multiset stored at each step: the same trace with the
    # alleles of every step stored in another order must give the same numbers (posterior() itself relies on the samplers'
    # canonical order, which is monitored on the real samplers)
    if emp.ploidy >= 2 and rng.random() < 0.5:
        G = np.array(bt.genotypes, copy=True)
        if G.size:
            perm = rng.permuted(np.tile(np.arange(G.shape[-1]), G.shape[:-1] + (1,)), axis=-1)
            Gs = np.take_along_axis(G, perm, axis=-1)
            shuffled = type(bt)(Gs, bt.llks, bt.n_allele)
            cx.col.count("posterior_frequencies_order_variants")
            check_posterior_frequencies(shuffled, emp, n_allele, cx)
    na = n_allele + (int(rng.integers(1, 3)) if rng.random() < 0.2 and n_allele + emp.ploidy <= 11 else 0)
    check_as_array(post, emp, na, cx)
    check_incongruence(bt, emp, thr, cx, "allele")
    if rng.random() < 0.3:
        check_split(bt, emp, allele_key, cx)
    if rng.random() < 0.3:
        # object history: a second round of queries on the same objects
        cx.col.count("second_pass_on_same_objects")
        g, p = post.mode()
        check_mode(g, p, emp, allele_key, cx, "mode() [second query]")
        check_support_allele(post, emp, cx)
        check_posterior_frequencies(bt, emp, n_allele, cx)
        check_as_array(post, emp, na, cx)
        check_incongruence(bt, emp, thr, cx, "allele")
        check_posterior(bt.posterior(), emp, allele_key, cx)
    if relabel and rng.random() < 0.25:
        # order-preserving relabelling (what the programs do when some haplotypes are masked)
        labels = np.sort(rng.permutation(n_allele + 3)[:n_allele]).astype(np.int64)
        rt = bt.relabel(labels)
        col.count("relabel_checked")
        lab = labels.tolist()
        if not np.array_equal(rt.genotypes, labels[np.asarray(bt.genotypes)]):
            cx.v("relabel-not-elementwise", "relabel(%s) did not map every allele through the labels" % lab)
            return
        emp2 = Emp([[tuple(lab[a] for a in k) for k in ch] for ch in emp.chains])
        cx2 = Ctx(col, cx.payload, cx.what + " relabelled")
        post2 = rt.posterior()
        if check_posterior(post2, emp2, allele_key, cx2) is not None:
            check_support_allele(post2, emp2, cx2)
            check_as_array(post2, emp2, int(labels.max()) + 1, cx2)


def run_allele(rng, col, payload):
    from mchap.calling.classes import GenotypeAllelesMultiTrace

    G, n_allele = gen_allele_trace(rng)
    chains, steps, ploidy = G.shape
    llks = tag_llks(chains, steps)
    col.count("traces_allele")
    col.maxv("max_alleles", n_allele)
    keys = [[tuple(st) for st in ch] for ch in G.tolist()]  # already sorted
    G_in = G.copy()
    trace = GenotypeAllelesMultiTrace(G, llks, n_allele)
    what = "allele trace %dx%dx%d (%d alleles, %s)" % (chains, steps, ploidy, n_allele, G.dtype)
    for n in pick_burns(rng, steps):
        allele_functionals(trace, keys, n_allele, n, rng, col, payload, what, llks=llks, G_in=G_in)
    return {"genotypes_shape": list(G.shape), "n_allele": n_allele, "first_steps": G_in[:, :3].tolist()}


# ---- family: pedigree traces -----------------------------------------------------


def pedigree_checks(ptrace, T_in, ploidies, n_allele, rng, col, payload, what, n_individuals=2):
    """burn / individual of a PedigreeAllelesMultiTrace whose input array was T_in; then summaries per individual."""
    chains, steps, n_samples, mp = T_in.shape
    for n in pick_burns(rng, steps):
        cx = Ctx(col, dict(payload, burn=n), what + " burn %d" % n)
        bt = ptrace.burn(n)
        if not check_burn_common(bt, T_in, None, n, cx):
            continue
        if not np.array_equal(bt.genotypes, T_in[:, n:]):
            cx.v("burn-retains-wrong-steps", "pedigree burn(%d): retained genotypes are not steps %d.. of every chain" % (n, n))
            continue
        sel = rng.permutation(n_samples)[:n_individuals]
        for i in sel:
            i = int(i)
            pl = ploidies[i]
            col.count("individual_checked")
            if pl < mp:
                col.count("individual_padded_checked")
            cxi = Ctx(col, dict(payload, burn=n, individual=i), what + " burn %d individual %d (ploidy %d of max %d)" % (n, i, pl, mp))
            ind = bt.individual(i)
            want = T_in[:, n:, i, :pl]
            if tuple(ind.genotypes.shape) != tuple(want.shape) or not np.array_equal(ind.genotypes, want):
                cxi.v("individual-returns-wrong-columns", "individual(%d) returned genotypes of shape %s (first step %s); expected that individual's %d alleles without padding, shape %s (first step %s)"
                      % (i, tuple(ind.genotypes.shape), ind.genotypes[0, 0].tolist() if ind.genotypes.size else [], pl, tuple(want.shape), want[0, 0].tolist()))
                continue
            # individual-then-burn must equal burn-then-individual
            alt = ptrace.individual(i).burn(n)
            if not np.array_equal(alt.genotypes, want):
                cxi.v("burn-retains-wrong-steps", "individual(%d).burn(%d) differs from burn(%d).individual(%d)" % (i, n, n, i))
                continue
            keys = [[tuple(st) for st in ch] for ch in want.tolist()]
            allele_functionals(ind, keys, n_allele, 0, rng, col, dict(payload, individual=i, outer_burn=n), cxi.what, burn_check=False, relabel=False)


def run_ped(rng, col, payload):
    from mchap.pedigree.classes import PedigreeAllelesMultiTrace

    T, ploidies, n_allele = gen_ped_trace(rng)
    col.count("traces_ped")
    T_in = T.copy()
    pt = PedigreeAllelesMultiTrace(T, n_allele=n_allele)
    what = "pedigree trace %dx%dx%dx%d ploidies %s" % (T.shape + (ploidies,))
    pedigree_checks(pt, T_in, ploidies, n_allele, rng, col, payload, what)
    return {"genotypes_shape": list(T.shape), "ploidies": ploidies, "first_steps": T_in[:, :2].tolist()}


# ---- family: real call sampler -----------------------------------------------------


def run_realcall(rng, col, payload):
    from mchap.calling.classes import CallingMCMC

    ploidy = int(rng.integers(1, 7))
    n_pos = int(rng.integers(1, 5))
    haps, n_alleles = gen.gen_haplotype_set(rng, int(rng.integers(1, 9)), n_pos)
    n_haps = len(haps)
    n_nucl = int(max(2, n_alleles.max()))
    n_reads = int(rng.integers(0, 5))
    if n_reads:
        reads = gen.gen_reads(rng, n_reads, n_alleles, n_nucl=n_nucl, style=str(rng.choice(["mchap", "dirichlet"])), err_choices=(0.05, 0.2))
    else:
        reads = np.full((1, n_pos, n_nucl), np.nan)
    counts = np.ones(len(reads), dtype=np.int64)
    freqs = gen.gen_frequencies(rng, n_haps, mode=str(rng.choice(["none", "flat", "skew", "rand"])))
    F = gen.gen_inbreeding(rng)
    out = None
    for st in ("Gibbs", "Metropolis-Hastings"):
        chains = int(rng.integers(1, 5))
        steps = int(rng.integers(5, 61))
        s = int(rng.integers(1, 2**31 - 1))
        model = CallingMCMC(ploidy=ploidy, haplotypes=haps, frequencies=freqs, inbreeding=F, steps=steps, chains=chains, random_seed=s, step_type=st)
        trace = model.fit(reads, counts)
        col.count("traces_realcall")
        G = np.asarray(trace.genotypes)
        what = "CallingMCMC(%s) trace %dx%dx%d over %d haplotypes" % (st, chains, steps, ploidy, n_haps)
        cx = Ctx(col, dict(payload, step_type=st), what)
        if G.shape != (chains, steps, ploidy) or tuple(trace.llks.shape) != (chains, steps) or trace.n_allele != n_haps:
            cx.v("sampler-trace-malformed", "genotypes %s llks %s n_allele %r" % (G.shape, tuple(trace.llks.shape), trace.n_allele))
            continue
        col.count("real_call_steps_sorted", chains * steps)
        col.count("real_call_steps_heterozygous", int((G.max(axis=-1) > G.min(axis=-1)).sum()))
        if G.min() < 0 or G.max() >= n_haps:
            cx.v("sampler-emits-invalid-allele", "alleles range %d..%d with %d haplotypes" % (G.min(), G.max(), n_haps))
            continue
        bad = np.argwhere(~np.all(G[..., 1:] >= G[..., :-1], axis=-1))
        if len(bad):
            c, s_ = bad[0]
            cx.v("sampler-emits-unsorted-step", "%d of %d emitted steps are not sorted ascending, e.g. chain %d step %d = %s"
                 % (len(bad), chains * steps, c, s_, G[c, s_].tolist()))
            continue
        keys = [[tuple(x) for x in ch] for ch in G.tolist()]
        for n in pick_burns(rng, steps):
            allele_functionals(trace, keys, n_haps, n, rng, col, dict(payload, step_type=st), what, llks=np.asarray(trace.llks).copy()
                               if not np.isnan(trace.llks).any() else None, G_in=G.copy())
        out = {"sampler": "CallingMCMC", "step_type": st, "first_steps": G[:, :4].tolist()}
    return out


# ---- family: real pedigree sampler -----------------------------------------------------


def run_realped(rng, col, payload):
    from mchap.pedigree.classes import PedigreeCallingMCMC

    name = PED_REAL[int(rng.integers(len(PED_REAL)))]
    I = pedgen.make_pedigree(rng, name)
    I["err"] = np.maximum(I["err"], 0.05)  # every starting state has positive probability
    ploidies = [int(p) for p in I["ploidy"]]
    n_haps = len(I["haps"])
    mp = max(ploidies)
    out = None
    for st in ("Gibbs", "Metropolis-Hastings"):
        chains = int(rng.integers(1, 4))
        steps = int(rng.integers(6, 41))
        s = int(rng.integers(1, 2**31 - 1))
        model = PedigreeCallingMCMC(sample_ploidy=I["ploidy"], sample_inbreeding=np.zeros(len(ploidies)), sample_parents=I["parents"],
                                    gamete_tau=I["tau"], gamete_lambda=I["lam"], gamete_error=I["err"], haplotypes=I["haps"],
                                    frequencies=I["freqs"], steps=steps, annealing=int(rng.integers(0, steps // 2 + 1)), chains=chains,
                                    random_seed=s, step_type=st, swap_parental_alleles=bool(rng.random() < 0.7))
        pt = model.fit(I["reads"], I["counts"])
        col.count("traces_realped")
        T = np.asarray(pt.genotypes)
        what = "PedigreeCallingMCMC(%s) %s trace %dx%d ploidies %s over %d haplotypes" % (st, name, chains, steps, ploidies, n_haps)
        cx = Ctx(col, dict(payload, step_type=st), what)
        if T.shape != (chains, steps, len(ploidies), mp) or pt.n_allele != n_haps:
            cx.v("sampler-trace-malformed", "genotypes %s n_allele %r" % (T.shape, pt.n_allele))
            continue
        ok = True
        for i, pl in enumerate(ploidies):
            A = T[:, :, i, :pl]
            Pd = T[:, :, i, pl:]
            col.count("real_pedigree_steps_sorted", chains * steps)
            if pl < mp:
                col.count("real_pedigree_padded_steps", chains * steps)
            if Pd.size and not np.all(Pd == -1) or A.min() < 0:
                c, s_ = np.argwhere(~(np.all(Pd == -1, axis=-1) & np.all(A >= 0, axis=-1)))[0]
                cx.v("sampler-padding-not-last", "individual %d (ploidy %d of max %d): chain %d step %d = %s; the first %d entries must be alleles and the rest -1"
                     % (i, pl, mp, c, s_, T[c, s_, i].tolist(), pl))
                ok = False
                break
            if A.max() >= n_haps:
                cx.v("sampler-emits-invalid-allele", "individual %d allele %d with %d haplotypes" % (i, A.max(), n_haps))
                ok = False
                break
            bad = np.argwhere(~np.all(A[..., 1:] >= A[..., :-1], axis=-1))
            if len(bad):
                c, s_ = bad[0]
                cx.v("sampler-emits-unsorted-step", "individual %d: %d of %d emitted steps are not sorted ascending, e.g. chain %d step %d = %s"
                     % (i, len(bad), chains * steps, c, s_, T[c, s_, i].tolist()))
                ok = False
                break
        if not ok:
            continue
        pedigree_checks(pt, T.copy(), ploidies, n_haps, rng, col, dict(payload, step_type=st), what, n_individuals=len(ploidies))
        out = {"sampler": "PedigreeCallingMCMC", "scenario": name, "step_type": st, "first_steps": T[:, :3].tolist()}
    return out


RUNNERS = {"hap": run_hap, "allele": run_allele, "ped": run_ped, "realcall": run_realcall, "realped": run_realped}


def run_case(family, seed, shard, index, col):
    rng = gen.rng_for(seed, ID, shard * 10 + FCODE[family], index)
    payload = {"family": family, "shard": shard, "index": index, "seed": seed}
    return RUNNERS[family](rng, col, payload)


def run_prog(tier, seed, spec, col):
    """`mchap call` in-process: the full trace of every sample's sampler is captured where the program receives it
    (CallingMCMC.fit), and the GT / GPM / SPM / MCI / AFP / ACP / AOP the program PRINTS must be the functionals of the
    steps retained after --mcmc-burn (all chains), with --mcmc-chain-incongruence-threshold as the MCI threshold."""
    import os
    import shutil
    import warnings

    from mchap.application import call as CALL

    from vlib import cli, datasets, env, hapvcf, monitors, vcfparse

    for dI in range(spec["datasets"]):
        rng = gen.rng_for(seed, ID, spec["shard"], dI)
        root = env.workdir("c14-%s-%d" % (spec["name"], dI))
        shutil.rmtree(root, ignore_errors=True)
        ds = datasets.make_dataset(rng, root, n_samples=int(rng.integers(2, 4)), n_loci=int(rng.integers(2, 5)), ploidy=[2, 4, 6], depth=(0, 6), contig_len=600,
                                   snv_range=(1, 4), hostile=0.05, err=0.03)
        recs = []
        for L in ds.loci:
            ref = ds.contigs[L["contig"]][L["start"]:L["stop"]]
            alts = []
            for smp in ds.samples:
                for hap in ds.genotypes[(smp, L["name"])]:
                    sq = datasets.hap_sequence(ds.contigs, L, hap, L["start"], L["stop"])
                    if sq != ref and sq not in alts:
                        alts.append(sq)
            r = {"contig": L["contig"], "pos0": L["start"], "id": L["name"], "ref": ref, "alts": alts[:5]}
            w = np.round(rng.dirichlet(np.ones(1 + len(r["alts"]))), 3)
            if len(r["alts"]) >= 2 and rng.random() < 0.4:
                w[int(rng.integers(0, len(w)))] = 0.0      # relabelling after masking
            if w.sum() <= 0:
                w[-1] = 1.0
            r["info"] = {"AFP": ",".join(repr(float(x)) for x in w)}
            recs.append(r)
        hv = hapvcf.write(os.path.join(root, "haps.vcf"), hapvcf.render(ds.contigs, recs, info_defs=[{"ID": "AFP", "Number": "R", "Type": "Float"}]))
        pf = os.path.join(root, "ploidy.txt")
        with open(pf, "w") as fh:
            for smp in ds.samples:
                fh.write("%s\t%d\n" % (smp, ds.ploidy[smp]))
        steps = int(rng.choice([30, 60, 120]))
        burn = int(rng.choice([0, 1, steps // 3, steps // 2, steps - 1]))
        chains = int(rng.choice([1, 2, 3, 4]))
        thr = float(rng.choice([0.6, 0.6, 0.3, 0.5, 0.9]))
        use_freq = rng.random() < 0.5
        argv = ["call", "--haplotypes", hv, "--bam"] + ds.bams + ["--ploidy", pf, "--mcmc-steps", str(steps), "--mcmc-burn", str(burn), "--mcmc-chains", str(chains),
                "--mcmc-seed", str(dI % 4), "--mcmc-chain-incongruence-threshold", repr(thr), "--inbreeding", repr(float(rng.choice([0.0, 0.2]))),
                "--report", "AFP", "ACP", "AOP"] + (["--prior-frequencies", "AFP"] if use_freq else [])
        case = {"family": "prog", "kind": "prog", "seed": seed, "shard": spec["shard"], "index": dI, "steps": steps, "burn": burn, "chains": chains, "threshold": thr}
        col.case(case, nontrivial=chains > 1 and burn > 0)
        captured = []
        Real = CALL.CallingMCMC

        class Spy:
            def __init__(self, **kw):
                self.kw = kw
                self.real = Real(**kw)

            def fit(self, **kw2):
                tr = self.real.fit(**kw2)
                captured.append({"haplotypes": np.array(self.kw["haplotypes"], copy=True), "genotypes": np.array(tr.genotypes, copy=True), "ploidy": int(self.kw["ploidy"])})
                return tr

        per_locus, lines = [], []
        try:
            with warnings.catch_warnings():
                warnings.simplefilter("error", RuntimeWarning)
                with monitors.patched((CALL, "CallingMCMC", Spy)):
                    po = CALL.program.cli(["mchap"] + argv)
                    seen_data = []
                    real_csg = po.call_sample_genotypes

                    def spy_csg(data):
                        seen_data.append(data)
                        return real_csg(data)

                    po.call_sample_genotypes = spy_csg
                    header = "\n".join(str(h) for h in po.header())
                    for locus in po.loci():
                        lo = len(captured)
                        line = po.call_locus(locus, po.sample_bams)
                        per_locus.append((seen_data[-1], lo, len(captured), str(line)))
        except Exception as ex:  # noqa: BLE001
            cli.relax_warnings()
            col.inconclusive_note("call raised on a generated dataset: %s: %s" % (type(ex).__name__, str(ex)[:200]))
            shutil.rmtree(root, ignore_errors=True)
            continue
        cli.relax_warnings()
        hdr, outs = vcfparse.parse(header + "\n" + "\n".join(x[3] for x in per_locus) + "\n")
        stop = False
        for (data, lo, hi, _), out in zip(per_locus, outs):
            if stop:
                break
            S = list(data.samples)
            if hi == lo:
                continue
            if hi - lo != len(S):
                col.inconclusive_note("call ran %d samplers for %d samples" % (hi - lo, len(S)))
                break
            full = np.asarray(data.locus.encode_haplotypes())
            n_full = len(full)
            for smp, c in zip(S, captured[lo:hi]):
                where = "call --mcmc-steps %d --mcmc-burn %d --mcmc-chains %d, locus %s sample %s" % (steps, burn, chains, data.locus.name, smp)
                labels = []
                for h in c["haplotypes"]:
                    m = [k for k in range(n_full) if np.array_equal(full[k], h)]
                    labels.append(m[0] if m else None)
                g = c["genotypes"]
                if None in labels or g.ndim != 3 or g.shape[:2] != (chains, steps):
                    col.inconclusive_note("%s: captured trace of shape %s cannot be mapped to the record's alleles" % (where, g.shape))
                    continue
                lab = np.array(labels)
                kept = [[allele_key(lab[row].tolist()) for row in g[ch, burn:]] for ch in range(chains)]
                emp = Emp(kept)
                col.count("prog_traces_checked")
                if len(labels) < n_full:
                    col.count("prog_traces_relabelled_after_masking")
                sd = out.samples[smp]
                # what the program documents and prints: SPM = frequency of the most frequent ALLELE SET, GT = the most
                # frequent genotype with that allele set, GPM = that genotype's frequency (ties leave the choice open)
                sc = emp.supports()
                smx = max(sc.values())
                best_sets = [S_ for S_, c_ in sc.items() if c_ == smx]
                msg = None
                gt, _ = out.gt(smp)
                gpm = float(sd["GPM"]) if sd.get("GPM") not in (None, ".") else None
                spm = float(sd["SPM"]) if sd.get("SPM") not in (None, ".") else None
                if spm is None or abs(spm - smx / emp.n) > 5.1e-4:
                    msg = "SPM %r, the most frequent allele set among the %d retained steps has frequency %.6f" % (sd.get("SPM"), emp.n, smx / emp.n)
                elif gt is None or None in gt:
                    msg = "GT %s although the sampler ran" % sd.get("GT")
                else:
                    col.count("prog_modes_checked")
                    k = allele_key(gt)
                    if frozenset(k) not in best_sets or k not in emp.counts:
                        msg = "GT %s: its allele set has %d of %d retained steps, the best allele set has %d" % (sd.get("GT"), sc.get(frozenset(k), 0), emp.n, smx)
                    else:
                        bm = max(c_ for g_, c_ in emp.counts.items() if frozenset(g_) == frozenset(k))
                        if emp.counts[k] != bm:
                            msg = "GT %s has %d retained steps but a genotype with the same alleles has %d" % (sd.get("GT"), emp.counts[k], bm)
                        elif gpm is None or abs(gpm - emp.counts[k] / emp.n) > 5.1e-4:
                            msg = "GPM %r, GT %s has frequency %.6f among the %d retained steps" % (sd.get("GPM"), sd.get("GT"), emp.counts[k] / emp.n, emp.n)
                if msg is None:
                    us = emp.unit_stats()
                    for key, idx, scale in (("ACP", 0, 1.0), ("AFP", 0, 1.0 / c["ploidy"]), ("AOP", 1, 1.0)):
                        got = out.sample_list(smp, key)
                        want = [us.get(a, (0.0, 0.0))[idx] * scale for a in range(n_full)]
                        col.count("prog_allele_vectors_checked")
                        if got is None or len(got) != n_full or any(x is None for x in got) or max(abs(a - b) for a, b in zip(got, want)) > 5.1e-4:
                            msg = "%s %s, the retained steps give %s" % (key, sd.get(key), [round(x, 4) for x in want])
                            break
                if msg is None and chains >= 1:
                    allowed, _ = incongruence_allowed(emp.per_chain, c["ploidy"], thr)
                    if allowed is not None:
                        col.count("prog_mci_checked")
                        mci = sd.get("MCI")
                        if mci in (None, ".") or int(float(mci)) not in allowed:
                            msg = "MCI %r with --mcmc-chain-incongruence-threshold %r, admissible %s (per-chain mode supports %s)" % (
                                mci, thr, sorted(allowed), [sorted(max(support_counts(pc).items(), key=lambda kv: kv[1])[0]) for pc in emp.per_chain])
                if msg:
                    col.violation("program-summary-not-functional-of-retained-trace", "%s: %s" % (where, msg), case)
                    stop = True
                    break
        if dI == 0 and spec["shard"] == 40:
            col.sample({"family": "prog", "argv_tail": argv[-14:], "samplers_observed": len(captured)})
        shutil.rmtree(root, ignore_errors=True)


def run_shard(tier, seed, spec, col):
    if spec.get("kind") == "prog":
        return run_prog(tier, seed, spec, col)
    shard = spec["shard"]
    # real samplers first: their kernels are what a warm-up shard has to compile
    for family in ("realcall", "realped", "hap", "allele", "ped"):
        for index in range(per_shard(tier)[family]):
            info = run_case(family, seed, shard, index, col)
            if shard == 0 and index == 0 and family in ("hap", "realcall", "realped") and info:
                col.sample(dict(info, family=family))


def coverage_extra(tier, col):
    return {"exhaustive": False, "families": list(FAMILIES),
            "note": "burn values per trace: two of {0, random, steps-1}; burn == steps (empty trace) not run"}


def replay(obj, col):
    c = obj["case"]
    run_case(c["family"], int(c.get("seed", obj.get("seed", 0))), int(c["shard"]), int(c["index"]), col)
