"""Independent reference implementations of MCHap's documented model.

Nothing here imports mchap.  Written from the documentation / the statements of
the properties: mixture read likelihood, (Dirichlet-)multinomial genotype priors,
VCF genotype order, exact posteriors.
"""

import itertools
import math
from fractions import Fraction
from math import comb, lgamma

import numpy as np

NEG_INF = float("-inf")


# ---------------------------------------------------------------------------
# likelihood


def read_hap_prob(read, hap):
    """prod_j P[read, j, hap[j]] with NaN -> 1.  read: (n_pos, n_nucl) array."""
    p = 1.0
    for j, a in enumerate(hap):
        v = read[j][a]
        if v != v:  # NaN
            continue
        p *= v
    return p


def log_likelihood(reads, genotype, counts=None):
    """sum_r c_r log( mean_h prod_j P[r,j,g[h,j]] ).  -inf if some read has prob 0."""
    reads = np.asarray(reads, dtype=float)
    genotype = [tuple(int(a) for a in h) for h in genotype]
    ploidy = len(genotype)
    terms = []
    uh = {}
    for h in genotype:
        uh[h] = uh.get(h, 0) + 1
    for r in range(len(reads)):
        c = 1 if counts is None else counts[r]
        tot = math.fsum(read_hap_prob(reads[r], h) * d for h, d in uh.items()) / ploidy
        if tot <= 0.0:
            if c == 0:
                # 0 * log(0): the implementation yields nan; documented semantics silent
                return float("nan")
            return NEG_INF
        terms.append(c * math.log(tot))
    return math.fsum(terms)


def hap_read_matrix(reads, haplotypes):
    """M[r, a] = P(read r | haplotype a) (vectorised; NaN -> 1)."""
    reads = np.asarray(reads, dtype=float)
    haplotypes = np.asarray(haplotypes, dtype=int)
    n_r = reads.shape[0]
    n_h, n_pos = haplotypes.shape
    M = np.ones((n_r, n_h))
    for j in range(n_pos):
        col = reads[:, j, :][:, haplotypes[:, j]]  # (n_r, n_h)
        col = np.where(np.isnan(col), 1.0, col)
        M *= col
    return M


def log_likelihood_alleles_fast(M, alleles, counts=None):
    """Likelihood from a precomputed read x haplotype matrix."""
    ploidy = len(alleles)
    tot = M[:, list(alleles)].sum(axis=1) / ploidy
    with np.errstate(divide="ignore"):
        lg = np.log(tot)
    if counts is not None:
        lg = lg * np.asarray(counts)
    if len(lg) == 0:
        return 0.0
    return float(math.fsum(lg.tolist())) if np.all(np.isfinite(lg)) else float(lg.sum())


# ---------------------------------------------------------------------------
# genotype enumeration (VCF order)


def genotypes_vcf_order(n_alleles, ploidy):
    """All sorted allele tuples in the order of the VCF spec for G-length fields."""
    gs = list(itertools.combinations_with_replacement(range(n_alleles), ploidy))
    gs.sort(key=lambda g: tuple(reversed(g)))
    return gs


def n_genotypes(n_alleles, ploidy):
    return comb(n_alleles + ploidy - 1, ploidy)


def genotype_index(g):
    """Index of sorted genotype tuple in VCF order."""
    return sum(comb(a + i, i + 1) for i, a in enumerate(g))


def dosage(g):
    d = {}
    for a in g:
        d[a] = d.get(a, 0) + 1
    return d


def log_perms(g):
    """log( ploidy! / prod d_i! ) for a multiset given as iterable of hashables."""
    d = dosage(g)
    return lgamma(len(g) + 1) - sum(lgamma(c + 1) for c in d.values())


def perms(g):
    d = dosage(g)
    num = math.factorial(len(g))
    for c in d.values():
        num //= math.factorial(c)
    return num


# ---------------------------------------------------------------------------
# priors


def log_prior(g, n_alleles, inbreeding=0.0, frequencies=None):
    """Log prior of unordered genotype g (tuple of allele indices).

    inbreeding == 0: multinomial with the allele frequencies.
    inbreeding  > 0: Dirichlet-multinomial with alpha_i = f_i (1-F)/F.
    """
    ploidy = len(g)
    d = dosage(g)
    if frequencies is None:
        f = {a: 1.0 / n_alleles for a in d}
        fsum = 1.0
    else:
        f = {a: float(frequencies[a]) for a in d}
        fsum = float(math.fsum(float(x) for x in frequencies))
    if inbreeding == 0:
        out = lgamma(ploidy + 1)
        for a, c in d.items():
            if f[a] <= 0:
                return NEG_INF
            out += c * math.log(f[a]) - lgamma(c + 1)
        return out
    scale = (1.0 - inbreeding) / inbreeding
    A = fsum * scale
    out = lgamma(ploidy + 1) + lgamma(A) - lgamma(ploidy + A)
    for a, c in d.items():
        al = f[a] * scale
        if al <= 0:
            return NEG_INF
        out += lgamma(c + al) - lgamma(c + 1) - lgamma(al)
    return out


def prior_exact(g, n_alleles, inbreeding, frequencies=None):
    """Exact rational prior (Fractions in, Fraction out) via rising factorials."""
    F = Fraction(inbreeding)
    ploidy = len(g)
    d = dosage(g)
    if frequencies is None:
        fr = [Fraction(1, n_alleles)] * n_alleles
    else:
        fr = [Fraction(x) for x in frequencies]
    multinom = Fraction(math.factorial(ploidy))
    for c in d.values():
        multinom /= math.factorial(c)
    if F == 0:
        out = multinom
        for a, c in d.items():
            out *= fr[a] ** c
        return out
    scale = (1 - F) / F
    A = sum(fr) * scale

    def rising(x, n):
        r = Fraction(1)
        for i in range(n):
            r *= x + i
        return r

    out = multinom / rising(A, ploidy)
    for a, c in d.items():
        out *= rising(fr[a] * scale, c)
    return out


def assemble_log_prior(genotype, n_haplotypes, inbreeding=0.0):
    """Prior of a multiset of haplotypes when all n_haplotypes possible haplotypes
    are equally frequent (the assemble prior)."""
    g = [tuple(int(a) for a in h) for h in genotype]
    ploidy = len(g)
    d = dosage(g)
    if inbreeding == 0:
        return lgamma(ploidy + 1) - sum(lgamma(c + 1) for c in d.values()) - ploidy * math.log(n_haplotypes)
    scale = (1.0 - inbreeding) / inbreeding
    A = scale
    if n_haplotypes > 10**6:
        # long loci: the per-haplotype dispersion is tiny (it may even leave the double range); rising factorials in log space,
        # Gamma(c + al) / Gamma(al) = al (al + 1) ... (al + c - 1), are exact algebra and need no difference of large lgamma values
        log_al = math.log(scale) - math.log(n_haplotypes)
        al = math.exp(log_al)
        out = lgamma(ploidy + 1) - sum(math.log(A + i) for i in range(ploidy))
        for c in d.values():
            out += log_al + sum(math.log(al + i) for i in range(1, c)) - lgamma(c + 1)
        return out
    al = scale / n_haplotypes
    out = lgamma(ploidy + 1) + lgamma(A) - lgamma(ploidy + A)
    for c in d.values():
        out += lgamma(c + al) - lgamma(c + 1) - lgamma(al)
    return out


# ---------------------------------------------------------------------------
# log-sum helpers


def logsumexp(xs):
    xs = [x for x in xs]
    m = max(xs) if xs else NEG_INF
    if m == NEG_INF:
        return NEG_INF
    return m + math.log(math.fsum(math.exp(x - m) for x in xs))


def normalise_logs(xs):
    z = logsumexp(xs)
    return [math.exp(x - z) if x != NEG_INF else 0.0 for x in xs]


def exact_posterior(reads, counts, haplotypes, ploidy, inbreeding=0.0, frequencies=None):
    """(genotypes in VCF order, posterior probs, llks, lpriors)."""
    n = len(haplotypes)
    M = hap_read_matrix(reads, haplotypes) if len(reads) else np.ones((0, n))
    gs = genotypes_vcf_order(n, ploidy)
    llks = [log_likelihood_alleles_fast(M, g, counts) for g in gs]
    lprs = [log_prior(g, n, inbreeding, frequencies) for g in gs]
    post = normalise_logs([a + b for a, b in zip(llks, lprs)])
    return gs, post, llks, lprs
