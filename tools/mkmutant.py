#!/venv/bin/python
"""tools/mkmutant.py <name> <file-relative-to-repo> <old> <new> [occurrence(1-based, default 1)]
Creates mutants/<name>.diff by replacing the n-th occurrence of <old> by <new> in a scratch copy (repo untouched)."""
import difflib, sys, os
name, rel, old, new = sys.argv[1:5]
occ = int(sys.argv[5]) if len(sys.argv) > 5 else 1
p = os.path.join("/repo", rel)
s = open(p).read()
old = old.encode().decode("unicode_escape"); new = new.encode().decode("unicode_escape")
i = -1
for _ in range(occ):
    i = s.find(old, i + 1)
    if i < 0:
        sys.exit("pattern not found: %r (occurrence %d)" % (old, occ))
t = s[:i] + new + s[i + len(old):]
d = "".join(difflib.unified_diff(s.splitlines(True), t.splitlines(True), "a/" + rel, "b/" + rel))
out = os.path.join(os.path.dirname(os.path.dirname(os.path.abspath(__file__))), "mutants", name + ".diff")
mode = "a" if os.environ.get("APPEND") else "w"
open(out, mode).write(d)
print("wrote", out, len(d))
